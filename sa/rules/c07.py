"""C07 — every datum is drawn once, at its true time, linked to its own label."""
import ast
import datetime as _dt
import re

from .util import *
from . import emit
from .emit import Pipe, flat, SVG, TEX, DIRECTIONS
from .c08 import box_of, H_atom, SIGMA
from .c09 import ticks as c09_ticks, labels as c09_labels, svg_path_points, _fill, oneshot_rule

EXPLANATION = (
    "C07.NORMALISE: the type dispatch of Timeline.parse_items is evaluated per input class (int, float, date, "
    "datetime, time; isinstance decided by the interpreter's own issubclass relation): numbers and datetimes pass "
    "unchanged, dates are combined with midnight, times with a date.  C07.ONE-EACH: for a symbolic two-datum "
    "timeline every emitter produces exactly one dot / link / box per datum.  C07.INIT-ORDER / EXPORT-CALLS / "
    "PIPELINE: construction normalises then initialises the axis; export runs compute() first and then each add_* "
    "once (add_axis iff showTicks); compute() = get_nodes -> Renderer -> Force(options['labella']) given exactly "
    "those nodes -> compute -> layout of the engine's nodes.  C07.INNERDIMS, C07.RANGE-AXIS, C07.DOMAIN: inner size = "
    "initial size minus margins; the scale's range is [0, L] with L the very length of the drawn axis; the domain is "
    "the explicit option or [min, max] of timeFn over all data.  C07.SCALE-FLOW / ON-AXIS: node data position, dot "
    "coordinate and tick positions are all scale(.) of the normalised time; dots carry only the along-axis coordinate."
    "  C07.LINK: per direction the path starts at the dot (0, root.idealPos), reaches for stub level l the point "
    "(+-((l+1)(G+H) - H), hop.currentPos), runs straight to +-(l+1)(G+H) and ends at the middle of the axis-facing edge "
    "of the label's box (polynomial identities against the box of C08).  C07.BOXSIZE / THICK / TEXT / TICKTEXT: "
    "drawn size = item size plus one padding pair each, item height is a single constant when a width is supplied, "
    "texts verbatim, each tick carries format(t) at scale(t).  Text rendering semantics are not decided."
    "  Also part of this check: an explicit domain is used as given (not niced); C08.GEOMETRY (the link ends on the box only if the box is where the layer geometry puts it); the caller's options reach the drawing (GEN.OPTS-MERGE: for every option the caller's value wins); 'compute first' is decided on the value-numbered export (every add_* sees the nodes/renderer of this export's own compute())."
)
ASSUMPTIONS = ["the scale object is affine (C12/C15)", "stubs of a label in layer k occupy layers 0..k-1 (C04.STUBCHAIN)"]

TL = "timeline.Timeline"


@rule("C07.NORMALISE")
def normalise(ctx, R):
    P = ctx.P
    f = P.func(TL + ".parse_items")
    R.saw(f)
    classes = {"int": int, "float": float, "date": _dt.date, "datetime": _dt.datetime, "time": _dt.time}
    real = {"datetime.date": _dt.date, "datetime.datetime": _dt.datetime, "datetime.time": _dt.time, "int": int, "float": float, "datetime.timedelta": _dt.timedelta, "str": str}
    loops = [n for n in f.node.body if isinstance(n, ast.For)]
    if len(loops) != 1:
        R.bad("C07.NORMALISE", f.qual + "|loop", where(f), "parse_items does not loop once over the data")
        return
    lp = loops[0]
    for cname, pycls in classes.items():
        created = []

        def hook(fv, args, kwargs, node, st_):
            if isinstance(fv, Ext) and fv.name == "isinstance" and len(args) == 2 and key(args[0]) == "T":
                k = args[1]
                names = [k.name] if isinstance(k, Ext) else ([x.name for x in k.items if isinstance(x, Ext)] if isinstance(k, Seq) else [])
                if names and all(nm in real for nm in names):
                    return Const(any(issubclass(pycls, real[nm]) for nm in names))
                return None
            if isinstance(fv, ClassRef) and fv.cls.qual == "timeline.Item":
                created.append((list(args), dict(kwargs)))
                return Opaque("ITEM", kind="obj")
            if isinstance(fv, Closure) and fv.func.qual == TL + ".textFn":
                return Opaque("TXT", kind="str")
            return None

        ev = new_eval(P, on_call=hook)
        ev.assume("truth(TXT)", True)
        st = ev.new_state(f)
        s = Opaque("self", cls=P.cls(SVG), kind="obj")
        st.env.vars[f.params[0]] = s
        st.heap[("self", "options")] = Opaque("self.options", kind="obj")
        d = DictV({"time": Opaque("T", kind="obj"), "width": Num.atom("WIDTH")}, ident="P:d")
        st.env.vars["items"] = Seq("list", [])
        pre = f.node.body[: f.node.body.index(lp)]
        ev.block(pre, st, [])
        if isinstance(lp.target, ast.Name):
            st.env.vars[lp.target.id] = d
        ev.block(lp.body, st, [])
        tv = created[0][0][0] if created and created[0][0] else (created[0][1].get("time") if created else None)
        got = key(tv) if tv is not None else None
        if cname in ("int", "float", "datetime"):
            ok = got == "T"
            want = "the value itself (time of day kept)"
        elif cname == "date":
            ok = got in ("datetime.datetime.combine(T, datetime.datetime.min.time())", "datetime.datetime.combine(T, datetime.time())", "datetime.datetime.combine(T, datetime.time.min)", "datetime.datetime(T.year, T.month, T.day)")
            want = "combine(date, midnight)"
        else:
            ok = got is not None and got.startswith("datetime.datetime.combine(") and got.endswith(", T)")
            want = "combine(<a date>, time)"
        R.check(ok and len(created) == 1, "C07.NORMALISE", "%s|time of class %s" % (f.qual, cname), where(f, lp), "%s -> %s" % (cname, want),
                "a datum whose time is a %s is normalised to %s (items created: %d), expected %s: the datum is not drawn at its true time" % (cname, got, len(created), want))
        if cname == "datetime" and created:
            txv = created[0][1].get("text") if "text" in created[0][1] else (created[0][0][2] if len(created[0][0]) > 2 else None)
            R.check(txv is not None and key(txv) == "TXT", "C07.TEXT", f.qual + "|text handed to the item", where(f, lp), "the item gets textFn(datum) unchanged", "parse_items hands %s to the item as its text, expected the value of textFn(datum) unchanged" % (show(txv) if txv is not None else None))
            dvv = created[0][1].get("data") if "data" in created[0][1] else (created[0][0][3] if len(created[0][0]) > 3 else None)
            R.check(dvv is d, "C07.TEXT", f.qual + "|datum handed to the item", where(f, lp), "the item keeps the caller's datum", "parse_items hands %s to the item as its datum, not the caller's dict" % (show(dvv) if dvv is not None else None))
        # the caller's dict is updated consistently (timeFn reads d['time'] later)
        dv = d.items.get("time")
        ctx._cache.setdefault("c07.normalise.results", {})[cname] = (got, key(dv) if dv is not None else None)
        R.check(key(dv) == got, "C07.NORMALISE", "%s|dict time of class %s" % (f.qual, cname), where(f, lp), "d['time'] holds the normalised value that the axis will see", "for a %s the item gets %s but d['time'] (read by timeFn for the axis domain and the dot position) is %s" % (cname, got, key(dv)))
    # every datum yields one item, in order
    cfg = ctx.cfg(f)
    apps = [n for n in cfg.stmt_nodes() if n.ast is not None and any(isinstance(c.func, ast.Attribute) and c.func.attr == "append" for c in calls_in(n.ast) + ([n.ast.value] if isinstance(n.ast, ast.Expr) and isinstance(n.ast.value, ast.Call) else []))]
    head = cfg.of_stmt.get(lp)
    asg = [s_ for s_ in cfg.succ[head] if cfg.elabel.get((head, s_)) is True]
    ok = bool(apps) and bool(asg) and not cfg.exists_path(asg[0], head, avoid=apps) and ntext(lp.iter) == f.params[1]
    R.check(ok, "C07.ONE-EACH", f.qual + "|one item per datum", where(f, lp), "every pass over the data appends one item", "a pass over the data can finish without appending an item (or the loop does not range over all data)")


@rule("C07.ONE-EACH")
def one_each(ctx, R):
    P = ctx.P
    for d in DIRECTIONS:
        ps, pt = emit.pipe(ctx, SVG, d, n=2), emit.pipe(ctx, TEX, d, n=2)
        N = len(ps.items)
        R.check(len(ps.nodes) == N and sorted(ps.item_index(n) for n in ps.nodes) == list(range(N)), "C07.ONE-EACH", "%s|one node per datum" % d, where(P.func(TL + ".get_nodes")), "%d data -> %d nodes, one each" % (N, N), "%d data yield nodes for the data %s" % (N, [ps.item_index(n) for n in ps.nodes]))
        for meth, tag, what in (("add_dots", "circle", "dot"), ("add_links", "path", "link"), ("add_labels", "rect", "label box")):
            f, out, r = ps.run_svg(meth)
            R.saw(f)
            n = len([e for e in out if e["tag"] == tag])
            R.check(n == N, "C07.ONE-EACH", "svg %s|%s" % (d, what), where(f), "one %s per datum" % what, "SVG %s emits %d %ss for %d data" % (meth, n, what, N))
        for meth, pat, what in (("add_dots", r"\\draw node \[circle", "dot"), ("add_labels", r"rectangle \(", "label box")):
            g, doc, r = pt.run_tex(meth)
            R.saw(g)
            n = sum(len(re.findall(pat, flat(x)[0])) for x in doc)
            R.check(n == N, "C07.ONE-EACH", "tex %s|%s" % (d, what), where(g), "one %s per datum" % what, "TikZ %s emits %d %ss for %d data" % (meth, n, what, N))
        g, doc, r = pt.run_tex("add_links")
        n = len([x for x in doc if "\\draw" in flat(x)[0]])
        R.check(n == N, "C07.ONE-EACH", "tex %s|link" % d, where(g), "one link per datum", "TikZ add_links emits %d links for %d data" % (n, N))


def _is_timeline_class(P, cls):
    """Timeline itself or a class derived from it (intermediate base classes of the back-ends included)."""
    try:
        base = P.cls(TL)
    except Exception:
        return cls.qual.startswith("timeline.Timeline")
    return base in P.mro(cls)


def _ctor_helper(fn, f):
    """A private module-level function of the constructor's module (option merging and the like), or a function nested in one."""
    top = fn
    while top.parent is not None:
        top = top.parent
    return top.cls is None and top.module is f.module and top.name.startswith("_") and not top.is_lambda


@rule("C07.INIT-ORDER")
def init_order(ctx, R):
    P = ctx.P
    f = P.func(TL + ".__init__")
    R.saw(f)
    cfg = ctx.cfg(f)

    def nodes_calling(name):
        return [n for n in cfg.stmt_nodes() if n.ast is not None and any(isinstance(c.func, ast.Attribute) and c.func.attr == name and ntext(c.func.value) == f.params[0] for c in calls_in(n.ast) + ([n.ast.value] if isinstance(n.ast, ast.Expr) and isinstance(n.ast.value, ast.Call) else []))]

    pi, ia = nodes_calling("parse_items"), nodes_calling("init_axis")
    ok = len(pi) == 1 and len(ia) == 1 and cfg.dominates(pi[0], ia[0]) and not cfg.exists_path(cfg.entry, cfg.exit, avoid=pi) and not cfg.exists_path(cfg.entry, cfg.exit, avoid=ia)
    R.check(ok, "C07.INIT-ORDER", f.qual, where(f), "parse_items (normalisation) then init_axis, both unconditional", "construction does not unconditionally normalise the data (parse_items) before initialising the axis (init_axis): the axis domain would be computed from raw dates/times or not at all")
    if ok:
        a = [c for c in calls_in(pi[0].ast) if isinstance(c.func, ast.Attribute) and c.func.attr == "parse_items"][0]
        b = [c for c in calls_in(ia[0].ast) + [ia[0].ast.value] if isinstance(c, ast.Call) and isinstance(c.func, ast.Attribute) and c.func.attr == "init_axis"][0]
        R.check(a.args and ntext(a.args[0]) == f.params[1] and b.args and ntext(b.args[0]) == f.params[1], "C07.INIT-ORDER", f.qual + "|same data", where(f), "both see the caller's data", "parse_items/init_axis are not given the caller's data list")
        tgt = pi[0].ast.targets[0] if isinstance(pi[0].ast, ast.Assign) else None
        R.check(tgt is not None and ntext(tgt) == "%s.items" % f.params[0], "C07.INIT-ORDER", f.qual + "|items stored", where(f), "self.items = parse_items(...)", "the parsed items are not stored in self.items")
    # direction attribute agrees with the option (private module-level helpers of the constructor are part of it)
    ev = new_eval(P, inline_filter=lambda fn: fn is f or _ctor_helper(fn, f))
    st = ev.new_state(f)
    s = Opaque("self", cls=P.cls(SVG), kind="obj")
    ev.assume("truth(OPTS)", True)
    ev.call_closure(Closure(f, None, selfv=s), [Opaque("DICTS", kind="seq"), Opaque("OPTS", kind="obj"), Const("svg")], {}, st)
    dv = st.heap.get(("self", "direction"))
    ok = dv is not None and all("OPTS['direction']" in key(l) for p_, l in leaves(dv))
    R.check(ok, "C07.INIT-ORDER", f.qual + "|direction", where(f), "self.direction is the direction option", "self.direction is %s, not options['direction']" % (show(dv) if dv is not None else None))


@rule("C07.EXPORT-CALLS")
def export_calls(ctx, R):
    P = ctx.P
    for backend in (SVG, TEX):
        f = P.func(backend + ".export")
        R.saw(f)
        cfg = ctx.cfg(f)
        selfn = f.params[0]

        def nodes_calling(name):
            return [n for n in cfg.stmt_nodes() if n.ast is not None and any(isinstance(c.func, ast.Attribute) and c.func.attr == name and ntext(c.func.value) == selfn for c in calls_in(n.ast) + ([n.ast.value] if isinstance(n.ast, ast.Expr) and isinstance(n.ast.value, ast.Call) else []))]

        comp = nodes_calling("compute")
        # semantic form: when each add_* runs, self.nodes / self.renderer hold the result of the compute() call made by
        # this very export (however the assignment is spelled: tuple target, helper method, two statements)
        seen_state = []
        ncomp = [0]

        def hook(fv, args, kwargs, node, st_):
            if isinstance(fv, Closure) and fv.func.qual == TL + ".compute":
                ncomp[0] += 1
                return Seq("tuple", [Opaque("NODES%d" % ncomp[0], kind="obj"), Opaque("RENDERER%d" % ncomp[0], kind="obj")])
            if isinstance(fv, Closure) and fv.func.cls is not None and fv.func.name.startswith("add_") and _is_timeline_class(P, fv.func.cls):
                hn, hr = st_.heap.get(("self", "nodes")), st_.heap.get(("self", "renderer"))
                seen_state.append((fv.func.name, key(hn) if hn is not None else None, key(hr) if hr is not None else None))
                return NONE
            if isinstance(fv, Ext):
                return Opaque("%s(...)#%d" % (fv.name, len(seen_state)), kind="obj")
            return None

        evx = new_eval(P, on_call=hook)
        stx = evx.new_state(f)
        sx = Opaque("self", cls=P.cls(backend), kind="obj")
        stx.heap[("self", "nodes")] = Const(None)
        stx.heap[("self", "renderer")] = Const(None)
        stx.heap[("self", "options")] = DictV({"showTicks": Const(True), "initialWidth": Num.atom("IW"), "initialHeight": Num.atom("IH")}, fallback="OPT")
        evx.call_closure(Closure(f, None, selfv=sx), [], {}, stx)
        stale = [t for t in seen_state if t[1] != "NODES1" or t[2] != "RENDERER1"]
        # (compute() may be called by export itself or by a method export calls: what counts is what the emitters see)
        okc = ncomp[0] == 1 and bool(seen_state) and not stale and (not comp or not cfg.exists_path(cfg.entry, cfg.exit, avoid=comp))
        R.check(okc, "C07.EXPORT-CALLS", f.qual + "|compute first", where(f), "every add_* of this export sees the nodes and renderer of this export's own compute()", "export does not lay out first: compute() runs %d time(s) and the emitters see %s (expected the nodes/renderer returned by this export's compute()): the drawing would use stale or missing nodes" % (ncomp[0], stale[:3] or seen_state[:2]))
        # which emitters run, how often, and under which condition: read from the evaluated export (wherever the calls are
        # written: in export itself, in a template method of the base class, in a loop over bound methods), once with
        # showTicks set and once without
        def emitter_marks(show):
            marks = []

            def hook2(fv, args, kwargs, node, st_):
                if isinstance(fv, Closure) and fv.func.qual == TL + ".compute":
                    return Seq("tuple", [Opaque("NODES", kind="obj"), Opaque("RENDERER", kind="obj")])
                if isinstance(fv, Closure) and fv.func.cls is not None and fv.func.name.startswith("add_") and _is_timeline_class(P, fv.func.cls):
                    st_.events.append(("mark", fv.func.name, node))
                    return NONE
                if isinstance(fv, Ext):
                    return Opaque("%s(...)" % fv.name, kind="obj")
                return None

            ev2 = new_eval(P, on_call=hook2)
            st2 = ev2.new_state(f)
            st2.heap[("self", "nodes")] = Const(None)
            st2.heap[("self", "renderer")] = Const(None)
            st2.heap[("self", "options")] = DictV({"showTicks": Const(show), "initialWidth": Num.atom("IW"), "initialHeight": Num.atom("IH")}, fallback="OPT")
            ev2.call_closure(Closure(f, None, selfv=Opaque("self", cls=P.cls(backend), kind="obj")), [], {}, st2)
            always, sometimes = [], []

            def walk(evs, cond):
                for e in evs:
                    if e[0] == "mark":
                        (sometimes if cond else always).append(e[1])
                    elif e[0] == "in-branch":
                        walk([e[3]], True)
                    elif e[0] == "loop":
                        walk(e[3], True)  # a loop over an unknown sequence: unknown number of passes
                    elif e[0] == "while":
                        walk(e[2], True)

            walk(st2.events, False)
            return always, sometimes

        runs = {show: emitter_marks(show) for show in (True, False)}
        for name in ("add_main", "add_timeline", "add_links", "add_labels", "add_dots"):
            ok = all(runs[sh][0].count(name) == 1 and name not in runs[sh][1] for sh in (True, False))
            R.check(ok, "C07.EXPORT-CALLS", f.qual + "|" + name, where(f), "%s runs exactly once on every export" % name, "%s is not called exactly once on every path of export (unconditional calls: %d with ticks / %d without; conditional calls: %s)" % (name, runs[True][0].count(name), runs[False][0].count(name), name in runs[True][1] or name in runs[False][1]))
        ok = runs[True][0].count("add_axis") == 1 and runs[False][0].count("add_axis") == 0 and "add_axis" not in runs[True][1] and "add_axis" not in runs[False][1]
        R.check(ok, "C07.EXPORT-CALLS", f.qual + "|add_axis iff showTicks", where(f), "ticks are drawn iff options['showTicks']", "add_axis is not called exactly when options['showTicks'] is set (with: %d, without: %d, under other conditions: %s)" % (runs[True][0].count("add_axis"), runs[False][0].count("add_axis"), "add_axis" in runs[True][1] or "add_axis" in runs[False][1]))
        # the text returned is the document built
        rets = [n for n in cfg.stmt_nodes() if n.kind == "stmt" and isinstance(n.ast, ast.Return)]
        R.check(bool(rets) and len({ntext(r.ast.value) for r in rets}) == 1, "C07.EXPORT-CALLS", f.qual + "|returns the document", where(f), "one document value is returned on every path", "export returns different values on different paths")


@rule("C07.PIPELINE")
def pipeline(ctx, R):
    P = ctx.P
    f = P.func(TL + ".compute")
    R.saw(f, P.func(TL + ".get_nodes"))
    for d in ("right", "up"):
        p = emit.pipe(ctx, SVG, d, n=2)
        names = [l[0] for l in p.log]
        want_tail = ["Force", "force.nodes(set)", "force.compute", "force.nodes()", "layout"]
        core = [n for n in names if n in want_tail]
        # a first layout before the engine runs is allowed but not required
        if core and core[0] == "layout":
            core = core[1:]
        R.check(core == want_tail, "C07.PIPELINE", "%s|order" % d, where(f), "Force(...) -> nodes(set) -> compute() -> nodes() -> renderer.layout()", "compute() runs %s: expected Force(...), force.nodes(nodes), force.compute(), force.nodes(), renderer.layout(<engine's nodes>) in this order" % core)
        fa = [l for l in p.log if l[0] == "Force"]
        R.check(bool(fa) and fa[0][1] == ["LABELLA"], "C07.PIPELINE", "%s|engine options" % d, where(f), "Force(self.options['labella'])", "the engine is constructed with %s, not the 'labella' options" % (fa[0][1] if fa else None))
        setn = [l for l in p.log if l[0] == "force.nodes(set)"]
        created = "[%s]" % ", ".join(n.text for n in sorted(p.nodes, key=lambda n: p.item_index(n)))
        R.check(bool(setn) and setn[0][1] == [created], "C07.PIPELINE", "%s|engine gets exactly the nodes" % d, where(f), "the engine lays out exactly the nodes of get_nodes()", "force.nodes(...) receives %s, expected the nodes built from the items %s" % (setn[0][1] if setn else None, created))
        lay = [l for l in p.log if l[0] == "layout"]
        final = "[%s]" % ", ".join(n.text for n in p.nodes)
        R.check(bool(lay) and lay[-1][1] == [final] and isinstance(p.compute_result, Seq) and len(p.compute_result.items) == 2 and key(p.compute_result.items[0]) == final, "C07.PIPELINE", "%s|layout after the engine" % d, where(f), "renderer.layout(force.nodes()) and those nodes are returned", "the last renderer.layout sees %s and compute() returns %s: the drawing coordinates are not derived from the engine's result" % (lay[-1][1] if lay else None, show(p.compute_result, 120)))
        ro = p.field(p.renderer, "options") if p.renderer is not None else None
        ok = isinstance(ro, DictV) and key(ro.items.get("layerGap")) == "G" and key(ro.items.get("direction")) == repr(d)
        R.check(ok, "C07.PIPELINE", "%s|renderer options" % d, where(f), "Renderer(nodeHeight, layerGap, direction) from the timeline's options", "the renderer gets options %s" % (show(ro) if ro is not None else None))
        # nodes: idealPos = timePos(datum), data = item
        for n in p.nodes:
            k = p.item_index(n)
            ip = p.field(n, "idealPos")
            R.check(k is not None and key(ip) == "TPOS(DATUM%s)" % k, "C07.SCALE-FLOW", "%s|node %s idealPos" % (d, k), where(P.func(TL + ".get_nodes")), "node.idealPos = timePos(item.data)", "node of datum %s has idealPos %s, expected timePos of its own datum" % (k, show(ip)))


@rule("C07.SCALE-FLOW")
def scale_flow(ctx, R):
    P = ctx.P
    f = P.func(TL + ".timePos")
    R.saw(f)
    ev = new_eval(P)
    st = ev.new_state(f)
    s = Opaque("self", cls=P.cls(SVG), kind="obj")
    opts = DictV({"scale": Opaque("SCALE", kind="obj"), "timeFn": Opaque("TIMEFN", kind="obj")}, ident="P:o")
    st.heap[("self", "options")] = opts
    r = ev.call_closure(Closure(f, None, selfv=s), [Opaque("D")], {}, st)
    R.check(key(r) == "SCALE(TIMEFN(D))", "C07.SCALE-FLOW", f.qual, where(f), "timePos(d) = scale(timeFn(d))", "timePos(d) is %s, expected scale(timeFn(d))" % show(r))
    g = P.func(TL + ".getInnerDims")
    R.saw(g)
    st = ev.new_state(g)
    o2 = DictV({"initialWidth": Num.atom("IW"), "initialHeight": Num.atom("IH"), "margin": DictV({k: Num.atom("m_" + k) for k in ("left", "right", "top", "bottom")})})
    st.heap[("self", "options")] = o2
    r = ev.call_closure(Closure(g, None, selfv=s), [], {}, st)
    ok = isinstance(r, Seq) and len(r.items) == 2 and as_num(r.items[0]).equals(A("IW") - A("m_left") - A("m_right")) and as_num(r.items[1]).equals(A("IH") - A("m_top") - A("m_bottom"))
    R.check(ok, "C07.INNERDIMS", g.qual, where(g), "inner size = initial size minus the margins", "getInnerDims returns %s" % show(r))
    # timeFn default reads d['time'] (the normalised value)
    d = ev.resolve_global("timeline", "DEFAULT_OPTIONS")
    tf = d.items.get("timeFn") if isinstance(d, DictV) else None
    st = ev.new_state(module="timeline")
    rv = ev.call(tf, [DictV({"time": Opaque("T")}, ident="P:d")], {}, st) if tf is not None else None
    R.check(rv is not None and key(rv) == "T", "C07.SCALE-FLOW", "default timeFn", P.module("timeline").path, "default timeFn(d) = d['time']", "default timeFn(d) is %s" % (show(rv) if rv is not None else None))


@rule("C07.AXIS")
def axis(ctx, R):
    """DOMAIN and RANGE-AXIS: init_axis sets the scale's domain and range; the drawn axis has the range's length."""
    P = ctx.P
    f = P.func(TL + ".init_axis")
    R.saw(f, P.func("scale.d3_extent"))
    for d in DIRECTIONS:
        for explicit in (False, True):
            calls = []

            def hook(fv, args, kwargs, node, st_):
                if isinstance(fv, Opaque) and fv.text.startswith("SCALE."):
                    calls.append((fv.text[6:], [key(a) for a in args]))
                    return Opaque("SCALE", kind="obj")
                return None

            ev = new_eval(P, on_call=hook)
            st = ev.new_state(f)
            s = Opaque("self", cls=P.cls(SVG), kind="obj")
            opts = DictV({"scale": Opaque("SCALE", kind="obj"), "timeFn": Opaque("TIMEFN", kind="obj"), "domain": Opaque("DOMAIN", kind="seq") if explicit else NONE, "direction": Const(d),
                          "initialWidth": Num.atom("IW"), "initialHeight": Num.atom("IH"), "margin": DictV({k: Num.atom("m_" + k) for k in ("left", "right", "top", "bottom")})}, ident="P:o")
            st.heap[("self", "options")] = opts
            st.heap[("self", "direction")] = Const(d)
            ev.nonempty.add("DOMAIN")
            ev.call_closure(Closure(f, None, selfv=s), [Opaque("DATA", kind="seq")], {}, st)
            doms = [c for c in calls if c[0] == "domain"]
            rngs = [c for c in calls if c[0] == "range"]
            tag = "%s %s domain" % (d, "explicit" if explicit else "derived")
            if explicit:
                okd = len(doms) == 1 and doms[0][1] == ["DOMAIN"]
                wantd = "the explicit option"
            else:
                ext = "[min-of([TIMEFN(elem(DATA)) for elem(DATA) in DATA]), max-of([TIMEFN(elem(DATA)) for elem(DATA) in DATA])]"
                okd = len(doms) == 1 and doms[0][1] == [ext]
                wantd = "[min, max] of timeFn over all data"
            R.check(okd, "C07.DOMAIN", tag, where(f), "scale.domain(%s)" % wantd, "init_axis sets the scale's domain with %s, expected %s" % (doms, wantd))
            L = "IH - m_bottom - m_top" if d in ("left", "right") else "IW - m_left - m_right"
            okr = len(rngs) == 1 and rngs[0][1] == ["[0, %s]" % L]
            R.check(okr, "C07.RANGE-AXIS", tag + "|range", where(f), "scale.range([0, %s])" % L, "init_axis sets the scale's range with %s, expected [0, %s] (the inner %s)" % (rngs, L, "height" if d in ("left", "right") else "width"))
            # order: domain before nice; nothing shrinks the domain afterwards
            names = [c[0] for c in calls]
            if explicit:
                R.check("nice" not in names, "C07.DOMAIN", tag + "|explicit domain kept", where(f), "an explicit domain is used as given", "with an explicit domain init_axis also calls scale.nice(): the given domain is widened, so it no longer maps onto the full axis")
            R.check(set(names) <= {"domain", "nice", "range"} and (names.index("domain") < names.index("nice") if "nice" in names else True), "C07.DOMAIN", tag + "|sequence", where(f), "scale calls: %s" % names, "init_axis calls %s on the scale" % names, nontrivial=False)
        # the drawn axis has the same length, both back-ends (C09.AXIS compares them with each other)
        ps = emit.pipe(ctx, SVG, d, n=2)
        g, out, r = ps.run_svg("add_timeline")
        lines = [e for e in out if e["tag"] == "line"]
        L = "IH - m_bottom - m_top" if d in ("left", "right") else "IW - m_left - m_right"
        attr = "y2" if d in ("left", "right") else "x2"
        ok = len(lines) == 1 and attr in lines[0]["attrib"] and _fill(*flat(lines[0]["attrib"][attr])) == L and not ({"x2", "y2", "x1", "y1"} - {attr}) & set(lines[0]["attrib"])
        R.check(ok, "C07.RANGE-AXIS", "%s|drawn axis" % d, where(g), "the axis line runs from 0 to %s along the %s axis only" % (L, attr[0]), "the drawn axis is %s: it must run from the origin to %s=%s, the end of the scale's range" % ({k: _fill(*flat(v)) for k, v in lines[0]["attrib"].items() if k in ("x1", "y1", "x2", "y2")} if lines else None, attr, L))
    g = P.func("scale.d3_extent")
    R.check(True, "C07.DOMAIN", "d3_extent examined through init_axis", where(g), "", "", nontrivial=False)


@rule("C07.DOTS")
def dots(ctx, R):
    """ON-AXIS and SCALE-FLOW for dots: only the along-axis coordinate, = the root's data position."""
    P = ctx.P
    for d in DIRECTIONS:
        for chain in (False, True):
            ps = emit.pipe(ctx, SVG, d, n=2, chain=chain)
            f, out, r = ps.run_svg("add_dots")
            R.saw(f)
            cs = [e for e in out if e["tag"] == "circle"]
            attr = "cy" if d in ("left", "right") else "cx"
            other = "cx" if attr == "cy" else "cy"
            for i, e in enumerate(cs):
                n = ps.nodes[i] if i < len(ps.nodes) else None
                k = ps.item_index(n) if n is not None else None
                a = e["attrib"]
                want = ("STUB(%s).idealPos" % n.text) if chain else "TPOS(DATUM%s)" % k
                got = _fill(*flat(a[attr])) if attr in a else None
                R.check(got == want and other not in a, "C07.ON-AXIS", "%s chain=%s|dot %d" % (d, chain, i), where(f), "dot at %s=%s on the axis line" % (attr, want), "dot %d has %s=%s%s: it must sit on the axis at its root's data position %s" % (i, attr, got, " and an off-axis coordinate" if other in a else "", want))
    # the root of a stub chain carries the label's own data position (C04.STUBATTRS): createStub copies idealPos
    f = P.func("node.Node.getRoot")
    ev = new_eval(P)
    st = ev.new_state(f)
    n = Opaque("n", cls=P.cls("node.Node"), kind="obj")
    st.heap[("n", "parent")] = NONE
    ev.assume("truth(n)", True)
    r = ev.call_closure(Closure(f, None, selfv=n), [], {}, st)
    R.check(True, "C07.ON-AXIS", "getRoot examined (loop): root reached by following parent links", where(f), "", "", nontrivial=False)


@rule("C07.LINK")
def link(ctx, R):
    P = ctx.P
    # (1) way-points per level, for an arbitrary level of an arbitrary chain
    f = P.func("renderer.Renderer.getWayPoints")
    R.saw(f, P.func("renderer.Renderer.generatePath"))
    for d in DIRECTIONS:
        def hook(fv, args, kwargs, node, st_):
            if isinstance(fv, Closure) and fv.func.qual == "node.Node.getPathFromRoot":
                return Opaque("HOPS", cls=fv.func.cls, kind="seq")
            return None

        ev = new_eval(P, on_call=hook)
        ev.nonempty.add("HOPS")
        st = ev.new_state(f)
        s = Opaque("self", cls=P.cls("renderer.Renderer"), kind="obj")
        st.heap[("self", "options")] = DictV({"direction": Const(d), "nodeHeight": Num.atom("H"), "layerGap": Num.atom("G")}, ident="P:ro")
        n = Opaque("n", cls=P.cls("node.Node"), kind="obj")
        r = ev.call_closure(Closure(f, None, selfv=s), [n], {}, st)
        axis_, sign = SIGMA[d]
        # start point = the dot
        first = None
        per = None
        if isinstance(r, Opaque) or True:
            # the list was extended in a loop: look at the events
            loops_ = [e for e in st.events if e[0] == "loop"]
            if loops_:
                body = loops_[0][3]
                apps = [b for b in body if b[0] in ("seq-append",)]
                if apps:
                    per = apps[0][2] if apps[0][0] == "seq-append" else None
        # initial list value before the loop: search setattr-free: evaluate `out` initial via AST
        init = None
        for nd in ast.walk(f.node):
            if isinstance(nd, ast.Assign) and isinstance(nd.value, ast.List) and len(nd.value.elts) == 1 and isinstance(nd.value.elts[0], ast.List):
                pass
        # simpler: concrete chains below check the start point; here the per-level formula
        lev = Num.atom("idx(HOPS)")
        hop = "elem(HOPS).currentPos"
        G, H = A("G"), A("H")
        ok = False
        detail = "no per-level way-points appended in a loop over the chain"
        if per is not None:
            v = per[0] if isinstance(per, list) else per
            if isinstance(v, Seq) and len(v.items) == 2 and all(isinstance(x, Seq) and len(x.items) == 2 for x in v.items):
                (a0, a1), (b0, b1) = [x.items for x in v.items]
                far = C(sign) * (lev + C(1)) * (G + H)
                near = far - C(sign) * H
                if axis_ == "x":
                    ok = as_num(a0).equals(near) and key(a1) == hop and as_num(b0).equals(far) and key(b1) == hop
                else:
                    ok = as_num(a1).equals(near) and key(a0) == hop and as_num(b1).equals(far) and key(b0) == hop
                detail = "level l: [%s, %s] -> [%s, %s]" % (key(a0), key(a1), key(b0), key(b1))
        R.check(ok, "C07.LINK", "%s|way-points of level l" % d, where(f), "level l: (%s((l+1)(G+H) - H), hop.currentPos) then (%s(l+1)(G+H), hop.currentPos)" % ("+" if sign > 0 else "-", "+" if sign > 0 else "-"),
                "for direction %s the way-points of stub level l are %s: expected the near edge %s((l+1)(G+H) - H) and the far edge %s(l+1)(G+H) of layer l at the hop's position" % (d, detail, "+" if sign > 0 else "-", "+" if sign > 0 else "-"))
    # (2) concrete chains: label in layer 0; label in layer 1 behind its stub
    chains = (0, 1, 2) if getattr(ctx, "params", None) and ctx.params.get("big_instances") else (0, 1)
    for d in DIRECTIONS:
        axis_, sign = SIGMA[d]
        for chain in chains:
            ps = emit.pipe(ctx, SVG, d, n=2, chain=chain)
            Hn = as_num(H_atom(ps))
            G = A("G")
            for i, n in enumerate(ps.nodes):
                fsvg, t, h = svg_path_points(ps, i)
                tag = "%s chain=%s node %d" % (d, chain, i)
                if t is None:
                    R.bad("C07.LINK", tag, where(fsvg), "no link path for node %d" % i)
                    continue
                toks = t.split(" ")
                cmds = []
                j = 0
                while j < len(toks):
                    n_ = {"M": 2, "L": 2, "C": 6}.get(toks[j])
                    if n_ is None:
                        break
                    try:
                        cmds.append((toks[j], [h[int(x[1:-1])][0] if re.match(r"^<\d+>$", x) else C(float(x)) for x in toks[j + 1: j + 1 + n_]]))
                    except (ValueError, IndexError):
                        cmds.append(("malformed:" + " ".join(toks[j: j + 1 + n_])[:30], []))
                        break
                    j += 1 + n_
                shape = [c[0] for c in cmds]
                want_shape = ["M", "C"] + ["L", "C"] * int(chain)
                R.check(shape == want_shape, "C07.LINK", tag + "|segments", where(fsvg), "path %s" % "".join(want_shape), "the link has segments %s, expected %s (curve to each level, straight through every stub)" % (shape, want_shape))
                if shape != want_shape:
                    continue
                k = ps.item_index(n)
                root_ideal = ("STUB(%s).idealPos" % n.text) if chain else "TPOS(DATUM%s)" % k

                def pt(vals, a):
                    x, y = vals[a], vals[a + 1]
                    return (x, y) if axis_ == "x" else (y, x)  # (across, along)

                ac, al = pt(cmds[0][1], 0)
                R.check(num_const(ac) == 0 and key(al) == root_ideal, "C07.LINK", tag + "|starts at the dot", where(fsvg), "starts at the dot (0, root.idealPos)", "the link starts at (%s, %s) across/along, the dot is at (0, %s)" % (key(ac), key(al), root_ideal))
                # end of the path = middle of the axis-facing edge of the label's box
                f_, box = box_of(ps, i, SVG)
                ox, oy, w, hh = (as_num(box[z][0]) for z in ("ox", "oy", "w", "h"))
                o_al, s_al = (oy, hh) if axis_ == "x" else (ox, w)
                o_ac, s_ac = (ox, w) if axis_ == "x" else (oy, hh)
                edge = o_ac if sign > 0 else o_ac + s_ac
                mid = o_al + s_al / C(2)
                eac, eal = pt(cmds[-1][1], 4)
                # up: the box is flush with the far edge of its band; its axis-facing edge is H - t further out
                t_ = s_ac
                slack = (Hn - t_) if d == "up" else C(0)
                ok_end = as_num(eal).equals(mid) and (as_num(eac) - edge).equals(slack)
                R.check(ok_end, "C07.LINK", tag + "|ends at the box", where(fsvg), "ends at the middle of the axis-facing edge of its own box%s" % (" (modulo H - t for `up`, discharged by C07.THICK)" if d == "up" else ""),
                        "the link ends at (%s, %s) across/along but the axis-facing edge of the label's box is at %s with centre %s: the link does not end at the middle of that edge" % (key(eac), key(eal), edge.key(), mid.key()))
                for lev in range(int(chain)):
                    stub = ("STUB(%s).currentPos" % n.text) if lev == 0 else ("STUB%d(%s).currentPos" % (lev, n.text))
                    c1ac, c1al = pt(cmds[1 + 2 * lev][1], 4)
                    lac, lal = pt(cmds[2 + 2 * lev][1], 0)
                    near0 = C(sign) * C(lev + 1) * (G + Hn) - C(sign) * Hn
                    far0 = C(sign) * C(lev + 1) * (G + Hn)
                    ok_stub = as_num(c1ac).equals(near0) and key(c1al) == stub and as_num(lac).equals(far0) and key(lal) == stub
                    R.check(ok_stub, "C07.LINK", tag + "|through the stub of layer %d" % lev, where(fsvg), "curve to the stub's near edge, straight line through the stub at its position", "the link passes (%s, %s) then (%s, %s); the stub of layer %d spans %s..%s across at position %s" % (key(c1ac), key(c1al), key(lac), key(lal), lev, near0.key(), far0.key(), stub))
    # getPathFromRoot = reversed chain of parents (root first)
    g = P.func("node.Node.getPathFromRoot")
    ok = any(isinstance(c.func, ast.Name) and c.func.id == "reversed" for c in calls_in(g.node)) and any(isinstance(c.func, ast.Attribute) and c.func.attr == "getPathToRoot" for c in calls_in(g.node))
    R.check(ok, "C07.LINK", g.qual, where(g), "path from the root = reversed path to the root", "getPathFromRoot is not the reversed parent chain")
    h_ = P.func("node.Node.getPathToRoot")
    from ..normalise import fuse_generators

    hbody = fuse_generators(P, h_) or h_.node.body  # list(self._walkUp()) is the loop of the generator
    ws = [n for n in hbody if isinstance(n, ast.While)]
    ok = len(ws) == 1 and any(isinstance(s_, ast.Assign) and ntext(s_.value).endswith(".parent") for s_ in ws[0].body) and any(isinstance(s_, ast.Expr) and isinstance(s_.value, ast.Call) and ntext(s_.value.func).endswith(".append") for s_ in ws[0].body)
    R.check(ok, "C07.LINK", h_.qual, where(h_), "follows parent links collecting every hop", "getPathToRoot does not collect every node along the parent chain")


@rule("C07.BOXSIZE")
def boxsize(ctx, R):
    P = ctx.P
    for backend in (SVG, TEX):
        for d in DIRECTIONS:
            p = emit.pipe(ctx, backend, d, n=2)
            for i, n in enumerate(p.nodes):
                f, box = box_of(p, i, backend)
                if box is None:
                    R.bad("C07.BOXSIZE", "%s %s|node %d" % (backend, d, i), where(f), "label box not found")
                    continue
                k = p.item_index(n)
                w, h = as_num(box["w"][0]), as_num(box["h"][0])
                a = A("iw%s" % k) + A("pad_left") + A("pad_right")
                b = A("ih%s" % k) + A("pad_top") + A("pad_bottom")
                a2 = A("iw%s" % k) + A("pad_top") + A("pad_bottom")
                b2 = A("ih%s" % k) + A("pad_left") + A("pad_right")
                ok = (w.equals(a) and h.equals(b)) or (w.equals(b) and h.equals(a)) or (w.equals(a2) and h.equals(b2)) or (w.equals(b2) and h.equals(a2))
                R.check(ok, "C07.BOXSIZE", "%s %s|node %d" % ("svg" if backend == SVG else "tex", d, i), where(f), "drawn size = item size plus one padding pair per side", "the box of datum %s is drawn %s x %s: expected {item width + one padding pair, item height + the other pair}" % (k, w.key(), h.key()))
    # orientation: texts are drawn horizontally in every direction, so the box of a datum with text is as wide as the
    # datum (plus a padding pair) and as tall as the common item height (plus the other pair) - decided on pipelines that
    # start where Timeline.__init__ has parsed the items (levelling and rotation included, whatever their order)
    for backend in (SVG, TEX):
        for d in DIRECTIONS:
            p = emit.pipe(ctx, backend, d, n=2, init=True)
            for i, n in enumerate(p.nodes):
                f, box = box_of(p, i, backend)
                if box is None:
                    R.bad("C07.BOXSIZE", "%s %s|node %d (from construction)" % (backend, d, i), where(f), "label box not found")
                    continue
                k = p.item_index(n)
                w, h = as_num(box["w"][0]), as_num(box["h"][0])
                pairs = (A("pad_left") + A("pad_right"), A("pad_top") + A("pad_bottom"))
                okw = w is not None and any(w.equals(A("iw%s" % k) + pr) for pr in pairs)
                okh = h is not None and any(h.equals(A("IH") + pr) for pr in pairs)
                R.check(okw and okh, "C07.BOXSIZE", "%s %s|node %d from construction" % ("svg" if backend == SVG else "tex", d, i), where(P.func("timeline.Timeline.__init__")), "box of a labelled datum: its own width across, the item height down (plus padding)",
                        "constructed and exported in direction %s, the box of datum %s is drawn %s wide and %s tall: expected its own width iw%s (plus a padding pair) across and the common item height IH (plus the other pair) down - the box does not have its datum's size" % (d, k, w.key() if w is not None else None, h.key() if h is not None else None, k))
    # THICK: Item.height is one constant whenever a width is supplied
    f = P.func("timeline.Item.__init__")
    R.saw(f)
    ev = new_eval(P, inline_filter=lambda fn: fn is f)
    for wv in (Num.atom("WIDTH"),):
        st = ev.new_state(f)
        it = Opaque("it", cls=P.cls("timeline.Item"), kind="obj")
        ev.assume("cmp(is, WIDTH, None)", False)
        ev.call_closure(Closure(f, None, selfv=it), [Opaque("T"), wv, Opaque("TXT", kind="str")], {}, st)
        for attr, want_k in (("text", "TXT"), ("width", "WIDTH"), ("time", "T")):
            av = st.heap.get(("it", attr))
            R.check(av is not None and key(av) == want_k, "C07.TEXT" if attr == "text" else "C07.BOXSIZE", f.qual + "|stores %s as given" % attr, where(f), "Item keeps the %s it is given" % attr, "Item.__init__ stores %s as its %s instead of the value it was given: the label no longer shows the datum's own %s" % (show(av) if av is not None else "nothing", attr, attr))
        hv = st.heap.get(("it", "height"))
        R.check(hv is not None and num_const(hv) is not None and num_const(hv) > 0, "C07.THICK", f.qual, where(f), "with an explicit width every item has the same constant height (%s)" % (num_const(hv) if hv is not None else None), "with an explicit width Item.height is %s: boxes of one layer would differ in thickness, so links no longer end on the box edge for `up`" % (show(hv) if hv is not None else None))



def _lz(mod, fn, rid):
    def run(ctx, R):
        import importlib
        return getattr(importlib.import_module("sa.rules." + mod), fn)(ctx, R)

    run.rule_id = rid
    run.__name__ = fn
    return run

# the link ends on the box only if the box is where the layer geometry puts it (C08.GEOMETRY); the caller's options must reach the drawing
def _datumkeys(ctx, R):
    # the default accessors read the caller's datum: a text that is there is used, a missing one is no error
    from .crash import datumkeys
    return datumkeys(ctx, R)


_datumkeys.rule_id = "C11.DATUMKEYS"

RULES = [normalise, one_each, init_order, export_calls, pipeline, scale_flow, axis, dots, link, boxsize, c09_ticks, c09_labels, _lz("c08", "geometry", "C08.GEOMETRY"), _lz("c08", "positive_size", "C08.POSITIVE-SIZE"), _lz("c11", "timeline_opts", "GEN.OPTS-MERGE"), _lz("c09", "link", "C09.LINK"), _datumkeys]
