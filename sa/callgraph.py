"""Resolved call graph on top of TypeFlow."""
import ast

from .core import walk_local, ntext


class CallGraph:
    def __init__(self, P, types):
        self.P = P
        self.T = types
        self.out = {f.qual: set() for f in P.funcs.values()}
        self.out["<module>"] = set()
        self.sites = {}  # caller qual -> list of (call node, [callee quals])
        self.classify = {"labella": 0, "unresolved-attr": 0, "external-or-builtin": 0}
        for call, f, mod in types.call_nodes:
            caller = f.qual if f is not None else "<module>:" + mod.name
            res = types.resolve(call)
            self.out.setdefault(caller, set())
            self.sites.setdefault(caller, []).append((call, [g.qual for g, _ in res]))
            for g, _ in res:
                self.out[caller].add(g.qual)
            if res:
                self.classify["labella"] += 1
            else:
                self.classify["external-or-builtin"] += 1
        # precise graph: calls of one-line forwarding methods (`return self.<field>(...)`) on receivers whose
        # allocation sites are known are bypassed to the field's values for those sites (object-sensitive
        # dispatch for the interval registry); used for cycle detection only.
        self.precise = {k: set(v) for k, v in self.out.items()}
        fwd = {}
        for f in P.funcs.values():
            a = self._forwarder(f)
            if a:
                fwd[f.qual] = a
        for call, f, mod in types.call_nodes:
            caller = f.qual if f is not None else "<module>:" + mod.name
            res = types.resolve(call)
            fw = [g for g, _ in res if g.qual in fwd]
            if not fw:
                continue
            recv_expr = None
            for g in fw:
                if isinstance(call.func, ast.Attribute) and P.method(g.cls, call.func.attr) is g:
                    recv_expr = call.func.value  # x.method(...)
                else:
                    recv_expr = call.func  # x(...): the instance is called, through __call__ or an alias of it
                if recv_expr is None:
                    continue
                insts = [v for v in types.ev(recv_expr, f, mod) if v[0] == "C"]
                if not insts or any(v[2] == "*" for v in insts):
                    continue
                tg = set()
                for v in insts:
                    c = P.classes[v[1]]
                    if P.method(c, g.name) is not g:
                        continue
                    for w in types.read_field([v], fwd[g.qual]):
                        if w[0] in ("F", "BM"):
                            tg.add(w[1])
                # replace the edge caller -> g by caller -> targets (other call sites may still add it)
                others = any(g.qual in qs for c2, qs in self.sites[caller] if c2 is not call)
                if not others:
                    self.precise[caller].discard(g.qual)
                self.precise[caller] |= tg
        self.inn = {}
        for a, bs in self.out.items():
            for b in bs:
                self.inn.setdefault(b, set()).add(a)

    def reachable(self, roots, stop=()):
        seen = set()
        stack = list(roots)
        while stack:
            q = stack.pop()
            if q in seen or q in stop:
                continue
            seen.add(q)
            stack.extend(self.out.get(q, ()))
        return seen

    def _forwarder(self, f):
        if f.is_lambda or f.cls is None or not f.params:
            return None
        body = [s for s in f.node.body if not (isinstance(s, ast.Expr) and isinstance(s.value, ast.Constant))]
        if len(body) != 1 or not isinstance(body[0], ast.Return):
            return None
        v = body[0].value
        if isinstance(v, ast.Call) and isinstance(v.func, ast.Attribute) and isinstance(v.func.value, ast.Name) and v.func.value.id == f.params[0]:
            if self.P.method(f.cls, v.func.attr) is None:
                return v.func.attr
        return None

    def sccs(self, within=None, precise=True):
        """Tarjan; returns list of components (lists of quals), only those that are recursive."""
        graph = self.precise if precise else self.out
        return self._sccs(graph, within)

    def _sccs(self, graph, within=None):
        self_out = graph
        nodes = list(within) if within is not None else list(graph)
        nset = set(nodes)
        index = {}
        low = {}
        onstack = set()
        stack = []
        res = []
        counter = [0]
        import sys

        sys.setrecursionlimit(max(10000, sys.getrecursionlimit()))

        def strong(v):
            index[v] = low[v] = counter[0]
            counter[0] += 1
            stack.append(v)
            onstack.add(v)
            for w in self_out.get(v, ()):
                if w not in nset:
                    continue
                if w not in index:
                    strong(w)
                    low[v] = min(low[v], low[w])
                elif w in onstack:
                    low[v] = min(low[v], index[w])
            if low[v] == index[v]:
                comp = []
                while True:
                    w = stack.pop()
                    onstack.discard(w)
                    comp.append(w)
                    if w == v:
                        break
                if len(comp) > 1 or v in self_out.get(v, ()):
                    res.append(sorted(comp))

        for v in nodes:
            if v not in index:
                strong(v)
        return res

    def resolver(self):
        T = self.T

        def resolve(call, f):
            return T.resolve(call)

        return resolve
