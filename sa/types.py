"""Inclusion-based (0-CFA) flow of class instances, classes, modules and function
values through locals, parameters, returns, fields and (collapsed) containers.

Containers are transparent: a list of Constraints "is" Constraint.  The class
universe is the package's own classes; method resolution filters receiver
classes by the existence of the method, which absorbs most of the imprecision
of collapsing.
"""
import ast

from .core import walk_local, FUNC_NODES, ntext
from .cfg import local_names

CONTAINER_PASS = {"list", "tuple", "set", "sorted", "reversed", "iter", "next", "enumerate", "zip", "deepcopy", "copy", "frozenset", "dict", "filter"}
CONTAINER_METHODS_RET = {"pop", "get", "copy", "values", "items", "keys", "setdefault", "popitem", "__getitem__"}
CONTAINER_METHODS_ADD = {"append", "extend", "insert", "add", "update", "setdefault", "push", "appendleft"}

MODULE_FN = "<module>"


class TypeFlow:
    def __init__(self, P):
        self.P = P
        self.val = {}  # node -> set(values)
        self.locals = {}  # func qual -> set(local names)
        self.calls = {}  # id(call node) -> set of (Func, bound)
        self.call_nodes = []  # (call node, Func-or-None, module)
        self.untyped_fallback = set()
        self.applied_returns = {}  # helper qual -> parameters whose application it returns (`return p(...)`)
        self.partial_shift = {}  # callee qual -> numbers of positional arguments fixed by functools.partial somewhere
        self.unresolved = []
        self.fld_index = {}
        self.gkeys = {}
        self.use_fallback = False
        for f in P.funcs.values():
            if f.is_lambda:
                self.locals[f.qual] = set(f.params)
            else:
                loc, _ = local_names(f.node, f.params + f.kwonly + ([f.vararg] if f.vararg else []) + ([f.kwarg] if f.kwarg else []))
                # comprehension targets
                for n in walk_local(f.node):
                    if isinstance(n, ast.comprehension):
                        for t in ast.walk(n.target):
                            if isinstance(t, ast.Name):
                                loc.add(t.id)
                self.locals[f.qual] = loc
        self._methods_by_name = {}
        for c in P.classes.values():
            for name, m in c.methods.items():
                self._methods_by_name.setdefault(name, []).append(m)
        self._solve()

    # -- nodes -----------------------------------------------------------------
    def _get(self, node):
        return self.val.setdefault(node, set())

    def _add(self, node, vals):
        s = self._get(node)
        n0 = len(s)
        s |= vals
        if len(s) != n0:
            self.changed = True

    def var_node(self, f, mod, name):
        g = f
        while g is not None:
            if name in self.locals[g.qual]:
                return ("v", g.qual, name)
            g = g.parent
        return ("g", mod.name, name)

    def site(self, call, mod):
        return "%s:%s:%s" % (mod.name, call.lineno, call.col_offset)

    def global_home(self, modname, name):
        """Follow `from labella.x import name` to the defining module."""
        seen = set()
        while (modname, name) not in seen:
            seen.add((modname, name))
            m = self.P.modules.get(modname)
            if m is None or name not in m.imports:
                break
            imp = m.imports[name]
            if imp[0] == "symbol" and imp[1].startswith("labella."):
                modname, name = imp[1].split(".", 1)[1], imp[2]
            else:
                break
        return modname, name

    def read_field(self, basevals, attr):
        out = set()
        insts = [v for v in basevals if v[0] == "C"]
        if insts and not any(v[2] == "*" for v in insts):
            for v in insts:
                out |= self._get(("fld", v[2], attr))
            out |= self._get(("fld", "*", attr))
        else:
            for node in self.fld_index.get(attr, ()):
                out |= self._get(node)
        return out

    def write_field(self, basevals, attr, vals):
        insts = [v for v in basevals if v[0] == "C"]
        if insts:
            for v in insts:
                node = ("fld", v[2], attr)
                self.fld_index.setdefault(attr, set()).add(node)
                self._add(node, vals)
        else:
            node = ("fld", "*", attr)
            self.fld_index.setdefault(attr, set()).add(node)
            self._add(node, vals)

    # -- values of expressions ----------------------------------------------------
    def global_vals(self, modname, name, seen=None):
        P = self.P
        m = P.modules.get(modname)
        if m is None:
            return set()
        q = "%s.%s" % (modname, name)
        out = set(self._get(("g", modname, name)))
        for kk in self.gkeys.get((modname, name), ()):
            out |= self._get(("gk", modname, name, kk))
        if q in P.funcs and P.funcs[q].parent is None and P.funcs[q].cls is None and not P.funcs[q].is_lambda:
            out.add(("F", q))
        if q in P.classes:
            out.add(("K", q))
        if name in m.imports:
            imp = m.imports[name]
            if imp[0] == "module":
                if imp[1].startswith("labella."):
                    out.add(("M", imp[1].split(".", 1)[1]))
            else:
                mn, sym = imp[1], imp[2]
                if mn == "labella" and sym in P.modules:
                    out.add(("M", sym))
                elif mn.startswith("labella."):
                    seen = seen or set()
                    if (mn, sym) not in seen:
                        seen.add((mn, sym))
                        out |= self.global_vals(mn.split(".", 1)[1], sym, seen)
        return out

    def ev(self, e, f, mod):
        """Set of abstract values of expression e evaluated in function f (or module level)."""
        P = self.P
        if e is None:
            return set()
        if isinstance(e, ast.Name):
            node = self.var_node(f, mod, e.id)
            if node[0] == "g":
                return self.global_vals(mod.name, e.id)
            return set(self._get(node))
        if isinstance(e, ast.Attribute):
            base = self.ev(e.value, f, mod)
            out = set()
            typed = False
            for v in base:
                if v[0] == "M":
                    out |= self.global_vals(v[1], e.attr)
                    typed = True
                elif v[0] == "K":
                    c = P.classes[v[1]]
                    m = P.method(c, e.attr)
                    if m is not None:
                        out.add(("BM", m.qual, v) if m.is_classmethod else ("F", m.qual))
                    typed = True
                elif v[0] == "C":
                    c = P.classes[v[1]]
                    m = P.method(c, e.attr)
                    if m is not None and getattr(m, "is_property", False):
                        # reading a property runs its getter on the receiver: the value read is what the getter returns
                        if m.params:
                            self._add(("v", m.qual, m.params[0]), {v})
                        out |= self._get(("ret", m.qual))
                    elif m is not None:
                        # a staticmethod reached through an instance is a plain function (no receiver is bound)
                        out.add(("F", m.qual) if m.is_staticmethod else ("BM", m.qual, v))
                    typed = True
            out |= self.read_field(base, e.attr)
            if isinstance(e.value, ast.Call) and isinstance(e.value.func, ast.Name) and e.value.func.id == "super":
                c = f.cls if f is not None else None
                g = f
                while g is not None and g.cls is None:
                    g = g.parent
                if g is not None and g.cls is not None:
                    for k in P.mro(g.cls)[1:]:
                        if e.attr in k.methods:
                            for sv in self._get(("v", g.qual, g.params[0])) if g.params else ():
                                out.add(("BM", k.methods[e.attr].qual, sv))
                            break
            return out
        if isinstance(e, ast.Call):
            return self.ev_call(e, f, mod)
        if isinstance(e, ast.Subscript):
            b, k = e.value, e.slice
            if isinstance(b, ast.Name) and self.var_node(f, mod, b.id)[0] == "g":
                gm, gn = self.global_home(mod.name, b.id)
                if (gm, gn) in self.gkeys:
                    out = set(self._get(("g", gm, gn)))
                    if isinstance(k, ast.Constant) and isinstance(k.value, str):
                        out |= self._get(("gk", gm, gn, k.value))
                    else:
                        for kk in self.gkeys[(gm, gn)]:
                            out |= self._get(("gk", gm, gn, kk))
                    return out
            return self.ev(e.value, f, mod)
        if isinstance(e, (ast.List, ast.Tuple, ast.Set)):
            out = set()
            for x in e.elts:
                out |= self.ev(x, f, mod)
            return out
        if isinstance(e, ast.Dict):
            out = set()
            for x in e.values:
                out |= self.ev(x, f, mod)
            return out
        if isinstance(e, ast.Starred):
            return self.ev(e.value, f, mod)
        if isinstance(e, ast.IfExp):
            return self.ev(e.body, f, mod) | self.ev(e.orelse, f, mod)
        if isinstance(e, ast.BoolOp):
            out = set()
            for x in e.values:
                out |= self.ev(x, f, mod)
            return out
        if isinstance(e, ast.BinOp):
            return self.ev(e.left, f, mod) | self.ev(e.right, f, mod)
        if isinstance(e, ast.NamedExpr):
            return self.ev(e.value, f, mod)
        if isinstance(e, ast.Lambda):
            g = P.func_of_node.get(e)
            return {("F", g.qual)} if g is not None else set()
        if isinstance(e, (ast.ListComp, ast.SetComp, ast.GeneratorExp)):
            return self.ev(e.elt, f, mod)
        if isinstance(e, ast.DictComp):
            return self.ev(e.value, f, mod)
        if isinstance(e, ast.Await):
            return self.ev(e.value, f, mod)
        return set()

    def _applicator_params(self, f):
        """Parameters of f that are only ever applied (`p(...)`): never stored, returned as a value, passed on or compared."""
        memo = self.__dict__.setdefault("_appl", {})
        if f.qual in memo:
            return memo[f.qual]
        out = set()
        if not f.is_lambda and f.params:
            cand = set(f.params[1:] if f.cls is not None and not f.is_staticmethod else f.params)
            uses = {}
            for n in walk_local(f.node):
                if isinstance(n, ast.Name) and n.id in cand:
                    par = getattr(n, "_parent", None)
                    ok = isinstance(n.ctx, ast.Load) and isinstance(par, ast.Call) and par.func is n
                    uses.setdefault(n.id, []).append(ok)
            # nested functions may capture the parameter: not an applicator then
            nested = {x.id for g in ast.walk(f.node) if isinstance(g, FUNC_NODES) and g is not f.node for x in ast.walk(g) if isinstance(x, ast.Name)}
            out = {p_ for p_, us in uses.items() if us and all(us) and p_ not in nested}
        memo[f.qual] = out
        return out

    def _applicator_ok(self, g):
        """Site-sensitive treatment is used only for small helpers (methods / functions of the package with a body of a few
        statements): everything else keeps the plain context-insensitive flow."""
        return not g.is_lambda and len(list(walk_local(g.node))) <= 60

    def _strconsts(self):
        sc = getattr(self, "_sc", None)
        if sc is None:
            sc = set()
            for m in self.P.modules.values():
                for n in ast.walk(m.tree):
                    if isinstance(n, ast.Constant) and isinstance(n.value, str):
                        sc.add(n.value)
            self._sc = sc
        return sc

    def callee_vals(self, c, f, mod):
        return self.ev(c.func, f, mod)

    def _is_partial(self, c, mod):
        fn = c.func
        if not c.args:
            return False
        if isinstance(fn, ast.Name) and fn.id == "partial":
            imp = mod.imports.get("partial")
            return bool(imp) and imp[0] != "module" and imp[1] == "functools"
        if isinstance(fn, ast.Attribute) and fn.attr == "partial" and isinstance(fn.value, ast.Name):
            imp = mod.imports.get(fn.value.id)
            return bool(imp) and imp[0] == "module" and imp[1] == "functools"
        return False

    def ev_call(self, c, f, mod):
        P = self.P
        out = set()
        fn = c.func
        cvals = self.callee_vals(c, f, mod)
        for v in cvals:
            if v[0] == "K":
                out.add(("C", v[1], self.site(c, mod)))
            elif v[0] in ("F", "BM"):
                out |= self._get(("ret", v[1]))
                ar = self.applied_returns.get(v[1])
                if ar:
                    # the helper returns what the function passed *here* for its applied parameter returns
                    h = P.funcs[v[1]]
                    ps = list(h.params[1:]) if v[0] == "BM" and h.params else list(h.params)
                    for pn in ar:
                        arg = None
                        if pn in ps and ps.index(pn) < len(c.args):
                            arg = c.args[ps.index(pn)]
                        for kw in c.keywords:
                            if kw.arg == pn:
                                arg = kw.value
                        if arg is None:
                            continue
                        for w in self.ev(arg, f, mod):
                            if w[0] in ("F", "BM"):
                                out |= self._get(("ret", w[1]))
                            elif w[0] == "K":
                                out.add(("C", w[1], self.site(c, mod)))
                            elif w[0] == "C":
                                m_ = P.method(P.classes[w[1]], "__call__")
                                if m_ is not None:
                                    out |= self._get(("ret", m_.qual))
            elif v[0] == "C":
                m = P.method(P.classes[v[1]], "__call__")
                if m is not None:
                    out |= self._get(("ret", m.qual))
        # transparent builtins
        if isinstance(fn, ast.Name) and fn.id in CONTAINER_PASS and self.var_node(f, mod, fn.id)[0] == "g" and not self.global_vals(mod.name, fn.id):
            for a in c.args:
                out |= self.ev(a, f, mod)
        if isinstance(fn, ast.Name) and fn.id == "map" and len(c.args) >= 2:
            for v in self.ev(c.args[0], f, mod):
                if v[0] in ("F", "BM"):
                    out |= self._get(("ret", v[1]))
                elif v[0] == "C":
                    m = P.method(P.classes[v[1]], "__call__")
                    if m is not None:
                        out |= self._get(("ret", m.qual))
                elif v[0] == "K":
                    out.add(("C", v[1], self.site(c, mod)))
        if self._is_partial(c, mod):
            # functools.partial(g, ...) is g with some arguments fixed: calling the result calls g
            out |= self.ev(c.args[0], f, mod)
        if isinstance(fn, ast.Name) and fn.id == "getattr" and len(c.args) >= 2:
            for v in self.ev(c.args[0], f, mod):
                if v[0] == "M":
                    if isinstance(c.args[1], ast.Constant) and isinstance(c.args[1].value, str):
                        out |= self.global_vals(v[1], c.args[1].value)
                    else:
                        for g in P.funcs.values():
                            if g.module.name == v[1] and g.parent is None and g.cls is None and not g.is_lambda:
                                out.add(("F", g.qual))
                elif v[0] in ("C", "K"):
                    # reflection on an object of a known class: a constant name is an attribute read; a computed name can be
                    # any method of the class whose name is spelled as a string constant somewhere in the package
                    cl = P.classes[v[1]]
                    if isinstance(c.args[1], ast.Constant) and isinstance(c.args[1].value, str):
                        names = [c.args[1].value]
                    else:
                        names = [nm for k in P.mro(cl) for nm in k.methods if nm in self._strconsts()]
                    for nm in names:
                        m = P.method(cl, nm)
                        if m is None:
                            continue
                        if v[0] == "K":
                            out.add(("BM", m.qual, v) if m.is_classmethod else ("F", m.qual))
                        else:
                            out.add(("F", m.qual) if m.is_staticmethod else ("BM", m.qual, v))
                    if isinstance(c.args[1], ast.Constant) and isinstance(c.args[1].value, str):
                        out |= self.read_field({v}, c.args[1].value)
        if isinstance(fn, ast.Attribute) and fn.attr in CONTAINER_METHODS_RET:
            out |= self.ev(fn.value, f, mod)
        if isinstance(fn, ast.Attribute) and fn.attr in ("deepcopy", "copy") and isinstance(fn.value, ast.Name):
            for a in c.args:
                out |= self.ev(a, f, mod)
        return out

    # -- constraint generation -------------------------------------------------------
    def assign(self, target, vals, f, mod):
        if isinstance(target, ast.Name):
            self._add(self.var_node(f, mod, target.id) if f is not None else ("g", mod.name, target.id), vals)
        elif isinstance(target, (ast.Tuple, ast.List)):
            for t in target.elts:
                self.assign(t, vals, f, mod)
        elif isinstance(target, ast.Starred):
            self.assign(target.value, vals, f, mod)
        elif isinstance(target, ast.Attribute):
            self.write_field(self.ev(target.value, f, mod), target.attr, vals)
        elif isinstance(target, ast.Subscript):
            b = target.value
            k = target.slice
            if isinstance(b, ast.Name) and isinstance(k, ast.Constant) and isinstance(k.value, str):
                node = self.var_node(f, mod, b.id) if f is not None else ("g", mod.name, b.id)
                if node[0] == "g":
                    gm, gn = self.global_home(mod.name, b.id)
                    self._add(("gk", gm, gn, k.value), vals)
                    self.gkeys.setdefault((gm, gn), set()).add(k.value)
                    return
            while isinstance(b, ast.Subscript):
                b = b.value
            if isinstance(b, ast.Name):
                self.assign(b, vals, f, mod)
            elif isinstance(b, ast.Attribute):
                self.write_field(self.ev(b.value, f, mod), b.attr, vals)

    def _bind_call(self, c, f, mod):
        P = self.P
        targets = set()
        if f is not None and isinstance(c.func, ast.Name) and c.func.id in self._applicator_params(f) and self._applicator_ok(f):
            # `p(...)` inside a helper that only applies its parameter p: the arguments are bound at each call site of the
            # helper to the functions passed there (below), not to everything that ever flows into p
            res0 = set()
            for v in self.callee_vals(c, f, mod):
                if v[0] in ("F", "BM"):
                    res0.add((P.funcs[v[1]], v[0] == "BM"))
                elif v[0] == "K":
                    m_ = P.method(P.classes[v[1]], "__init__")
                    if m_ is not None:
                        res0.add((m_, True))
                elif v[0] == "C":
                    m_ = P.method(P.classes[v[1]], "__call__")
                    if m_ is not None:
                        res0.add((m_, True))
            # recorded like every other call: the call graph keeps the edges from the helper to what it applies
            old_ = self.calls.get(id(c), set())
            if not res0 <= old_:
                self.calls[id(c)] = old_ | res0
                self.changed = True
            return res0
        cvals = self.callee_vals(c, f, mod)
        fn = c.func
        cargs = list(c.args)
        if self._is_partial(c, mod):
            # the arguments fixed here reach the wrapped callable's parameters; later calls of the result supply the rest,
            # shifted by the number of positional arguments fixed here
            cvals = self.ev(c.args[0], f, mod)
            cargs = list(c.args[1:])
            if cargs:
                for v in cvals:
                    if v[0] in ("F", "BM"):
                        self.partial_shift.setdefault(v[1], set()).add(len(cargs))
                    elif v[0] == "K":
                        m = P.method(P.classes[v[1]], "__init__")
                        if m is not None:
                            self.partial_shift.setdefault(m.qual, set()).add(len(cargs))
        if self.use_fallback and not cvals and isinstance(fn, ast.Attribute):
            # unknown receiver: fall back to every class that defines the method, unless the
            # receiver is evidently a builtin container / string / module value
            base = self.ev(fn.value, f, mod)
            if not any(v[0] in ("C", "K", "M") for v in base):
                for m in self._methods_by_name.get(fn.attr, []):
                    if fn.attr.startswith("__"):
                        continue
                    if fn.attr in CONTAINER_METHODS_ADD or fn.attr in CONTAINER_METHODS_RET or fn.attr in BUILTIN_METHOD_NAMES:
                        continue
                    targets.add((m, True, None))
                    self.untyped_fallback.add((id(c), m.qual))
        for v in cvals:
            if v[0] == "F":
                targets.add((P.funcs[v[1]], False, None))
            elif v[0] == "BM":
                targets.add((P.funcs[v[1]], True, v[2]))
            elif v[0] == "K":
                m = P.method(P.classes[v[1]], "__init__")
                if m is not None:
                    targets.add((m, True, ("C", v[1], self.site(c, mod))))
                elif any(getattr(k, "is_record", False) for k in P.mro(P.classes[v[1]])):
                    # generated constructor of a record class: arguments become fields in declaration order
                    flds = []
                    for k in reversed(P.mro(P.classes[v[1]])):
                        flds += [x for x in k.fields if x not in flds]
                    inst = ("C", v[1], self.site(c, mod))
                    for i, a in enumerate(cargs):
                        if i < len(flds) and not isinstance(a, ast.Starred):
                            self.write_field([inst], flds[i], self.ev(a, f, mod))
                    for kw in c.keywords:
                        if kw.arg in flds:
                            self.write_field([inst], kw.arg, self.ev(kw.value, f, mod))
            elif v[0] == "C":
                m = P.method(P.classes[v[1]], "__call__")
                if m is not None:
                    targets.add((m, True, v))
        res = set()
        for g, bound, selfv in targets:
            res.add((g, bound))
            params = list(g.params)
            if g.name == "__init__" and selfv is not None and selfv[0] == "C" and selfv[2] != "*":
                # constructor context: parameters copied verbatim into fields are bound per allocation site
                pc = self.param_copies(g)
                for attr, pname in pc.items():
                    idx = g.params.index(pname) - 1
                    vs = None
                    if 0 <= idx < len(cargs) and not any(isinstance(a, ast.Starred) for a in cargs[: idx + 1]):
                        vs = self.ev(cargs[idx], f, mod)
                    else:
                        for kw in c.keywords:
                            if kw.arg == pname:
                                vs = self.ev(kw.value, f, mod)
                    if vs is None and pname in g.defaults:
                        vs = self.ev(g.defaults[pname], None, g.module)
                    if vs:
                        self.write_field([selfv], attr, vs)
            if bound and params:
                if selfv is not None:
                    self._add(("v", g.qual, params[0]), {selfv})
                elif isinstance(fn, ast.Attribute):
                    self._add(("v", g.qual, params[0]), {v for v in self.ev(fn.value, f, mod) if v[0] in ("C", "K")})
                params = params[1:]
            elif g.is_classmethod and params:
                params = params[1:]
            for shift in [0] + sorted(self.partial_shift.get(g.qual, ())):
                for i, a in enumerate(cargs):
                    if isinstance(a, ast.Starred):
                        vs = self.ev(a.value, f, mod)
                        for p in params[i + shift:]:
                            self._add(("v", g.qual, p), vs)
                        break
                    if i + shift < len(params):
                        self._add(("v", g.qual, params[i + shift]), self.ev(a, f, mod))
                    elif g.vararg:
                        self._add(("v", g.qual, g.vararg), self.ev(a, f, mod))
            for kw in c.keywords:
                if kw.arg is not None and (kw.arg in g.params or kw.arg in g.kwonly):
                    self._add(("v", g.qual, kw.arg), self.ev(kw.value, f, mod))
        # helpers that only apply a parameter: their inner applications happen with this site's function and arguments
        for g, bound, selfv in targets:
            ap = self._applicator_params(g)
            if not ap or not self._applicator_ok(g):
                continue
            gps = list(g.params[1:]) if (bound and g.params) else list(g.params)
            site = {}
            for i, a in enumerate(cargs):
                if isinstance(a, ast.Starred):
                    break
                if i < len(gps):
                    site[gps[i]] = a
            for kw in c.keywords:
                if kw.arg in gps:
                    site[kw.arg] = kw.value
            for inner in walk_local(g.node):
                if not (isinstance(inner, ast.Call) and isinstance(inner.func, ast.Name) and inner.func.id in ap and inner.func.id in site):
                    continue
                for w in self.ev(site[inner.func.id], f, mod):
                    if w[0] == "F":
                        tg, tps = P.funcs[w[1]], list(P.funcs[w[1]].params)
                    elif w[0] == "BM":
                        tg = P.funcs[w[1]]
                        tps = list(tg.params[1:])
                        if tg.params:
                            self._add(("v", tg.qual, tg.params[0]), {w[2]})
                    else:
                        continue
                    for i, a in enumerate(inner.args):
                        if isinstance(a, ast.Starred) or i >= len(tps):
                            break
                        if isinstance(a, ast.Name) and a.id in site:
                            vs = self.ev(site[a.id], f, mod)
                        elif isinstance(a, ast.Name) and a.id in g.params and a.id in g.defaults:
                            vs = self.ev(g.defaults[a.id], None, g.module)
                        else:
                            vs = self.ev(a, g, g.module)
                        self._add(("v", tg.qual, tps[i]), vs)
        # function values passed to higher-order builtins are called by them
        hof = set()
        if isinstance(fn, ast.Name) and fn.id in ("map", "filter") and c.args:
            hof |= self.ev(c.args[0], f, mod)
            argvals = set()
            for a in c.args[1:]:
                argvals |= self.ev(a, f, mod)
            for v in hof:
                self._flow_single_arg(v, argvals)
        for kw in c.keywords:
            if kw.arg == "key":
                ks = self.ev(kw.value, f, mod)
                hof |= ks
                argvals = set()
                if isinstance(fn, ast.Attribute):
                    argvals |= self.ev(fn.value, f, mod)
                for a in c.args:
                    argvals |= self.ev(a, f, mod)
                for v in ks:
                    self._flow_single_arg(v, argvals)
        for v in hof:
            if v[0] in ("F", "BM"):
                res.add((P.funcs[v[1]], v[0] == "BM"))
            elif v[0] == "C":
                m = P.method(P.classes[v[1]], "__call__")
                if m is not None:
                    res.add((m, True))
            elif v[0] == "K":
                m = P.method(P.classes[v[1]], "__init__")
                if m is not None:
                    res.add((m, True))
        # container adds
        if isinstance(fn, ast.Attribute) and fn.attr in CONTAINER_METHODS_ADD:
            vs = set()
            for a in c.args:
                vs |= self.ev(a, f, mod)
            if vs:
                self.assign(_as_store(fn.value), vs, f, mod)
        old = self.calls.get(id(c), set())
        if res - old:
            self.calls[id(c)] = old | res
            self.changed = True

    def param_copies(self, g):
        """{attr: param} for statements `self.attr = param` in a constructor whose param is never rebound."""
        ck = ("pc", g.qual)
        if ck in self.__dict__.setdefault("_pc", {}):
            return self._pc[ck]
        out = {}
        if not g.is_lambda and g.params:
            selfn = g.params[0]
            rebound = set()
            for n in walk_local(g.node):
                if isinstance(n, ast.Name) and isinstance(n.ctx, ast.Store):
                    rebound.add(n.id)
            for st in g.node.body:
                if isinstance(st, ast.Assign) and len(st.targets) == 1:
                    t = st.targets[0]
                    if isinstance(t, ast.Attribute) and isinstance(t.value, ast.Name) and t.value.id == selfn and isinstance(st.value, ast.Name) and st.value.id in g.params[1:] and st.value.id not in rebound:
                        out[t.attr] = st.value.id
        self._pc[ck] = out
        return out

    def _flow_single_arg(self, v, argvals):
        P = self.P
        if v[0] == "F":
            g = P.funcs[v[1]]
            if g.params:
                self._add(("v", g.qual, g.params[0]), argvals)
        elif v[0] == "BM":
            g = P.funcs[v[1]]
            if len(g.params) > 1:
                self._add(("v", g.qual, g.params[1]), argvals)
        elif v[0] == "C":
            m = P.method(P.classes[v[1]], "__call__")
            if m is not None and len(m.params) > 1:
                self._add(("v", m.qual, m.params[1]), argvals)
                self._add(("v", m.qual, m.params[0]), {v})

    def _process_scope(self, stmts_or_expr, f, mod):
        P = self.P
        if f is not None and f.is_lambda:
            self._add(("ret", f.qual), self.ev(f.node.body, f, mod))
            nodes = list(walk_local(f.node))
        else:
            nodes = []
            for s in stmts_or_expr:
                nodes.append(s)
                if isinstance(s, FUNC_NODES + (ast.ClassDef,)):
                    continue
                nodes.extend(walk_local(s))
        pcopies = self.param_copies(f) if (f is not None and f.name == "__init__" and f.cls is not None) else {}
        for n in nodes:
            if isinstance(n, ast.Assign):
                if pcopies and len(n.targets) == 1 and isinstance(n.targets[0], ast.Attribute) and pcopies.get(n.targets[0].attr) == getattr(n.value, "id", None) and isinstance(n.targets[0].value, ast.Name) and n.targets[0].value.id == f.params[0]:
                    # handled per allocation site at the constructor call; only user-created instances here
                    sv = [v for v in self._get(("v", f.qual, f.params[0])) if v[0] == "C" and v[2] == "*"]
                    if sv:
                        self.write_field(sv, n.targets[0].attr, self.ev(n.value, f, mod))
                    continue
                vs = self.ev(n.value, f, mod)
                for t in n.targets:
                    self.assign(t, vs, f, mod)
            elif isinstance(n, ast.AnnAssign) and n.value is not None:
                self.assign(n.target, self.ev(n.value, f, mod), f, mod)
            elif isinstance(n, ast.AugAssign):
                self.assign(n.target, self.ev(n.value, f, mod), f, mod)
            elif isinstance(n, (ast.For, ast.AsyncFor)):
                self.assign(n.target, self.ev(n.iter, f, mod), f, mod)
            elif isinstance(n, ast.comprehension):
                self.assign(n.target, self.ev(n.iter, f, mod), f, mod)
            elif isinstance(n, ast.NamedExpr):
                self.assign(n.target, self.ev(n.value, f, mod), f, mod)
            elif isinstance(n, (ast.With, ast.AsyncWith)):
                for it in n.items:
                    if it.optional_vars is not None:
                        self.assign(it.optional_vars, self.ev(it.context_expr, f, mod), f, mod)
            elif isinstance(n, ast.Return) and f is not None:
                ap = self._applicator_params(f)
                if ap and isinstance(n.value, ast.Call) and isinstance(n.value.func, ast.Name) and n.value.func.id in ap:
                    # `return p(...)` in a helper that only applies its parameter p: the result belongs to the call site that
                    # supplied p (added there), not to every caller of the helper
                    self.applied_returns.setdefault(f.qual, set()).add(n.value.func.id)
                else:
                    self._add(("ret", f.qual), self.ev(n.value, f, mod))
            elif isinstance(n, (ast.Yield, ast.YieldFrom)) and f is not None:
                self._add(("ret", f.qual), self.ev(n.value, f, mod))
            elif isinstance(n, ast.Call):
                self._bind_call(n, f, mod)
            elif isinstance(n, (ast.FunctionDef, ast.AsyncFunctionDef)):
                g = P.func_of_node.get(n)
                if g is not None and g.cls is None:
                    if f is not None:
                        self._add(("v", f.qual, n.name), {("F", g.qual)})
            if isinstance(n, FUNC_NODES):
                g = P.func_of_node.get(n)
                if g is not None:
                    for p, d in g.defaults.items():
                        self._add(("v", g.qual, p), self.ev(d, f, mod))

    def _solve(self):
        P = self.P
        self.iterations = 0
        self._fix()
        # classes never instantiated inside the package, and methods whose receiver is still
        # unknown: their `self` is an instance created by the user
        for rnd in range(4):
            seeded = False
            for c in P.classes.values():
                for m in c.methods.values():
                    if m.params and not m.is_staticmethod:
                        node = ("v", m.qual, m.params[0])
                        if not self._get(node):
                            subs = P.subclasses(c)
                            if m.is_classmethod:
                                self._get(node).update(("K", k.qual) for k in subs)
                            else:
                                self._get(node).update(("C", k.qual, "*") for k in subs)
                            seeded = True
            if not seeded:
                break
            self._fix()
        self.use_fallback = True
        self._fix()
        # index call nodes
        for mod in P.modules.values():
            for n in ast.walk(mod.tree):
                if isinstance(n, ast.Call):
                    self.call_nodes.append((n, P.enclosing_func(n), mod))

    def _fix(self):
        P = self.P
        it = 0
        self.changed = True
        while self.changed and it < 60:
            self.changed = False
            it += 1
            for mod in P.modules.values():
                self._process_scope(mod.tree.body, None, mod)
                for c in P.classes.values():
                    if c.module is mod:
                        self._process_scope([s for s in c.node.body if not isinstance(s, FUNC_NODES)], None, mod)
            for f in P.funcs.values():
                self._process_scope(f.node.body if not f.is_lambda else None, f, f.module)
        self.iterations += it

    # -- public ----------------------------------------------------------------------
    def resolve(self, call, f=None):
        return sorted(self.calls.get(id(call), set()), key=lambda t: t[0].qual)

    def classes_of(self, e, f, mod=None):
        mod = mod or (f.module if f is not None else None)
        return {self.P.classes[v[1]] for v in self.ev(e, f, mod) if v[0] == "C"}

    def instance_sites(self, e, f, mod=None):
        mod = mod or (f.module if f is not None else None)
        return {(v[1], v[2]) for v in self.ev(e, f, mod) if v[0] == "C"}


BUILTIN_METHOD_NAMES = {
    "append", "extend", "insert", "pop", "remove", "sort", "reverse", "clear", "update", "setdefault", "get", "items",
    "keys", "values", "copy", "index", "count", "join", "split", "strip", "rstrip", "lstrip", "startswith", "endswith",
    "format", "upper", "lower", "replace", "decode", "encode", "write", "read", "readlines", "isnumeric", "add",
    "timestamp", "strftime", "isoweekday", "weekday", "total_seconds", "date", "time", "combine", "today", "now",
    "fromtimestamp", "utcfromtimestamp", "floor", "ceil", "log", "check_output", "push", "addi", "overlap", "min", "tostring",
    "SubElement", "Element", "realpath", "splitext", "copy2", "TemporaryDirectory",
}


def _as_store(e):
    return e
