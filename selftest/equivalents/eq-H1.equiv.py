#!/usr/bin/env python
# -*- coding: utf-8 -*-
"""Differential test: utils.hex2rgb/hex2rgbf/hex2rgbstr rebuilt with comprehensions and an f-string

usage: python equiv.py <original-checkout> <refactored-checkout>

The ``labella`` package is imported from each of the two directories in turn
(``sys.modules`` is purged of ``labella*`` in between).  The same seeded
stream of randomised and edge-case inputs is replayed against both trees and
every observable (return values, emitted SVG/TikZ text, exception type and
message, object state left behind, mutation of the caller's arguments) is
compared exactly.
"""

import copy
import datetime
import inspect
import os
import random
import re
import sys

SEED = 101
N_TIMELINE = 3000

MODULES = [
    "labella",
    "labella.utils",
    "labella.tex",
    "labella.scale",
    "labella.node",
    "labella.force",
    "labella.renderer",
    "labella.timeline",
]

_ADDR = re.compile(r"0x[0-9a-fA-F]+")


class Mods(object):
    pass


def load(root):
    """Import a fresh copy of labella from ``root``."""
    root = os.path.realpath(root)
    for name in list(sys.modules):
        if name == "labella" or name.startswith("labella."):
            del sys.modules[name]
    while root in sys.path:
        sys.path.remove(root)
    sys.path.insert(0, root)
    import importlib

    importlib.invalidate_caches()
    M = Mods()
    M.root = root
    for name in MODULES:
        mod = importlib.import_module(name)
        fname = os.path.realpath(mod.__file__)
        assert fname.startswith(root + os.sep), (name, fname, root)
        setattr(M, name.split(".")[-1], mod)
    return M


def unload(M):
    while M.root in sys.path:
        sys.path.remove(M.root)
    for name in list(sys.modules):
        if name == "labella" or name.startswith("labella."):
            del sys.modules[name]


def norm(obj):
    """Stable, exact textual form of a result (addresses masked)."""
    return _ADDR.sub("0xADDR", repr(obj))


def outcome(fn, *args, **kwargs):
    try:
        res = fn(*args, **kwargs)
    except RecursionError:
        raise
    except Exception as e:  # noqa
        return ("EXC", type(e).__name__, _ADDR.sub("0xADDR", str(e)))
    return ("OK", type(res).__name__, norm(res))


# ---------------------------------------------------------------------------
# random timeline inputs
# ---------------------------------------------------------------------------

TEXTS = [
    "a",
    "Label",
    "two words",
    "",
    "café",
    "naïve ångström",
    "éä",
    "́lead",
    "x̧́y",
    "ǖ",
    "ﬁ ligature",
    "½ half",
    "50% & #1 {x} $y$ <b> \"q\" 'r'",
    "中文",
    "ź̶",
    "0",
    "  ",
    "ḉồ",
    "Å",
]

GOOD_COLORS = [
    "#222",
    "#fff",
    "#abc",
    "ABC",
    "#1f77b4",
    "ff7f0e",
    "#D62728",
    "09f",
    "#00ff00",
]
BAD_COLORS = ["red", "#12", "", "#12345", "#gggggg", "#1f77b4ff", 5, None, "#ab"]
COLOR_KEYS = [
    "dotColor",
    "labelBgColor",
    "labelTextColor",
    "linkColor",
    "borderColor",
]
DIRECTIONS = ["right", "left", "up", "down"]


def rand_color(rng, bad_ok):
    if bad_ok and rng.random() < 0.3:
        return rng.choice(BAD_COLORS)
    return rng.choice(GOOD_COLORS)


def rand_color_option(rng, bad_ok):
    r = rng.random()
    if r < 0.35:
        return rand_color(rng, bad_ok)
    if r < 0.65:
        n = rng.choice([1, 2, 3, 5, 10, 20])
        if bad_ok and rng.random() < 0.05:
            return []
        return [rand_color(rng, bad_ok) for _ in range(n)]
    if r < 0.8:
        palette = [rand_color(rng, bad_ok) for _ in range(4)]
        return lambda d, _p=palette: _p[len(str(d.get("text", ""))) % 4]
    if r < 0.9:
        c = rand_color(rng, bad_ok)
        return lambda d, _c=c: _c
    return rng.choice(["COLOR_10", "COLOR_20"])


def rand_time(rng, kind):
    if kind == "num":
        r = rng.random()
        if r < 0.4:
            return rng.randint(-50, 400)
        if r < 0.8:
            return rng.uniform(-1000.0, 1000.0)
        return rng.choice([0, 1, -1, 0.5, 1e6, -1e-3, 3, 3.0])
    if kind == "date":
        return datetime.date(
            rng.randint(1990, 2030), rng.randint(1, 12), rng.randint(1, 28)
        )
    if kind == "datetime":
        return datetime.datetime(
            rng.randint(1990, 2030),
            rng.randint(1, 12),
            rng.randint(1, 28),
            rng.randint(0, 23),
            rng.randint(0, 59),
            rng.randint(0, 59),
            rng.choice([0, 0, rng.randint(0, 999999)]),
        )
    if kind == "time":
        return datetime.time(
            rng.randint(0, 23), rng.randint(0, 59), rng.randint(0, 59)
        )
    if kind == "mixed":
        return rand_time(rng, rng.choice(["date", "datetime", "time"]))
    if kind == "junk":
        return rng.choice([None, "2001-01-01", (1, 2), rand_time(rng, "num")])
    raise AssertionError(kind)


def rand_width(rng):
    r = rng.random()
    if r < 0.6:
        return rng.randint(1, 120)
    if r < 0.9:
        return round(rng.uniform(0.5, 150.0), rng.choice([1, 3, 10]))
    return rng.choice([0, 1, 50, 1000, 13.0])


def make_spec(rng):
    """A description of one timeline case (no library objects in here)."""
    kind = rng.choice(
        ["num", "num", "num", "date", "date", "datetime", "datetime", "time",
         "mixed"]
    )
    weird = rng.random() < 0.12
    if weird and rng.random() < 0.3:
        kind = "junk"
    n = rng.choice([1, 1, 2, 2, 3, 3, 4, 5, 6, 7, 9, 12, 16])
    if weird and rng.random() < 0.15:
        n = 0
    custom_textfn = rng.random() < 0.15
    data = []
    for i in range(n):
        d = {"time": rand_time(rng, kind)}
        has_text = rng.random() < 0.75
        if has_text:
            d["text"] = rng.choice(TEXTS)
        # a truthy text without a width would call out to LaTeX: never omit
        # the width there (nor when a custom textFn may invent a text)
        if has_text and d["text"] or custom_textfn or rng.random() < 0.7:
            d["width"] = rand_width(rng)
        if rng.random() < 0.1:
            d["extra"] = rng.randint(0, 5)
        data.append(d)
    if weird and data and rng.random() < 0.2:
        del data[rng.randrange(len(data))]["time"]

    r = rng.random()
    if r < 0.08:
        opts = None
    elif r < 0.14:
        opts = "omit"
    elif r < 0.2:
        opts = {}
    else:
        opts = {}
        if rng.random() < 0.85:
            opts["direction"] = rng.choice(DIRECTIONS)
        if weird and rng.random() < 0.25:
            opts["direction"] = rng.choice(
                ["diagonal", "", None, "UP", ["up"], ("left",), 3]
            )
        if rng.random() < 0.3:
            m = {"left": rng.randint(0, 60), "right": rng.randint(0, 60),
                 "top": rng.randint(0, 60), "bottom": rng.randint(0, 60)}
            if rng.random() < 0.3:
                m = {k: v + rng.choice([0.5, 0.25, 0.0]) for k, v in m.items()}
            opts["margin"] = m
        if rng.random() < 0.3:
            opts["initialWidth"] = rng.choice(
                [200, 400, 804, 1000, 333.5, rng.randint(100, 1500)]
            )
        if rng.random() < 0.3:
            opts["initialHeight"] = rng.choice(
                [120, 400, 250, 777.25, rng.randint(100, 1500)]
            )
        if rng.random() < 0.2:
            opts["dotRadius"] = rng.choice([0, 1, 2, 3, 4.5, 10, "3"])
        if rng.random() < 0.3:
            opts["layerGap"] = rng.choice([0, 10, 30, 60, 44.5, 100])
        if rng.random() < 0.45:
            lab = {}
            if rng.random() < 0.7:
                lab["maxPos"] = rng.choice([50, 100, 150, 200, 360, 764, 960])
            if rng.random() < 0.3:
                lab["minPos"] = rng.choice([0, 0, 10, None])
            if rng.random() < 0.3:
                lab["nodeSpacing"] = rng.choice([0, 1, 3, 8])
            if rng.random() < 0.2:
                lab["algorithm"] = rng.choice(["overlap", "none"])
            if rng.random() < 0.15:
                lab["stubWidth"] = rng.choice([1, 2, 5])
            if rng.random() < 0.1:
                lab["direction"] = rng.choice(DIRECTIONS)
            opts["labella"] = lab
        for key in COLOR_KEYS:
            if rng.random() < 0.3:
                opts[key] = rand_color_option(rng, weird)
        if rng.random() < 0.2:
            opts["labelPadding"] = {
                "left": rng.randint(0, 6), "right": rng.randint(0, 6),
                "top": rng.randint(0, 6), "bottom": rng.randint(0, 6),
            }
        if rng.random() < 0.1:
            opts["textXOffset"] = rng.choice(["0.15em", "0", "2px"])
        if rng.random() < 0.1:
            opts["textYOffset"] = rng.choice(["0.85em", "1em"])
        if rng.random() < 0.25:
            opts["showTicks"] = rng.choice([True, False, 0, 1])
        if rng.random() < 0.35:
            opts["showBorder"] = rng.choice([True, False, 1, ""])
        if rng.random() < 0.3:
            lat = {}
            if rng.random() < 0.5:
                lat["fontsize"] = rng.choice(["10pt", "11pt", "12pt"])
            for k in ["borderThickness", "axisThickness", "tickThickness",
                      "linkThickness"]:
                if rng.random() < 0.3:
                    lat[k] = rng.choice(["thin", "thick", "ultra thick",
                                         "line width=1.5pt", ""])
            if rng.random() < 0.4:
                lat["tickCross"] = rng.choice([True, False])
            if rng.random() < 0.3:
                lat["preamble"] = rng.choice(
                    ["", "\\usepackage{amsmath}", "% café\n\\usepackage{lmodern}"]
                )
            if rng.random() < 0.3:
                lat["reproducible"] = rng.choice([True, False])
            if rng.random() < 0.1:
                lat["latexmkOptions"] = ["--pdf", "--quiet"]
            opts["latex"] = lat
        if rng.random() < 0.12 and kind in ("num", "date", "datetime"):
            opts["domain"] = "auto"
        if rng.random() < 0.1:
            opts["timeFn"] = "custom"
        if custom_textfn:
            opts["textFn"] = rng.choice(["none", "upper", "const", "nothing"])
    scale = "linear" if kind == "num" else rng.choice(
        ["default", "default", "time"])
    if weird and rng.random() < 0.2:
        scale = rng.choice(["linear", "default", "time", "none"])
    if custom_textfn and not isinstance(opts, dict):
        opts = {"textFn": rng.choice(["none", "upper", "const", "nothing"])}
    return {"kind": kind, "data": data, "opts": opts, "scale": scale,
            "twice": rng.random() < 0.2}


def build_inputs(spec, M):
    """Fresh (data, options) objects for one constructor call."""
    data = copy.deepcopy(spec["data"])
    opts = spec["opts"]
    scale = spec["scale"]
    if opts is None or opts == "omit":
        if scale in ("linear", "time", "none"):
            opts = {}
        else:
            return data, opts
    opts = copy.deepcopy(opts)
    if scale == "linear":
        opts["scale"] = M.scale.LinearScale()
    elif scale == "time":
        opts["scale"] = M.scale.TimeScale()
    elif scale == "none":
        opts["scale"] = None
    for key in COLOR_KEYS:
        if opts.get(key) == "COLOR_10":
            opts[key] = M.utils.COLOR_10
        elif opts.get(key) == "COLOR_20":
            opts[key] = M.utils.COLOR_20
    if opts.get("domain") == "auto":
        times = [d["time"] for d in data if "time" in d]
        if times:
            try:
                opts["domain"] = [min(times), max(times)]
            except TypeError:
                del opts["domain"]
        else:
            del opts["domain"]
    if opts.get("timeFn") == "custom":
        opts["timeFn"] = lambda d: d["time"]
    tf = opts.get("textFn")
    if tf == "none":
        opts["textFn"] = None
    elif tf == "upper":
        opts["textFn"] = lambda d: d.get("text", "").upper()
    elif tf == "const":
        opts["textFn"] = lambda d: "T%s" % d.get("width")
    elif tf == "nothing":
        opts["textFn"] = lambda d: None
    return data, opts


def node_state(nodes):
    if nodes is None:
        return None
    out = []
    for n in nodes:
        path = n.getPathFromRoot()
        out.append(
            (
                n.x, n.y, n.dx, n.dy, n.w, n.h, n.width, n.idealPos,
                n.currentPos, n.layerIndex, len(path),
                [(p.currentPos, p.idealPos, p.width) for p in path],
            )
        )
    return out


def object_state(tl):
    d = vars(tl)
    st = {"attrs": sorted(d)}
    st["direction"] = d.get("direction")
    st["items"] = d.get("items")
    st["nodes"] = node_state(d.get("nodes"))
    rend = d.get("renderer")
    st["renderer"] = None if rend is None else (
        type(rend).__name__, sorted(vars(rend)), rend.options)
    opts = d.get("options")
    if opts is not None:
        st["options"] = {
            k: v for k, v in opts.items() if k not in ("scale",)
        }
        sc = opts.get("scale")
        st["scale"] = type(sc).__name__
        if sc is not None:
            st["scale_domain"] = outcome(sc.domain)
            st["scale_range"] = outcome(sc.range)
    return norm(st)


def export_args(cls):
    """Arguments for export() that only return the text (never run latex)."""
    sig = inspect.signature(cls.export)
    params = list(sig.parameters)
    assert params[:2] == ["self", "filename"], params
    assert sig.parameters["filename"].default is None
    return (None,)


def run_timeline_case(spec, M, clsname):
    cls = getattr(M.timeline, clsname)
    data, opts = build_inputs(spec, M)
    rec = []
    try:
        if spec["opts"] == "omit" and opts == "omit":
            tl = cls(data)
        else:
            tl = cls(data, options=opts)
    except RecursionError:
        raise
    except Exception as e:  # noqa
        rec.append(("CTOR-EXC", type(e).__name__,
                    _ADDR.sub("0xADDR", str(e))))
        rec.append(("args", norm(data), norm(opts)))
        return rec
    rec.append(("ctor-state", object_state(tl)))
    args = export_args(cls)
    rec.append(("export", outcome(tl.export, *args)))
    rec.append(("state", object_state(tl)))
    if spec["twice"]:
        rec.append(("export2", outcome(tl.export, *args)))
        rec.append(("state2", object_state(tl)))
    rec.append(("args", norm(data), norm(opts)))
    return rec


def timeline_cases(M, record):
    rng = random.Random(SEED)
    for i in range(N_TIMELINE):
        spec = make_spec(rng)
        for clsname in ("TimelineSVG", "TimelineTex"):
            record("timeline/%d/%s" % (i, clsname),
                   run_timeline_case(spec, M, clsname))


# ---------------------------------------------------------------------------
# refactoring-specific cases
# ---------------------------------------------------------------------------

HEXDIGITS = "0123456789abcdefABCDEF"


def rand_code(rng):
    r = rng.random()
    if r < 0.3:
        body = "".join(rng.choice(HEXDIGITS) for _ in range(6))
    elif r < 0.55:
        body = "".join(rng.choice(HEXDIGITS) for _ in range(3))
    elif r < 0.75:
        n = rng.choice([0, 1, 2, 4, 5, 7, 8, 9, 12])
        body = "".join(rng.choice(HEXDIGITS) for _ in range(n))
    elif r < 0.9:
        n = rng.choice([3, 6, 6, 3, 5, 7])
        body = "".join(
            rng.choice(HEXDIGITS + "gxyz #-+_ é٣") for _ in range(n)
        )
    else:
        return rng.choice(
            [None, 0, 255, 3.5, b"#abc", b"abc", b"#a1b2c3", [], ["a", "b", "c"],
             ["#", "a", "b", "c"], ("f", "0", "f"), ["g", None, "a"],
             [None, "g", "a"], ["1", 2, "3"], [1, 2, 3], ("ab", "cd", "ef"),
             ["aa", "bb", "cc", "dd", "ee", "ff"], {"a": 1}, {0: "a", 1: "b", 2: "c"},
             "#", "##", "###", "####", " ab", "+1-2+3", "0x1", "0x10x20x3",
             "1_0", "1_01_01_0", " 1 2 3", "١٢٣", True]
        )
    prefix = rng.choice(["#", "#", "", "", "##", " #"]) if r < 0.9 else ""
    if rng.random() < 0.7:
        prefix = rng.choice(["#", ""])
    return prefix + body


def extra_cases(M, record):
    rng = random.Random(SEED + 1)
    U = M.utils
    fixed = ["#222", "#fff", "#000", "abc", "#1f77b4", "FFFFFF", "", "#",
             None, "#12", "#1234", "#12345", "#1234567", "red", "#gggggg"]
    fixed += U.COLOR_10 + U.COLOR_20
    codes = fixed + [rand_code(rng) for _ in range(6000)]
    for i, code in enumerate(codes):
        rec = []
        for fname in ("hex2rgb", "hex2rgbf", "hex2rgbstr", "hex2html"):
            arg = copy.deepcopy(code)
            rec.append((fname, outcome(getattr(U, fname), arg), norm(arg)))
        record("utils/%d/%s" % (i, norm(code)), rec)
    for i in list(range(-3, 800)) + [10 ** 6, 26 ** 4 - 1, 26 ** 4, 2.0, None]:
        record("int2name/%r" % (i,), outcome(U.int2name, i))


# ---------------------------------------------------------------------------


def run_tree(root):
    M = load(root)
    results = []

    def record(label, value):
        results.append((label, value))

    try:
        extra_cases(M, record)
        timeline_cases(M, record)
    finally:
        unload(M)
    return results


def main(argv):
    if len(argv) != 3:
        print(__doc__)
        return 2
    res_a = run_tree(argv[1])
    res_b = run_tree(argv[2])
    if len(res_a) != len(res_b):
        print("DIFFERENT number of cases: %d vs %d" % (len(res_a), len(res_b)))
        return 1
    for (la, va), (lb, vb) in zip(res_a, res_b):
        if la != lb or va != vb:
            print("DIFFERENCE in case %s / %s" % (la, lb))
            print("  original  : %s" % (norm(va)[:3000],))
            print("  refactored: %s" % (norm(vb)[:3000],))
            return 1
    print("EQUIVALENT (%d cases)" % len(res_a))
    return 0


if __name__ == "__main__":
    sys.exit(main(sys.argv))
