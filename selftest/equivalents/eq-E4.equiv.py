#!/usr/bin/env python
"""Differential equivalence test.

Usage: python equiv.py <original-checkout> <refactored-checkout>

Both trees are imported in-process (one after the other, purging
``sys.modules`` in between), the same deterministic battery of calls is run
against each, and the canonicalised outcomes (return value, exception type,
mutated arguments / receiver state) are compared one by one.
"""

import importlib
import os
import random
import sys
import types
from datetime import datetime, timedelta


def _purge():
    for key in [
        k for k in sys.modules if k == "labella" or k.startswith("labella.")
    ]:
        del sys.modules[key]


def load(root):
    root = os.path.abspath(root)
    _purge()
    sys.path.insert(0, root)
    try:
        scale = importlib.import_module("labella.scale")
        d3t = importlib.import_module("labella.d3_time")
    finally:
        sys.path.pop(0)
    for mod in (scale, d3t):
        assert os.path.abspath(mod.__file__).startswith(root + os.sep), (
            mod.__file__,
            root,
        )
    _purge()
    return types.SimpleNamespace(scale=scale, d3t=d3t, root=root)


class Canon(object):
    """Turn results into comparable, tree-independent plain data."""

    def __init__(self, ns):
        self.ns = ns
        self.names = {}
        for name, obj in ns.d3t.d3_time.items():
            if isinstance(obj, ns.d3t.d3_time_interval):
                self.names[id(obj)] = "interval:" + name
        self.names[id(ns.scale.d3_time_scaleMilliseconds)] = "interval:ms"

    def __call__(self, obj):
        ns = self.ns
        if id(obj) in self.names:
            return self.names[id(obj)]
        if obj is None or isinstance(obj, (bool, str)):
            return repr(obj)
        if isinstance(obj, (int, float)):
            return type(obj).__name__ + ":" + repr(obj)
        if isinstance(obj, (datetime, timedelta)):
            return type(obj).__name__ + ":" + repr(obj)
        if isinstance(obj, (list, tuple)):
            return [type(obj).__name__] + [self(x) for x in obj]
        if isinstance(obj, dict):
            return ["dict"] + [
                [self(k), self(v)] for k, v in sorted(obj.items(), key=repr)
            ]
        if isinstance(obj, types.GeneratorType):
            return ["generator"] + [self(x) for x in obj]
        if isinstance(obj, ns.scale.TimeScale):
            return [
                "TimeScale",
                self(obj._linear),
                "methods-default"
                if obj._methods is ns.scale.d3_time_scaleLocalMethods
                else self(obj._methods),
            ]
        if isinstance(obj, ns.scale.LinearScale):
            return [
                "LinearScale",
                self(obj._domain),
                self(obj._range),
                self(obj._clamp),
            ]
        if isinstance(obj, ns.d3t.d3_time_interval):
            return "interval:<anonymous>"
        if isinstance(obj, ns.scale.d3TimeScaleMilliseconds):
            return "interval:<anonymous ms>"
        if callable(obj):
            return "callable:" + getattr(obj, "__name__", type(obj).__name__)
        return "object:" + type(obj).__name__


def run_case(canon, thunk):
    try:
        return ["ok", canon(thunk())]
    except RecursionError:
        return ["exc", "RecursionError"]
    except Exception as err:  # noqa: BLE001 - we compare the type
        return ["exc", type(err).__name__]


def rand_dt(rng, lo_year=1900, hi_year=2100):
    lo = datetime(lo_year, 1, 1)
    hi = datetime(hi_year, 12, 31, 23, 59, 59)
    span = int((hi - lo).total_seconds())
    dt = lo + timedelta(seconds=rng.randrange(span))
    kind = rng.randrange(5)
    if kind == 0:
        return dt.replace(hour=0, minute=0, second=0)
    if kind == 1:
        return dt.replace(day=1, hour=0, minute=0, second=0)
    if kind == 2:
        return dt + timedelta(microseconds=rng.randrange(1000000))
    if kind == 3:
        return dt + timedelta(milliseconds=rng.randrange(1000))
    return dt


EDGE_DATES = [
    datetime(1970, 1, 1),
    datetime(1969, 12, 31, 23, 59, 59, 999000),
    datetime(2000, 2, 29),
    datetime(2016, 2, 29, 12),
    datetime(2011, 12, 31, 23, 59, 59),
    datetime(2012, 1, 1),
    datetime(2012, 1, 1, 0, 0, 0, 1),
    datetime(2012, 1, 1, 0, 0, 0, 1000),
    datetime(2015, 1, 31),
    datetime(2015, 3, 29, 2, 30),
    datetime(2017, 1, 1),  # a Sunday
    datetime(2017, 1, 7, 23, 59, 59, 999999),
    datetime(2018, 12, 30),
    datetime(1, 1, 1),
    datetime(1, 1, 2, 3, 4, 5),
    datetime(9999, 12, 31, 23, 59, 59),
    datetime(9999, 6, 15),
    datetime(1900, 1, 1),
]

INTERVAL_NAMES = ["second", "minute", "hour", "day", "week", "month", "year"]


UNIT = {
    "second": timedelta(seconds=1),
    "minute": timedelta(minutes=1),
    "hour": timedelta(hours=1),
    "day": timedelta(days=1),
    "week": timedelta(days=7),
    "month": timedelta(days=30),
    "year": timedelta(days=365),
}


def build_cases(ns):
    d3t = ns.d3t
    d3_time = d3t.d3_time
    cases = []
    rng = random.Random(31337)
    dates = list(EDGE_DATES) + [rand_dt(rng) for _ in range(22)]

    def guarded(fn):
        def thunk():
            try:
                return {"ret": fn()}
            except Exception as err:  # noqa: BLE001
                return {"raised": type(err).__name__}

        return thunk

    # ---- round / floor / ceil / __call__ -------------------------------
    for name in INTERVAL_NAMES:
        iv = d3_time[name]
        for date in dates:
            cases.append(("round %s %r" % (name, date),
                          guarded(lambda iv=iv, date=date: iv.round(date))))
            cases.append(("ceil %s %r" % (name, date),
                          guarded(lambda iv=iv, date=date: iv.ceil(date))))
            cases.append(("floor+call %s %r" % (name, date),
                          guarded(lambda iv=iv, date=date:
                                  [iv.floor(date), iv(date)])))
        # exact midpoints: the strict `<` in round must stay strict
        for date in dates[18:30]:
            def mid(iv=iv, date=date):
                lo = iv.floor(date)
                hi = iv.offset(lo, 1)
                m = lo + (hi - lo) / 2
                return [iv.round(m), iv.round(m - timedelta(microseconds=1)),
                        iv.round(m + timedelta(microseconds=1)),
                        iv.round(lo), iv.round(hi)]
            cases.append(("round-mid %s %r" % (name, date), guarded(mid)))
        for bad in (None, 5, "2012-01-01", datetime(2012, 1, 1).date()):
            cases.append(("round-bad %s %r" % (name, bad),
                          guarded(lambda iv=iv, bad=bad: iv.round(bad))))
            cases.append(("ceil-bad %s %r" % (name, bad),
                          guarded(lambda iv=iv, bad=bad: iv.ceil(bad))))

    # ---- offset -----------------------------------------------------------
    ks = [0, 1, 2, 5, 11, 12, 13, 25, -1, -3, 1.5, 2.0, -0.5, True, None,
          "1", 10 ** 6, float("nan")]
    for ni, name in enumerate(INTERVAL_NAMES):
        iv = d3_time[name]
        for di, date in enumerate(dates):
            for j in range(3):
                k = ks[(di * 3 + j + ni) % len(ks)]
                cases.append(
                    ("offset %s %r k=%r" % (name, date, k),
                     guarded(lambda iv=iv, date=date, k=k: iv.offset(date, k)))
                )

    # ---- range --------------------------------------------------------------
    dts = [1, 2, 3, 5, 7, 10, 0, -2, 1.0, 1.5, 2.5, True, None, "2",
           float("nan"), float("inf")]
    n = 0
    for ni, name in enumerate(INTERVAL_NAMES):
        iv = d3_time[name]
        for di, t0 in enumerate(dates):
            for j in range(2):
                dt = dts[(di * 2 + j + ni * 3) % len(dts)]
                mult = [0, 1, 3, 12, 40, 90, -2][(di + j + ni) % 7]
                try:
                    t1 = t0 + UNIT[name] * mult + timedelta(
                        milliseconds=(di * 37) % 5)
                except OverflowError:
                    t1 = t0
                cases.append(
                    ("range#%d %s %r..%r dt=%r" % (n, name, t0, t1, dt),
                     guarded(lambda iv=iv, t0=t0, t1=t1, dt=dt:
                             iv.range(t0, t1, dt)))
                )
                n += 1
        # plural aliases are the bound range methods
        alias = d3_time[name + "s"]
        cases.append(
            ("alias %s" % name,
             guarded(lambda alias=alias, name=name: alias(
                 datetime(2011, 12, 30, 22, 58, 57, 500000),
                 datetime(2011, 12, 30, 22, 58, 57, 500000) + UNIT[name] * 6,
                 2)))
        )
        cases.append(
            ("range-bad %s" % name,
             guarded(lambda iv=iv: iv.range(None, datetime(2012, 1, 1), 1)))
        )
        cases.append(
            ("range-bad-stop %s" % name,
             guarded(lambda iv=iv: iv.range(datetime(2012, 1, 1), None, 2)))
        )

    # ---- custom intervals: observe the exact callback sequence -----------
    def custom_case(dt, number_kind, t0, t1):
        def thunk():
            log = []

            def local(date):
                log.append(("local", date))
                return date.replace(microsecond=0, second=0)

            def step(date, k):
                log.append(("step", date, k))
                return date + timedelta(minutes=k)

            def number(date):
                log.append(("number", date))
                if number_kind == "raise":
                    raise LookupError("number")
                if number_kind == "float":
                    return date.minute / 2.0
                if number_kind == "neg":
                    return -date.minute
                return date.minute

            iv = d3t.d3_time_interval(local, step, number)
            try:
                res = iv.range(t0, t1, dt)
            except Exception as err:  # noqa: BLE001
                return {"raised": type(err).__name__, "log": log}
            out = {"ret": res, "log": log,
                   "round": iv.round(t0), "ceil": iv.ceil(t0),
                   "offset": iv.offset(t0, 3), "floor": iv.floor(t0)}
            out["log_after"] = list(log)
            return out

        return thunk

    base = datetime(2013, 5, 5, 10, 57, 30, 250000)
    for dt in (0, 1, 2, 3, 4, 1.5, -1, None, True):
        for kind in ("int", "float", "neg", "raise"):
            for span in (0, 1, 7, 15):
                cases.append(
                    ("custom dt=%r %s span=%d" % (dt, kind, span),
                     custom_case(dt, kind, base,
                                 base + timedelta(minutes=span)))
                )
    return cases


def main(argv):
    if len(argv) != 3:
        print("usage: equiv.py <original-checkout> <refactored-checkout>")
        return 2
    outcomes = []
    for root in argv[1:3]:
        ns = load(root)
        canon = Canon(ns)
        results = []
        for label, thunk in build_cases(ns):
            results.append((label, run_case(canon, thunk)))
        outcomes.append(results)
    old, new = outcomes
    diffs = []
    if [l for l, _ in old] != [l for l, _ in new]:
        diffs.append("case lists differ (%d vs %d)" % (len(old), len(new)))
    else:
        for (label, a), (_, b) in zip(old, new):
            if a != b:
                diffs.append("%s\n    original:   %r\n    refactored: %r"
                             % (label, a, b))
    n_ok = sum(1 for _, r in old if r[0] == "ok")
    n_exc = len(old) - n_ok
    if len(old) < 200:
        diffs.append("too few cases: %d" % len(old))
    if diffs:
        print("DIFFERENT (%d of %d cases)" % (len(diffs), len(old)))
        for d in diffs[:40]:
            print("  " + d)
        return 1
    print("EQUIVALENT (%d cases: %d returned, %d raised)"
          % (len(old), n_ok, n_exc))
    return 0


if __name__ == "__main__":
    sys.exit(main(sys.argv))
