#!/usr/bin/env python
# -*- coding: utf-8 -*-
"""
Differential test for labella/scale.py and labella/d3_time.py.

usage: python equiv.py <original-checkout> <refactored-checkout>

The labella package is imported from each of the two checkouts in turn, the
same randomised (fixed seeds) and edge-case inputs are pushed through
LinearScale, TimeScale, every interval of d3_time.d3_time and the module level
helpers of both modules, and all results (values, exception type + message,
object state after every mutating call) are compared exactly.  Floats are
compared through float.hex, containers including their type.
"""

import importlib
import itertools
import os
import random
import signal
import sys

from datetime import datetime
from datetime import timedelta

GEN_LIMIT = 3000  # generators (drange) are consumed up to this many items
CASE_TIMEOUT = 60  # seconds; a hang is reported as a failure, never ignored


# --------------------------------------------------------------------------
# loading
# --------------------------------------------------------------------------


def purge():
    for name in list(sys.modules):
        if name == "labella" or name.startswith("labella."):
            del sys.modules[name]


def load(root):
    root = os.path.realpath(root)
    purge()
    sys.path.insert(0, root)
    try:
        importlib.invalidate_caches()
        pkg = importlib.import_module("labella")
        scale = importlib.import_module("labella.scale")
        d3t = importlib.import_module("labella.d3_time")
        for mod in (pkg, scale, d3t):
            f = os.path.realpath(mod.__file__)
            assert f.startswith(root + os.sep), (f, root)
    finally:
        sys.path.remove(root)
    return scale, d3t


# --------------------------------------------------------------------------
# canonical form of results
# --------------------------------------------------------------------------


class Ctx(object):
    def __init__(self, scale, d3t):
        self.scale = scale
        self.d3t = d3t
        self.names = {}
        for key, val in d3t.d3_time.items():
            if isinstance(val, d3t.d3_time_interval):
                self.names[id(val)] = "interval:" + key
        self.names[id(scale.d3_time_scaleMilliseconds)] = "interval:millis"
        for modname, mod in (("scale", scale), ("d3_time", d3t)):
            for key, val in vars(mod).items():
                if callable(val) and id(val) not in self.names:
                    if getattr(val, "__module__", None) == mod.__name__:
                        self.names[id(val)] = "%s.%s" % (modname, key)

    def canon(self, v, depth=0):
        if depth > 8:
            return ("deep",)
        if v is None or isinstance(v, (bool, str, bytes)):
            return (type(v).__name__, v)
        if isinstance(v, float):
            return ("float", v.hex())
        if isinstance(v, int):
            return (type(v).__name__, v)
        if isinstance(v, datetime):
            return ("datetime", repr(v))
        if isinstance(v, timedelta):
            return ("timedelta", repr(v))
        if isinstance(v, (list, tuple)):
            return (
                type(v).__name__,
                tuple(self.canon(x, depth + 1) for x in v),
            )
        if isinstance(v, dict):
            return (
                "dict",
                tuple(
                    (self.canon(k, depth + 1), self.canon(x, depth + 1))
                    for k, x in v.items()
                ),
            )
        if id(v) in self.names:
            return ("named", self.names[id(v)])
        if isinstance(v, self.scale.LinearScale):
            return ("LinearScale", self.linstate(v, depth + 1))
        if isinstance(v, self.scale.TimeScale):
            return ("TimeScale", self.timestate(v, depth + 1))
        if hasattr(v, "__next__"):
            items = list(itertools.islice(v, GEN_LIMIT))
            return (
                "iterator",
                tuple(self.canon(x, depth + 1) for x in items),
            )
        if callable(v):
            return ("callable", type(v).__name__)
        return ("object", type(v).__name__)

    def linstate(self, s, depth=0):
        return (
            self.canon(s._domain, depth),
            self.canon(s._range, depth),
            self.canon(s._clamp, depth),
            self.canon(s._interpolate, depth),
            tuple(sorted(vars(s))),
        )

    def timestate(self, s, depth=0):
        return (
            self.canon(s._linear, depth),
            self.canon(s._methods, depth),
            self.canon(s._format, depth),
            tuple(sorted(vars(s))),
        )


class Hang(Exception):
    pass


def _alarm(signum, frame):
    raise Hang()


class Recorder(object):
    def __init__(self, ctx):
        self.ctx = ctx
        self.records = []

    def __call__(self, label, thunk, state=None):
        signal.alarm(CASE_TIMEOUT)
        try:
            try:
                res = ("ok", self.ctx.canon(thunk()))
            except Hang:
                raise
            except Exception as exc:
                res = ("exc", type(exc).__name__, str(exc))
            if state is not None:
                res = res + (("state", self.ctx.canon(state)),)
        except Hang:
            signal.alarm(0)
            print("HANG (> %d s) in case %r" % (CASE_TIMEOUT, label))
            sys.exit(2)
        finally:
            signal.alarm(0)
        self.records.append((label, res))


# --------------------------------------------------------------------------
# input generation (never depends on library results)
# --------------------------------------------------------------------------

LO = datetime(1900, 1, 1)
HI = datetime(2199, 12, 31, 23, 59, 59, 999999)
TOTAL_US = int((HI - LO).total_seconds()) * 1000000

SPAN_UNITS_MS = [
    1,
    10,
    100,
    1e3,
    5e3,
    3e4,
    6e4,
    6e5,
    36e5,
    6 * 36e5,
    864e5,
    3 * 864e5,
    7 * 864e5,
    30 * 864e5,
    90 * 864e5,
    365 * 864e5,
    5 * 365 * 864e5,
    30 * 365 * 864e5,
    100 * 365 * 864e5,
    280 * 365 * 864e5,
]


def clip(d):
    if d < LO:
        return LO
    if d > HI:
        return HI
    return d


def rand_date(rng, granularity=None):
    g = granularity if granularity is not None else rng.randrange(7)
    d = LO + timedelta(microseconds=rng.randrange(TOTAL_US))
    if g == 0:
        return d
    if g == 1:
        return d.replace(microsecond=(d.microsecond // 1000) * 1000)
    if g == 2:
        return d.replace(microsecond=0)
    if g == 3:
        return d.replace(microsecond=0, second=0)
    if g == 4:
        return d.replace(microsecond=0, second=0, minute=0)
    if g == 5:
        return d.replace(microsecond=0, second=0, minute=0, hour=0)
    return d.replace(
        microsecond=0,
        second=0,
        minute=0,
        hour=0,
        day=1,
        month=rng.choice([1, 1, d.month]),
    )


def rand_time_domain(rng):
    a = rand_date(rng)
    kind = rng.randrange(12)
    if kind == 0:
        b = a
    else:
        unit = rng.choice(SPAN_UNITS_MS)
        span = unit * rng.uniform(0.5, 3.0)
        if rng.random() < 0.3:
            span = unit * rng.randrange(1, 4)
        b = clip(a + timedelta(milliseconds=span))
        if b == a and rng.random() < 0.5:
            b = clip(a - timedelta(milliseconds=span))
    dom = [a, b]
    if rng.random() < 0.35:
        dom.reverse()
    return dom


EDGE_DATES = [
    datetime(1900, 1, 1),
    datetime(1970, 1, 1),
    datetime(1969, 12, 31, 23, 59, 59, 999000),
    datetime(1970, 1, 1, 0, 0, 0, 1000),
    datetime(2000, 2, 29),
    datetime(2000, 2, 29, 12, 30, 30, 500000),
    datetime(1999, 12, 31, 23, 59, 59, 999999),
    datetime(2000, 1, 1),
    datetime(2011, 1, 2),
    datetime(2011, 1, 1, 0, 0, 0, 1),
    datetime(2012, 12, 31),
    datetime(2012, 1, 31),
    datetime(2012, 3, 31, 1, 2, 3),
    datetime(2010, 12, 26, 0, 0, 0),
    datetime(2016, 1, 3),
    datetime(2017, 1, 1),
    datetime(2100, 2, 28, 23, 59, 59, 999999),
    datetime(2199, 12, 31, 23, 59, 59, 999000),
    datetime(1900, 12, 30, 12),
    datetime(2009, 1, 1, 0, 12),
    datetime(2009, 1, 1, 23, 48),
]

EDGE_TIME_DOMAINS = [
    [datetime(2009, 1, 1, 0, 12), datetime(2009, 1, 1, 23, 48)],
    [datetime(2009, 1, 1, 23, 48), datetime(2009, 1, 1, 0, 12)],
    [datetime(2009, 1, 1), datetime(2009, 1, 1)],
    [datetime(2001, 1, 1), datetime(2138, 1, 1)],
    [datetime(1900, 1, 1), datetime(2199, 12, 31)],
    [datetime(2199, 12, 31), datetime(1900, 1, 1)],
    [datetime(2011, 1, 1, 12, 0, 0), datetime(2011, 1, 1, 12, 0, 4)],
    [datetime(2011, 1, 1, 12, 0, 0), datetime(2011, 1, 1, 12, 0, 0, 50000)],
    [datetime(2011, 1, 1, 12, 0, 0), datetime(2011, 1, 1, 12, 0, 0, 1000)],
    [datetime(2011, 1, 1, 12, 0, 0), datetime(2011, 1, 1, 12, 0, 0, 300)],
    [datetime(2011, 1, 1, 12, 0, 0), datetime(2011, 1, 1, 12, 40, 0)],
    [datetime(2011, 1, 1, 12, 0, 0), datetime(2011, 1, 1, 16, 34, 12)],
    [datetime(2011, 1, 1, 12, 0, 0), datetime(2011, 1, 14, 16, 34, 12)],
    [datetime(2010, 12, 28), datetime(2011, 5, 14)],
    [datetime(2010, 12, 28), datetime(2013, 5, 14)],
    [datetime(1969, 12, 31, 23, 59, 59), datetime(1970, 1, 1, 0, 0, 1)],
    [datetime(2000, 2, 29), datetime(2004, 2, 29)],
]


def rand_number(rng):
    k = rng.randrange(10)
    if k == 0:
        return rng.randrange(-20, 21)
    if k == 1:
        return float(rng.randrange(-1000, 1001))
    if k == 2:
        return rng.uniform(-1.0, 1.0)
    if k == 3:
        return rng.uniform(-1e6, 1e6)
    if k == 4:
        return rng.uniform(-1.0, 1.0) * 10 ** rng.randrange(-12, 13)
    if k == 5:
        return rng.randrange(-10 ** 6, 10 ** 6)
    if k == 6:
        return rng.choice([0, 0.0, -0.0, 1, -1, 0.5, 100, 1e-9, 123.456])
    if k == 7:
        return rng.randrange(0, 1000) / 10.0
    if k == 8:
        return rng.uniform(0, 100)
    return rng.gauss(0, 50)


def rand_lin_domain(rng):
    k = rng.randrange(12)
    if k == 0:
        a = rand_number(rng)
        return [a, a]
    if k == 1:
        a = rand_number(rng)
        return [a, a + rng.uniform(0, 1) * 1e-9]
    if k == 2:
        return [rand_number(rng), rand_number(rng), rand_number(rng)]
    if k == 3:
        a = rng.randrange(-50, 50)
        return [a, a + rng.randrange(1, 200)]
    if k == 4:
        a = rng.randrange(-50, 50)
        return [a + rng.randrange(1, 200), a]
    return [rand_number(rng), rand_number(rng)]


EDGE_LIN_DOMAINS = [
    [0, 1],
    [1, 0],
    [0, 0],
    [0.0, 10.0],
    [-10, 10],
    [1.1, 10.9],
    [10.9, 1.1],
    [0.7, 11.001],
    [123.1, 6.7],
    [0, 0.49],
    [12, 87],
    [0, 14.1],
    [0.5, 0.5],
    [-1e-7, 1e-7],
    [1e15, 1e15 + 2],
    [0, 1e300],
    [1, 2, 3],
    [3, 2, 1],
    [0.1, 0.7],
    [-0.0, 0.0],
]

M_VALUES = [None, 1, 2, 3, 4, 5, 7, 10, 10.0, 12, 15, 20, 33, 50, 100, 2.5]
BAD_M = [0, -1, -10, 0.0]


# --------------------------------------------------------------------------
# the cases
# --------------------------------------------------------------------------


def cases_module_surface(rec, ctx, names_scale, names_d3t, members):
    S, T = ctx.scale, ctx.d3t
    rec("surface:scale", lambda: [n for n in names_scale if not hasattr(S, n)])
    rec("surface:d3_time", lambda: [n for n in names_d3t if not hasattr(T, n)])
    rec("const:EPOCH", lambda: [S.EPOCH, T.EPOCH])
    rec("const:steps", lambda: S.d3_time_scaleSteps)
    rec("const:methods", lambda: S.d3_time_scaleLocalMethods)
    rec("const:d3_time keys", lambda: list(T.d3_time.keys()))
    rec(
        "const:d3_time kinds",
        lambda: [
            (k, ctx.canon(v), type(v).__name__) for k, v in T.d3_time.items()
        ],
    )
    for plural, single in (
        ("seconds", "second"),
        ("minutes", "minute"),
        ("hours", "hour"),
        ("days", "day"),
        ("weeks", "week"),
        ("months", "month"),
        ("years", "year"),
    ):
        rec(
            "plural:" + plural,
            lambda p=plural, s=single: (
                T.d3_time[p].__self__ is T.d3_time[s],
                T.d3_time[p].__func__ is T.d3_time_interval.range,
            ),
        )
    for cname in ("LinearScale", "TimeScale", "d3TimeScaleMilliseconds"):
        cls = getattr(S, cname)
        rec(
            "class:" + cname,
            lambda c=cls, n=cname: (
                [m for m in members[n] if m not in vars(c)],
                [b.__name__ for b in c.__mro__],
            ),
        )
    rec(
        "class:d3_time_interval",
        lambda: [b.__name__ for b in T.d3_time_interval.__mro__],
    )
    rec(
        "class:d3_time_interval original members",
        lambda: [
            n
            for n in (
                "round",
                "floor",
                "ceil",
                "offset",
                "range",
                "__call__",
                "__init__",
            )
            if n not in vars(T.d3_time_interval)
        ],
    )


def cases_scale_helpers(rec, ctx, rng):
    S = ctx.scale
    for i in range(400):
        a, b, x = rand_number(rng), rand_number(rng), rand_number(rng)
        if i % 7 == 0:
            b = a
        rec("uninterpNumber %d" % i, lambda: S.d3_uninterpolateNumber(a, b)(x))
        rec("uninterpClamp %d" % i, lambda: S.d3_uninterpolateClamp(a, b)(x))
        rec("interpNumber %d" % i, lambda: S.d3_interpolateNumber(a, b)(x))
        rec("interpolate %d" % i, lambda: S.d3_interpolate(a, b)(x))
        rec(
            "bilinear %d" % i,
            lambda: S.d3_scale_bilinear(
                [a, b],
                [x, a],
                S.d3_uninterpolateNumber,
                S.d3_interpolate,
            )(b + x),
        )
        rec("ascending %d" % i, lambda: S.d3_ascending(a, b))
        rec("identity %d" % i, lambda: S.d3_identity(a))
        rec("scaleExtent %d" % i, lambda: S.d3_scaleExtent([a, b, x]))
        rec("scaleExtent2 %d" % i, lambda: S.d3_scaleExtent((a, b)))
        rec("precision %d" % i, lambda: S.d3_scale_linearPrecision(a))
        rec("precision+ %d" % i, lambda: S.d3_scale_linearPrecision(abs(a)))
        rec(
            "zfrs %d" % i,
            lambda: S.zero_fill_right_shift(
                rng_int(a) + rng_int(b), abs(rng_int(x)) % 40
            ),
        )
    rec("ascending nan", lambda: S.d3_ascending(float("nan"), 1.0))
    rec("scaleExtent empty", lambda: S.d3_scaleExtent([]))
    rec("precision 0", lambda: S.d3_scale_linearPrecision(0))
    rec("precision None", lambda: S.d3_scale_linearPrecision(None))

    for i in range(300):
        n = rng.randrange(0, 25)
        arr = sorted(rand_number(rng) for _ in range(n))
        x = rand_number(rng) if (i % 3 or not arr) else rng.choice(arr)
        rec("bisect %d" % i, lambda: S.d3_bisect(arr, x))
        lo = rng.randrange(0, n + 1)
        hi = rng.randrange(0, n + 1)
        rec("bisect lo hi %d" % i, lambda: S.d3_bisect(arr, x, lo, hi))
        rec("bisect lo %d" % i, lambda: S.d3_bisect(arr, x, lo))
        rec("bisect steps %d" % i, lambda: S.d3_bisect(S.d3_time_scaleSteps, abs(x) * 1e4))
    for s in list(S.d3_time_scaleSteps):
        rec("bisect step %r" % s, lambda: S.d3_bisect(S.d3_time_scaleSteps, s))
        rec("bisect step- %r" % s, lambda: S.d3_bisect(S.d3_time_scaleSteps, s - 1))

    for i in range(200):
        data = [
            {"time": rand_number(rng), "w": rand_number(rng)}
            for _ in range(rng.randrange(1, 8))
        ]
        rec("extent %d" % i, lambda: S.d3_extent(data, lambda d: d["time"]))
    rec("extent empty", lambda: S.d3_extent([], lambda d: d))
    rec("extent keyerr", lambda: S.d3_extent([{"a": 1}], lambda d: d["b"]))

    for i in range(200):
        a, b = rand_number(rng), rand_number(rng)
        st = abs(rand_number(rng)) or 1
        rec("drange %d" % i, lambda: S.drange(min(a, b), max(a, b), st))
        rec("drange default %d" % i, lambda: S.drange(a, a + rng_int(b) % 50))

    doms = list(EDGE_LIN_DOMAINS) + [rand_lin_domain(rng) for _ in range(500)]
    for i, dom in enumerate(doms):
        for m in (M_VALUES if i < len(EDGE_LIN_DOMAINS) else [rng.choice(M_VALUES), rng.choice(M_VALUES)]):
            rec(
                "tickRange %d %r" % (i, m),
                lambda: S.d3_scale_linearTickRange(list(dom), m),
            )
            rec(
                "linearTicks %d %r" % (i, m),
                lambda: S.d3_scale_linearTicks(list(dom), m),
            )
            d2 = list(dom)
            rec(
                "linearNice %d %r" % (i, m),
                lambda: S.d3_scale_linearNice(d2, m),
                state=d2,
            )
            rec(
                "linearTickFormat %d %r" % (i, m),
                lambda: [
                    S.d3_scale_linearTickFormat(list(dom), m)(v)
                    for v in (dom[0], dom[-1], 0, 1.5, -2.25, 1e6 / 3)
                ],
            )
        rec("tickRange default %d" % i, lambda: S.d3_scale_linearTickRange(list(dom)))
        for m in BAD_M[: 1 + i % 4]:
            rec(
                "tickRange bad %d %r" % (i, m),
                lambda: S.d3_scale_linearTickRange(list(dom), m),
            )
        step = abs(rand_number(rng))
        for stp in (step, 0, None, 1, 0.25):
            d3 = list(dom)
            rec(
                "scale_nice niceStep %d %r" % (i, stp),
                lambda: S.d3_scale_nice(d3, S.d3_scale_niceStep(stp)),
                state=d3,
            )
            rec(
                "niceStep keys %d %r" % (i, stp),
                lambda: sorted(S.d3_scale_niceStep(stp).keys()),
            )
            rec(
                "niceStep vals %d %r" % (i, stp),
                lambda: [
                    S.d3_scale_niceStep(stp)["floor"](dom[0]),
                    S.d3_scale_niceStep(stp)["ceil"](dom[0]),
                ],
            )
    rec("tickRange tuple", lambda: S.d3_scale_linearTickRange((0, 1), 10))
    rec("tickRange str", lambda: S.d3_scale_linearTickRange(["a", "b"], 10))
    rec("tickRange empty", lambda: S.d3_scale_linearTickRange([], 10))
    rec("tickFormat fmt", lambda: S.d3_scale_linearTickFormat([0, 1], 10, ".3f")(0.5))


def rng_int(x):
    try:
        return int(x)
    except (OverflowError, ValueError):
        return 0


def cases_linear_scale(rec, ctx, rng):
    S = ctx.scale
    rec("LinearScale()", lambda: S.LinearScale())
    s0 = S.LinearScale()
    rec("LinearScale() getters", lambda: [s0.domain(), s0.range(), s0.clamp(), s0.interpolate(), s0.rangeRound([0, 1])])
    rec("LinearScale() call", lambda: [s0(0.5), s0.scale(0.25), s0.invert(0.75), s0(2), s0(-1)])
    rec("LinearScale() ticks", lambda: s0.ticks())
    rec("LinearScale() ticks 5", lambda: s0.ticks(5))

    doms = list(EDGE_LIN_DOMAINS) + [rand_lin_domain(rng) for _ in range(700)]
    for i, dom in enumerate(doms):
        how = rng.randrange(4)
        rge = [rand_number(rng), rand_number(rng)]
        if rng.random() < 0.3:
            rge = [0, rng.randrange(1, 1000)]
        if rng.random() < 0.05:
            rge = [rge[0], rge[0]]
        clamp = rng.random() < 0.4
        tag = "lin %d " % i

        if how == 0:
            holder = {}

            def make():
                holder["s"] = S.LinearScale(list(dom), list(rge), None, clamp)
                return holder["s"]

            rec(tag + "ctor", make)
            s = holder.get("s")
        elif how == 1:
            s = S.LinearScale()
            rec(tag + "domain()", lambda: s.domain(list(dom)) is s, state=s)
            rec(tag + "range()", lambda: s.range(list(rge)) is s, state=s)
            rec(tag + "clamp()", lambda: s.clamp(clamp) is s, state=s)
        elif how == 2:
            s = S.LinearScale(clamp=clamp, _range=tuple(rge))
            rec(tag + "domain(tuple)", lambda: s.domain(tuple(dom)), state=s)
        else:
            s = S.LinearScale(domain=list(dom))
            rec(tag + "range(list)", lambda: s.range(list(rge)), state=s)
            rec(tag + "clamp", lambda: s.clamp(clamp), state=s)
        if s is None:
            continue
        rec(tag + "getters", lambda: [s.domain(), s.range(), s.clamp(), s.interpolate()])
        rec(tag + "getter identity", lambda: [s.domain() is s._domain, s.range() is s._range])
        lo, hi = min(dom), max(dom)
        xs = [dom[0], dom[-1], lo - 1, hi + 1, (lo + hi) / 2]
        xs += [rng.uniform(lo, hi) for _ in range(3)] + [rand_number(rng)]
        rec(tag + "call", lambda: [s(x) for x in xs])
        rec(tag + "scale", lambda: [s.scale(x) for x in xs])
        ys = [rge[0], rge[1], rand_number(rng), rand_number(rng)]
        rec(tag + "invert", lambda: [s.invert(y) for y in ys])
        m = rng.choice(M_VALUES)
        rec(tag + "ticks %r" % (m,), lambda: s.ticks(m))
        rec(tag + "ticks()", lambda: s.ticks())
        rec(
            tag + "tickFormat %r" % (m,),
            lambda: [s.tickFormat(m)(x) for x in xs],
        )
        rec(tag + "tickFormat()", lambda: [s.tickFormat()(x) for x in xs[:3]])
        if i % 9 == 0:
            bm = rng.choice(BAD_M)
            rec(tag + "ticks bad", lambda: s.ticks(bm))
            rec(tag + "tickFormat bad", lambda: s.tickFormat(bm))
            rec(tag + "nice bad", lambda: s.nice(bm), state=s)
        holder = {}

        def cp():
            holder["c"] = s.copy()
            return holder["c"]

        rec(tag + "copy", cp)
        c = holder.get("c")
        m2 = rng.choice(M_VALUES)
        rec(tag + "nice %r" % (m2,), lambda: s.nice(m2) is s, state=s)
        rec(tag + "after nice call", lambda: [s(x) for x in xs])
        rec(tag + "after nice ticks", lambda: s.ticks(m2))
        rec(tag + "after nice ticks()", lambda: s.ticks())
        rec(tag + "nice again", lambda: s.nice(), state=s)
        if c is not None:
            rec(tag + "copy untouched", lambda: c)
            rec(
                tag + "copy independent",
                lambda: [
                    c._domain is not s._domain,
                    c._range is not s._range,
                    c._interpolate is s._interpolate,
                ],
            )
            rec(tag + "copy call", lambda: [c(x) for x in xs])
            rec(tag + "copy nice()", lambda: c.nice(), state=c)
        if i % 11 == 0:
            rec(tag + "interpolate set", lambda: s.interpolate(S.d3_interpolateNumber) is s, state=s)
            rec(tag + "interpolate call", lambda: [s(x) for x in xs])
            rec(tag + "clamp toggle", lambda: s.clamp(not clamp), state=s)
            rec(tag + "clamp toggle call", lambda: [s(x) for x in xs] + [s.invert(y) for y in ys])
    s = S.LinearScale()
    rec("lin bad domain str", lambda: s.domain(["a", "b"]), state=s)
    rec("lin bad domain int", lambda: s.domain(5), state=s)
    rec("lin domain strings ok", lambda: s.domain(["1", "2.5"]), state=s)
    rec("lin domain one", lambda: s.domain([1]), state=s)
    rec("lin domain empty", lambda: s.domain([]), state=s)
    rec("lin range one", lambda: S.LinearScale().range([1]))
    rec("lin call str", lambda: S.LinearScale()("a"))
    rec("lin ctor positional", lambda: S.LinearScale([0, 10], [5, 6], S.d3_interpolate, True)(20))


def interval_pool(ctx):
    T = ctx.d3t
    return [
        ("second", T.d3_time["second"]),
        ("minute", T.d3_time["minute"]),
        ("hour", T.d3_time["hour"]),
        ("day", T.d3_time["day"]),
        ("week", T.d3_time["week"]),
        ("month", T.d3_time["month"]),
        ("year", T.d3_time["year"]),
    ]


def cases_time_scale(rec, ctx, rng):
    S, T = ctx.scale, ctx.d3t
    pool = interval_pool(ctx)
    t0 = S.TimeScale()
    rec("TimeScale()", lambda: t0)
    rec("TimeScale() getters", lambda: [t0.domain(), t0.range(), t0.clamp(), t0.interpolate(), t0.rangeRound(1), t0.tickFormat()])
    rec("TimeScale() call", lambda: [t0(datetime(1970, 1, 1, 0, 0, 0, 500)), t0.invert(0.5)])
    rec("TimeScale() ticks", lambda: t0.ticks())
    rec("TimeScale() nice", lambda: t0.nice(), state=t0)

    doms = list(EDGE_TIME_DOMAINS) + [rand_time_domain(rng) for _ in range(900)]
    for i, dom in enumerate(doms):
        tag = "time %d " % i
        rge = [rand_number(rng), rand_number(rng)]
        if rng.random() < 0.5:
            rge = [0, rng.randrange(1, 2000)]
        clamp = rng.random() < 0.3
        s = S.TimeScale()
        rec(tag + "domain()", lambda: s.domain(list(dom)) is s, state=s)
        rec(tag + "range()", lambda: s.range(list(rge)) is s, state=s)
        if clamp:
            rec(tag + "clamp()", lambda: s.clamp(True) is s, state=s)
        rec(tag + "getters", lambda: [s.domain(), s.range(), s.clamp(), s.interpolate(), s.tickFormat()])
        # a convenience accessor may exist in one tree only; it has to agree
        # with the spelled-out expression of the other tree
        rec(
            tag + "extent",
            lambda: s.extent()
            if hasattr(s, "extent")
            else S.d3_scaleExtent(s.domain()),
        )
        lo, hi = min(dom), max(dom)
        span = hi - lo
        xs = [dom[0], dom[1], lo - timedelta(seconds=1), hi + timedelta(days=1)]
        xs += [lo + timedelta(microseconds=int(span.total_seconds() * 1e6 * rng.random())) for _ in range(3)]
        xs.append(rand_date(rng))
        rec(tag + "call", lambda: [s(x) for x in xs])
        ys = [rge[0], rge[1], rand_number(rng), (rge[0] + rge[1]) / 2]
        rec(tag + "invert", lambda: [s.invert(y) for y in ys])
        span_ms = span.total_seconds() * 1000.0
        ext_ms = [
            (lo - datetime(1970, 1, 1)).total_seconds() * 1000.0,
            (hi - datetime(1970, 1, 1)).total_seconds() * 1000.0,
        ]
        count = rng.choice([2, 3, 4, 5, 6, 8, 10, 12, 15, 20, 25, 30])
        rec(tag + "tickMethod 10", lambda: s.tickMethod(ext_ms, 10))
        rec(tag + "tickMethod %d" % count, lambda: s.tickMethod(ext_ms, count))
        rec(tag + "ticks()", lambda: s.ticks())
        rec(tag + "ticks(None)", lambda: s.ticks(None))
        rec(tag + "ticks(%d)" % count, lambda: s.ticks(count))
        rec(
            tag + "tick labels",
            lambda: [s.tickFormat()(t) for t in s.ticks(count)],
        )
        if i % 10 == 0:
            rec(tag + "ticks(0)", lambda: s.ticks(0))
            rec(tag + "ticks(interval)", lambda: s.ticks(T.d3_time["day"], 1))
        holder = {}

        def cp():
            holder["c"] = s.copy()
            return holder["c"]

        rec(tag + "copy", cp)
        c = holder.get("c")
        rec(tag + "nice()", lambda: s.nice() is s, state=s)
        rec(tag + "after nice domain", lambda: s.domain())
        rec(tag + "after nice call", lambda: [s(x) for x in xs])
        rec(tag + "after nice ticks", lambda: s.ticks())
        rec(tag + "nice() again", lambda: s.nice() is s, state=s)
        if c is not None:
            rec(tag + "copy untouched", lambda: c)
            rec(
                tag + "copy independent",
                lambda: [
                    c._linear is not s._linear,
                    c._linear._domain is not s._linear._domain,
                    c._methods is s._methods,
                    c._format is s._format,
                ],
            )
            # nice with a tick count; large spans with small counts would
            # leave the year range the unchanged library can handle.
            if span_ms < 40 * 31536e6:
                counts = [count, rng.choice([1, 2, 3, 5, 7])]
            else:
                counts = [max(count, 5)]
            for n in counts:
                c2 = c.copy()
                rec(tag + "nice(%d)" % n, lambda: c2.nice(n) is c2, state=c2)
                rec(tag + "nice(%d) ticks" % n, lambda: c2.ticks(n))
            # nice with an explicit interval, without and with skip
            name, iv = rng.choice(pool)
            if not (name in ("second", "minute") and span_ms > 400 * 864e5):
                c3 = c.copy()
                rec(tag + "nice(%s)" % name, lambda: c3.nice(iv) is c3, state=c3)
                skip = rng.choice([1, 2, 3, 4, 5, 6, 10, 12])
                c4 = c.copy()
                rec(
                    tag + "nice(%s,%d)" % (name, skip),
                    lambda: c4.nice(iv, skip) is c4,
                    state=c4,
                )
                rec(tag + "nice(%s,%d) domain" % (name, skip), lambda: c4.domain())
            if i % 13 == 0:
                c5 = c.copy()
                rec(tag + "nice('10')", lambda: c5.nice("10"), state=c5)
                rec(tag + "nice(0)", lambda: c5.nice(0), state=c5)
                rec(tag + "interpolate", lambda: c5.interpolate(S.d3_interpolateNumber) is c5, state=c5)
    s = S.TimeScale()
    rec("time bad domain", lambda: s.domain([1, 2]), state=s)
    rec("time bad domain none", lambda: s.domain(5), state=s)
    rec("time bad call", lambda: s(3))
    lin = S.LinearScale([0.0, 1000.0], [0, 1])
    ts = S.TimeScale(lin, None, lambda d: d.isoformat())
    rec("time custom", lambda: ts)
    rec("time custom fmt", lambda: ts.tickFormat()(datetime(2000, 1, 1)))
    rec("time custom ticks", lambda: ts.ticks())
    rec("time custom shares linear", lambda: ts._linear is lin)
    half = S.TimeScale(methods=list(S.d3_time_scaleLocalMethods))
    rec("time methods copy", lambda: half.domain([datetime(2000, 1, 1), datetime(2000, 3, 1)]).ticks())

    # helpers used by nice()
    for i in range(300):
        d = rand_date(rng) if i >= len(EDGE_DATES) else EDGE_DATES[i]
        name, iv = pool[i % len(pool)]
        k = rng.choice([2, 3, 4, 5, 6, 10, 12])

        def skipped(date, iv=iv, k=k):
            return not len(iv.range(date, date + timedelta(milliseconds=1), k))

        rec("time_nice_floor %d %s %d" % (i, name, k), lambda: S.time_nice_floor(d, skipped, iv))
        rec("time_nice_ceil %d %s %d" % (i, name, k), lambda: S.time_nice_ceil(d, skipped, iv))
        rec("time_nice_floor noskip %d" % i, lambda: S.time_nice_floor(d, lambda x: False, iv))
        rec("time_nice_ceil noskip %d" % i, lambda: S.time_nice_ceil(d, lambda x: False, iv))
        d3 = [d, d + timedelta(seconds=rng.uniform(0, 1e6))]
        if i % 2:
            d3.reverse()
        rec("scale_nice interval %d %s" % (i, name), lambda: S.d3_scale_nice(d3, iv), state=d3)
        rec("mytimeformat %d" % i, lambda: S.mytimeformat(d))
        rec("dt2milli %d" % i, lambda: [S.dt2milli(d), T.dt2milli(d)])
        ms = rng.uniform(-2.2e12, 7.2e12)
        if i % 3 == 0:
            ms = float(int(ms))
        rec("milli2dt %d" % i, lambda: [S.milli2dt(ms), T.milli2dt(ms)])
        rec("roundtrip %d" % i, lambda: S.milli2dt(S.dt2milli(d)))
        M = S.d3_time_scaleMilliseconds
        step = rng.choice([1, 2, 5, 10, 20, 50, 100, 200, 500, 0.5, 2.5, 0])
        stop = d + timedelta(milliseconds=rng.randrange(0, 2000))
        rec("millis range %d %r" % (i, step), lambda: M.range(d, stop, step))
        rec("millis floor/ceil %d" % i, lambda: [M.floor(d), M.ceil(d), M.floor(d) is d])
    fm = S.d3_time_formatMulti(
        [
            [lambda d: d.strftime(".%f"), lambda d: d.microsecond],
            [lambda d: d.strftime(":%S"), lambda d: d.second],
            [lambda d: d.strftime("%Y"), lambda d: True],
        ]
    )
    for i, d in enumerate(EDGE_DATES):
        rec("formatMulti %d" % i, lambda: fm(d))
        rec("mytimeformat edge %d" % i, lambda: S.mytimeformat(d))
    fm2 = S.d3_time_formatMulti([[lambda d: "x", lambda d: False]])
    rec("formatMulti exhausted", lambda: fm2(EDGE_DATES[0]))


STEP_LIMITS = {
    "second": timedelta(seconds=150),
    "minute": timedelta(minutes=150),
    "hour": timedelta(hours=150),
    "day": timedelta(days=150),
    "week": timedelta(days=7 * 120),
    "month": timedelta(days=30 * 120),
    "year": timedelta(days=365 * 100),
}


def cases_intervals(rec, ctx, rng):
    T = ctx.d3t
    pool = interval_pool(ctx)
    plural = {n: T.d3_time[n + "s"] for n, _ in pool}
    dates = list(EDGE_DATES) + [rand_date(rng) for _ in range(450)]
    for i, d in enumerate(dates):
        for name, iv in pool:
            tag = "iv %s %d " % (name, i)
            rec(tag + "floor", lambda: iv.floor(d))
            rec(tag + "call", lambda: iv(d))
            rec(tag + "ceil", lambda: iv.ceil(d))
            rec(tag + "round", lambda: iv.round(d))
            k = rng.randrange(-30, 31)
            rec(tag + "offset %d" % k, lambda: iv.offset(d, k))
            if i % 3 == 0:
                kf = rng.choice([0.5, 1.5, -0.5, 2.0, 2.999, -3.25, 0.0])
                rec(tag + "offset %r" % kf, lambda: iv.offset(d, kf))
                rec(tag + "offset 0/1/-1", lambda: [iv.offset(d, 0), iv.offset(d, 1)])
                rec(tag + "offset -1", lambda: iv.offset(d, -1))
            lim = STEP_LIMITS[name]
            t1 = clip(d + timedelta(seconds=lim.total_seconds() * rng.random()))
            dt = rng.choice([1, 1, 1, 2, 3, 4, 5, 6, 7, 10, 12, 15, 30])
            rec(tag + "range %d" % dt, lambda: iv.range(d, t1, dt))
            if i % 4 == 0:
                rec(tag + "plural range", lambda: plural[name](d, t1, dt))
                dt2 = rng.choice([0, -1, 0.5, 1.0, 2.0, 2.5])
                rec(tag + "range odd %r" % dt2, lambda: iv.range(d, t1, dt2))
                rec(tag + "range reversed", lambda: iv.range(t1, d, 1))
                rec(tag + "range empty", lambda: iv.range(d, d, 1))
                fl = None
                try:
                    fl = iv.floor(d)
                except Exception:
                    pass
                if fl is not None:
                    rec(tag + "range from floor", lambda: iv.range(fl, t1, dt))
                    rec(tag + "floor idempotent", lambda: [iv.floor(fl), iv.ceil(fl), iv.round(fl)])
        tag = "d3t %d " % i
        rec(tag + "dayOfYear", lambda: T.d3_time["dayOfYear"](d))
        rec(tag + "day_of_year", lambda: T.day_of_year(d))
        rec(tag + "week_local", lambda: T.d3_time_week_local(d))
        rec(tag + "week_number", lambda: T.d3_time_week_number(d))
        rec(tag + "month_local", lambda: T.d3_time_month_local(d))
        rec(tag + "year_local", lambda: T.d3_time_year_local(d))
        rec(tag + "hour_local", lambda: T.d3_time_hour_local(d))
        k = rng.randrange(-14, 40)
        rec(tag + "month_offset %d" % k, lambda: T.d3_time_month_offset(d, k))
        rec(tag + "day_offset %d" % k, lambda: T.d3_time_day_offset(d, k))
        rec(tag + "day_offset f", lambda: T.d3_time_day_offset(d, k + 0.75))
        rec(tag + "daysThisMonth", lambda: T.daysThisMonth(d))
        rec(tag + "tzoffset", lambda: T.getTimezoneOffset(d))
        rec(tag + "dt2milli", lambda: T.dt2milli(d))
        rec(tag + "milli2dt", lambda: T.milli2dt(T.dt2milli(d)))
    # error behaviour
    for name, iv in pool:
        rec("iv %s floor None" % name, lambda: iv.floor(None))
        rec("iv %s ceil str" % name, lambda: iv.ceil("2000-01-01"))
        rec("iv %s round int" % name, lambda: iv.round(5))
        rec("iv %s offset str" % name, lambda: iv.offset(EDGE_DATES[3], "a"))
        rec("iv %s offset None" % name, lambda: iv.offset(EDGE_DATES[3], None))
        rec("iv %s range bad dt" % name, lambda: iv.range(EDGE_DATES[3], EDGE_DATES[3] + STEP_LIMITS[name] / 50, "a"))
        rec("iv %s range bad dt2" % name, lambda: iv.range(EDGE_DATES[3], EDGE_DATES[3] + STEP_LIMITS[name] / 50, None))
        rec("iv %s range bad t1" % name, lambda: iv.range(EDGE_DATES[3], None, 1))
        rec("iv %s big offset" % name, lambda: iv.offset(datetime(2100, 1, 1), 10 ** 7))
        rec("iv %s neg big offset" % name, lambda: iv.offset(datetime(2100, 1, 1), -(10 ** 7)))
        rec(
            "iv %s attrs" % name,
            lambda: sorted(vars(iv)),
        )
        rec(
            "iv %s parts" % name,
            lambda: [
                iv._local(EDGE_DATES[5]),
                iv._step(EDGE_DATES[4].replace(day=1), 2),
                iv._number(EDGE_DATES[5]),
            ],
        )
    # a user-defined interval built from the public class
    custom = T.d3_time_interval(
        lambda date: date.replace(minute=(date.minute // 10) * 10, second=0, microsecond=0),
        lambda date, offset: date + timedelta(minutes=10 * offset),
        lambda date: date.minute // 10,
    )
    for i in range(150):
        d = rand_date(rng)
        t1 = d + timedelta(minutes=rng.randrange(0, 600))
        dt = rng.choice([1, 2, 3, 6])
        rec("custom %d" % i, lambda: [custom.floor(d), custom.ceil(d), custom.round(d), custom(d), custom.offset(d, 3)])
        rec("custom range %d" % i, lambda: custom.range(d, t1, dt))
    calls = []
    spy = T.d3_time_interval(
        lambda date: (calls.append(("local", date)), date.replace(microsecond=0))[1],
        lambda date, offset: (calls.append(("step", date, offset)), date + timedelta(seconds=offset))[1],
        lambda date: (calls.append(("number", date)), date.second)[1],
    )
    for i in range(60):
        d = rand_date(rng)
        del calls[:]
        rec("spy floor %d" % i, lambda: (spy.floor(d), list(calls)))
        del calls[:]
        rec("spy ceil %d" % i, lambda: (spy.ceil(d), list(calls)))
        del calls[:]
        rec("spy round %d" % i, lambda: (spy.round(d), list(calls)))
        del calls[:]
        rec("spy offset %d" % i, lambda: (spy.offset(d, 4), list(calls)))
        del calls[:]
        rec("spy range %d" % i, lambda: (spy.range(d, d + timedelta(seconds=9), 1 + i % 3), list(calls)))


def run(root, names):
    scale, d3t = load(root)
    ctx = Ctx(scale, d3t)
    rec = Recorder(ctx)
    if names is None:
        names = (
            sorted(n for n in vars(scale) if not n.startswith("__")),
            sorted(n for n in vars(d3t) if not n.startswith("__")),
            {
                c: sorted(
                    m
                    for m in vars(getattr(scale, c))
                    if m not in ("__dict__", "__weakref__", "__doc__")
                )
                for c in ("LinearScale", "TimeScale", "d3TimeScaleMilliseconds")
            },
        )
    cases_module_surface(rec, ctx, names[0], names[1], names[2])
    cases_scale_helpers(rec, ctx, random.Random(1001))
    cases_linear_scale(rec, ctx, random.Random(2002))
    cases_time_scale(rec, ctx, random.Random(3003))
    cases_intervals(rec, ctx, random.Random(4004))
    purge()
    return rec.records, names


def main(argv):
    if len(argv) != 3:
        print(__doc__)
        return 2
    signal.signal(signal.SIGALRM, _alarm)
    orig, names = run(argv[1], None)
    refa, _ = run(argv[2], names)
    if len(orig) != len(refa):
        print("DIFFERENT number of cases: %d vs %d" % (len(orig), len(refa)))
        return 1
    for (la, ra), (lb, rb) in zip(orig, refa):
        if la != lb or ra != rb:
            print("DIFFERENCE in case %r" % (la,))
            print("  original:   %r" % (ra,))
            print("  refactored: %r (%r)" % (rb, lb))
            return 1
    print("EQUIVALENT (%d cases)" % len(orig))
    return 0


if __name__ == "__main__":
    sys.exit(main(sys.argv))
