#!/usr/bin/env python
# -*- coding: utf-8 -*-
"""
Differential equivalence test for labella/distributor.py and labella/node.py.

Usage:  python equiv.py <path-to-original-checkout> <path-to-refactored-checkout>

Each tree is exercised in its own subprocess (PYTHONPATH pointing at the tree),
every test case is serialised to one canonical JSON line (return value, raised
exception type + message, state of every reachable node object, options dict),
and the two transcripts are compared line by line.

Prints EQUIVALENT and exits 0 when the transcripts are identical, otherwise
prints DIFFERENT with the first differing cases and exits 1.
"""

import json
import os
import random
import subprocess
import sys
import types

FOCUS = "overlap"  # which group of functions gets the extra-large case set

ALL_GROUPS = ("distribute", "simple", "overlap", "width", "stub")


# --------------------------------------------------------------------------
# canonical serialisation
# --------------------------------------------------------------------------


class Snap(object):
    """Serialise arbitrary object graphs (with cycles) deterministically."""

    BASIC = (int, float, complex, str, bytes, bool, type(None))

    def __init__(self):
        self.ids = {}
        self.objs = []

    def register(self, obj):
        key = id(obj)
        if key not in self.ids:
            self.ids[key] = len(self.objs)
            self.objs.append(obj)
        return self.ids[key]

    def enc(self, v):
        if v is None or isinstance(v, bool):
            return v
        if isinstance(v, (int, float, complex)):
            return [type(v).__name__, repr(v)]
        if isinstance(v, (str, bytes)):
            return [type(v).__name__, repr(v)]
        if isinstance(v, (list, tuple)):
            return [type(v).__name__, [self.enc(x) for x in v]]
        if isinstance(v, dict):
            items = sorted(
                ((repr(k), self.enc(x)) for k, x in v.items()),
                key=lambda kv: kv[0],
            )
            return ["dict", items]
        if isinstance(v, BaseException):
            return ["exc", type(v).__name__, str(v)]
        if hasattr(v, "__dict__") and not isinstance(
            v, (type, types.FunctionType, types.ModuleType)
        ):
            return ["ref", self.register(v)]
        return ["obj", type(v).__name__]

    def dump(self, payload):
        out = {"payload": self.enc(payload)}
        table = []
        i = 0
        while i < len(self.objs):
            obj = self.objs[i]
            attrs = {}
            for name in sorted(vars(obj)):
                val = vars(obj)[name]
                if name == "overlaps" and isinstance(val, list):
                    # order comes from a set of id-hashed objects: sort it
                    refs = [self.enc(x) for x in val]
                    attrs[name] = ["overlaps", sorted(json.dumps(r) for r in refs)]
                else:
                    attrs[name] = self.enc(val)
            table.append([type(obj).__name__, attrs])
            i += 1
        out["objects"] = table
        return out


# --------------------------------------------------------------------------
# worker: runs inside one tree
# --------------------------------------------------------------------------


def worker(tree):
    import resource
    import signal

    # a runaway case must not take the machine down
    resource.setrlimit(resource.RLIMIT_AS, (4 << 30, 4 << 30))

    tree = os.path.realpath(tree)
    sys.path.insert(0, tree)
    import labella.distributor as D
    import labella.node as N

    for mod in (D, N):
        assert os.path.realpath(mod.__file__).startswith(tree + os.sep), (
            mod.__file__,
            tree,
        )

    Node = N.Node
    Distributor = D.Distributor

    def on_alarm(signum, frame):
        raise TimeoutError("case timed out")

    signal.signal(signal.SIGALRM, on_alarm)

    counter = [0]
    per_group = {}

    def emit(group, label, watched, thunk):
        """Run thunk, print canonical outcome + state of all watched objects."""
        snap = Snap()
        for w in watched:
            snap.enc(w)  # register caller-visible objects first, in order
        signal.alarm(20)
        try:
            res = ["ok", thunk()]
        except RecursionError as e:
            res = ["raised", "RecursionError", ""]
        except Exception as e:  # noqa
            res = ["raised", type(e).__name__, str(e)]
        finally:
            signal.alarm(0)
        if res[0] == "ok":
            payload = ["ok", res[1], list(watched)]
        else:
            payload = [res[0], res[1], res[2], list(watched)]
        line = json.dumps(
            [group, counter[0], label, snap.dump(payload)], sort_keys=True
        )
        counter[0] += 1
        per_group[group] = per_group.get(group, 0) + 1
        print(line)

    # ---------------- input generators ----------------

    def mknodes(rng, n, kind):
        nodes = []
        for i in range(n):
            if kind == "int":
                pos = rng.randint(-50, 200)
                w = rng.randint(1, 60)
            elif kind == "float":
                pos = rng.uniform(-100.0, 900.0)
                w = rng.uniform(0.1, 80.0)
            elif kind == "ties":
                pos = rng.choice([0, 10, 10, 10.0, 25, -5])
                w = rng.choice([10, 20, 50])
            elif kind == "cluster":
                pos = 100 + rng.choice([0, 0.5, 1, 2, 3]) + (i // 7) * 400
                w = rng.choice([30, 50, 50.5, 75])
            elif kind == "neg":
                pos = -rng.uniform(0, 500)
                w = rng.choice([0, 1, 5.5, 40, 120])
            elif kind == "wide":
                pos = rng.randint(0, 1000)
                w = rng.choice([200, 400, 800, 1200])
            else:
                pos = i
                w = 50
            data = rng.choice([None, i, "d%d" % i, {"k": i}, (i, "t")])
            nodes.append(Node(pos, w, data))
        return nodes

    KINDS = ["int", "float", "ties", "cluster", "neg", "wide", "seq"]
    SIZES = [0, 1, 2, 3, 4, 5, 7, 10, 13, 20, 33]

    def mkoptions(rng, algo=None):
        opts = {}
        if algo is not None:
            opts["algorithm"] = algo
        if rng.random() < 0.8:
            opts["layerWidth"] = rng.choice(
                [0, None, 40, 50, 100, 100, 250, 1000, 12.5, 333.3]
            )
        if rng.random() < 0.5:
            opts["density"] = rng.choice([0.75, 1, 0.1, 0.5, 2])
        if rng.random() < 0.6:
            opts["nodeSpacing"] = rng.choice([3, 0, 1.5, 10, 0.1])
        if rng.random() < 0.6:
            opts["stubWidth"] = rng.choice([1, 0, 2.5, 7, None])
        return opts

    def safe_for_overlap(dist):
        # algorithm_overlap never terminates when -nodeSpacing > maxWidth
        # (the empty punted list is still "too wide"); avoid those inputs.
        try:
            mw = dist.maxWidthPerLayer()
            sp = dist.options["nodeSpacing"]
            return (mw == mw) and (-sp <= mw)
        except Exception:
            return True

    def prestub(rng, nodes, prob):
        """Give some nodes an already existing (stale) stub chain."""
        extra = []
        for node in nodes:
            if rng.random() < prob:
                s = node.createStub(rng.choice([1, 2, None]))
                extra.append(s)
                if rng.random() < 0.3:
                    extra.append(s.createStub(1))
        return extra

    scale = lambda g, base: base * (3 if g == FOCUS else 1)

    # ---------------- group: distribute ----------------

    def group_distribute():
        g = "distribute"
        rng = random.Random(1001)
        algos = ["overlap", "simple", "none", "roundRobin", "bogus", 7, None]
        # degenerate "nodes" arguments
        for algo in algos + ["<default>", "<missing>"]:
            for label, arg in [
                ("None", None),
                ("emptylist", []),
                ("emptytuple", ()),
                ("zero", 0),
                ("emptystr", ""),
                ("emptydict", {}),
            ]:
                if algo == "<default>":
                    dist = Distributor()
                elif algo == "<missing>":
                    dist = Distributor()
                    del dist.options["algorithm"]
                else:
                    dist = Distributor({"algorithm": algo})
                emit(
                    g,
                    "degenerate %r %s" % (algo, label),
                    [arg, dist.options],
                    lambda: dist.distribute(arg),
                )
        # non-list iterables / bad element types
        for algo in ["overlap", "simple", "none", "bogus"]:
            dist = Distributor({"algorithm": algo, "layerWidth": 100})
            nodes = mknodes(rng, 6, "int")
            gen = (x for x in nodes)
            emit(g, "generator " + algo, [nodes, dist.options],
                 lambda: dist.distribute(gen))
            tup = tuple(mknodes(rng, 6, "int"))
            emit(g, "tuple " + algo, [tup, dist.options],
                 lambda: dist.distribute(tup))
            bad = [1, 2, 3]
            emit(g, "ints " + algo, [bad, dist.options],
                 lambda: dist.distribute(bad))
            mixed = mknodes(rng, 3, "int") + ["x"]
            emit(g, "mixed " + algo, [mixed, dist.options],
                 lambda: dist.distribute(mixed))
        # missing option keys
        for key in ["algorithm", "layerWidth", "density", "nodeSpacing", "stubWidth"]:
            for algo in ["overlap", "simple", "none"]:
                for n in [0, 1, 8]:
                    dist = Distributor({"algorithm": algo, "layerWidth": 100})
                    del dist.options[key]
                    nodes = mknodes(rng, n, "cluster")
                    emit(
                        g,
                        "missing %s %s n=%d" % (key, algo, n),
                        [nodes, dist.options],
                        lambda: dist.distribute(nodes),
                    )
        # the main randomised sweep
        reps = scale(g, 2)
        for rep in range(reps):
            for algo in algos + ["<default>"]:
                for kind in KINDS:
                    for n in SIZES:
                        opts = mkoptions(rng, None if algo == "<default>" else algo)
                        dist = Distributor(opts)
                        if dist.options["algorithm"] == "overlap" and not safe_for_overlap(dist):
                            continue
                        nodes = mknodes(rng, n, kind)
                        extra = prestub(rng, nodes, 0.2) if rep % 2 else []
                        original_order = list(nodes)
                        emit(
                            g,
                            "sweep %r %s n=%d rep=%d" % (algo, kind, n, rep),
                            [nodes, original_order, extra, dist.options],
                            lambda: dist.distribute(nodes),
                        )
        # repeated distribution on the same nodes (stale stubs stay around)
        for algo in ["overlap", "simple"]:
            for kind in KINDS:
                dist = Distributor({"algorithm": algo, "layerWidth": 120})
                nodes = mknodes(rng, 12, kind)
                first = []
                emit(g, "twice-1 %s %s" % (algo, kind), [nodes, dist.options],
                     lambda: first.append(dist.distribute(nodes)) or first[0])
                emit(g, "twice-2 %s %s" % (algo, kind), [nodes, first, dist.options],
                     lambda: dist.distribute(nodes))
        # subclass overriding the hooks that distribute() relies on
        class Sub(Distributor):
            def needToSplit(self, nodes):
                return len(nodes) > 3

            def algorithm_roundRobin(self, nodes):
                return [nodes[0::2], nodes[1::2]]

        for algo in ["overlap", "simple", "roundRobin", "none", "bogus"]:
            for n in [2, 3, 4, 9]:
                dist = Sub({"algorithm": algo, "layerWidth": 90})
                nodes = mknodes(rng, n, "cluster")
                emit(g, "subclass %s n=%d" % (algo, n), [nodes, dist.options],
                     lambda: dist.distribute(nodes))

    # ---------------- group: algorithm_simple ----------------

    def group_simple():
        g = "simple"
        rng = random.Random(2002)
        reps = scale(g, 4)
        for rep in range(reps):
            for kind in KINDS:
                for n in SIZES:
                    opts = mkoptions(rng, "simple")
                    dist = Distributor(opts)
                    nodes = mknodes(rng, n, kind)
                    if rep % 2:
                        nodes.sort(key=lambda x: x.idealPos)
                    extra = prestub(rng, nodes, 0.15) if rep % 3 == 2 else []
                    emit(
                        g,
                        "direct %s n=%d rep=%d" % (kind, n, rep),
                        [nodes, extra, dist.options],
                        lambda: dist.algorithm_simple(nodes),
                    )
        # forced layer counts through a subclass (0, negative, 1, many, float)
        for forced in [0, -1, -2, 1, 2, 3, 5, 8, 2.0, "2", None]:
            class Forced(Distributor):
                def estimateRequiredLayers(self, nodes, _f=forced):
                    return _f

            for n in [0, 1, 2, 5, 9]:
                for sw in ["<default>", 0, 4.5, "<missing>"]:
                    dist = Forced({"algorithm": "simple"})
                    if sw == "<missing>":
                        del dist.options["stubWidth"]
                    elif sw != "<default>":
                        dist.options["stubWidth"] = sw
                    nodes = mknodes(rng, n, "int")
                    emit(
                        g,
                        "forced %r n=%d sw=%r" % (forced, n, sw),
                        [nodes, dist.options],
                        lambda: dist.algorithm_simple(nodes),
                    )
        # bad inputs
        dist = Distributor({"layerWidth": 50})
        for label, arg in [("None", None), ("ints", [1, 2, 3]), ("tuple", tuple(mknodes(rng, 7, "int")))]:
            emit(g, "bad " + label, [arg, dist.options], lambda: dist.algorithm_simple(arg))

    # ---------------- group: algorithm_overlap ----------------

    def group_overlap():
        g = "overlap"
        rng = random.Random(3003)
        reps = scale(g, 4)
        for rep in range(reps):
            for kind in KINDS:
                for n in SIZES:
                    opts = mkoptions(rng, "overlap")
                    dist = Distributor(opts)
                    if not safe_for_overlap(dist):
                        continue
                    nodes = mknodes(rng, n, kind)
                    if rep % 2:
                        nodes.sort(key=lambda x: x.idealPos)
                    extra = prestub(rng, nodes, 0.25) if rep % 3 == 2 else []
                    emit(
                        g,
                        "direct %s n=%d rep=%d" % (kind, n, rep),
                        [nodes, extra, dist.options],
                        lambda: dist.algorithm_overlap(nodes),
                    )
        # inputs that already contain stubs (isStub() is true for them), so
        # that both outcomes of the "is it a stub" test are taken in the
        # stub creation phase
        for rep in range(scale(g, 12)):
            n = [3, 5, 8, 12, 20][rep % 5]
            dist = Distributor({
                "layerWidth": rng.choice([60, 100, 150, 300]),
                "density": rng.choice([0.75, 1]),
                "stubWidth": rng.choice([1, 2, 10]),
            })
            base = mknodes(rng, n, rng.choice(["int", "cluster", "ties", "seq"]))
            stubs = [b.createStub(rng.choice([5, 20, 45, 70]))
                     for b in base if rng.random() < 0.6]
            stubs2 = [s.createStub(rng.choice([30, 55])) for s in stubs[::2]]
            nodes = base + stubs + stubs2
            rng.shuffle(nodes)
            if rep % 2:
                nodes.sort(key=lambda x: x.idealPos)
            emit(g, "stubs-in-input n=%d rep=%d" % (n, rep),
                 [nodes, dist.options],
                 lambda: dist.algorithm_overlap(nodes))
            nodes2 = list(nodes)
            dist2 = Distributor(dict(dist.options))
            emit(g, "stubs-in-input via distribute n=%d rep=%d" % (n, rep),
                 [nodes2, dist2.options],
                 lambda: dist2.distribute(nodes2))
        # narrow layers => many layers, long stub chains
        for lw in [10, 30, 60, 61, 100, 200]:
            for sw in [0, 1, 5, 50, "<missing>"]:
                for n in [1, 2, 3, 6, 15]:
                    dist = Distributor({"layerWidth": lw, "density": 1})
                    if sw == "<missing>":
                        del dist.options["stubWidth"]
                    else:
                        dist.options["stubWidth"] = sw
                    nodes = mknodes(rng, n, rng.choice(KINDS))
                    emit(
                        g,
                        "narrow lw=%r sw=%r n=%d" % (lw, sw, n),
                        [nodes, dist.options],
                        lambda: dist.algorithm_overlap(nodes),
                    )
        # subclass with its own hooks
        class Sub(Distributor):
            def maxWidthPerLayer(self):
                return 77

            def computeRequiredWidth(self, nodes):
                return 40 * len(nodes)

        for n in [0, 1, 2, 3, 4, 10]:
            dist = Sub({})
            nodes = mknodes(rng, n, "cluster")
            emit(g, "subclass n=%d" % n, [nodes, dist.options],
                 lambda: dist.algorithm_overlap(nodes))
        # bad inputs
        dist = Distributor({"layerWidth": 50})
        for label, arg in [("None", None), ("ints", [1, 2, 3]),
                           ("tuple", tuple(mknodes(rng, 7, "int"))),
                           ("mixed", mknodes(rng, 4, "int") + [None])]:
            emit(g, "bad " + label, [arg, dist.options], lambda: dist.algorithm_overlap(arg))

    # ---------------- group: computeRequiredWidth / estimateRequiredLayers ----

    def group_width():
        g = "width"
        rng = random.Random(4004)
        reps = scale(g, 2)
        for rep in range(reps):
            for kind in KINDS:
                for n in SIZES:
                    opts = mkoptions(rng)
                    if rng.random() < 0.2:
                        opts["nodeSpacing"] = rng.choice([-1, -7.25, 1e-9, 1e16])
                    if rng.random() < 0.15:
                        opts["density"] = rng.choice([0, -1, float("inf"), float("nan")])
                    dist = Distributor(opts)
                    nodes = mknodes(rng, n, kind)
                    if rng.random() < 0.2 and nodes:
                        nodes[rng.randrange(len(nodes))].width = rng.choice(
                            [1e17, -3, 0.1, 1e-17, float("inf")]
                        )
                    watched = [nodes, dist.options]
                    lab = "%s n=%d rep=%d" % (kind, n, rep)
                    emit(g, "crw " + lab, watched, lambda: dist.computeRequiredWidth(nodes))
                    emit(g, "erl " + lab, watched, lambda: dist.estimateRequiredLayers(nodes))
                    emit(g, "nts " + lab, watched, lambda: dist.needToSplit(nodes))
                    emit(g, "mwl " + lab, watched, lambda: dist.maxWidthPerLayer())
        # missing keys, bad args, generators, subclasses
        for key in ["layerWidth", "density", "nodeSpacing"]:
            for n in [0, 1, 5]:
                dist = Distributor({"layerWidth": 100})
                del dist.options[key]
                nodes = mknodes(rng, n, "int")
                emit(g, "crw missing %s n=%d" % (key, n), [nodes, dist.options],
                     lambda: dist.computeRequiredWidth(nodes))
                emit(g, "erl missing %s n=%d" % (key, n), [nodes, dist.options],
                     lambda: dist.estimateRequiredLayers(nodes))
        for lw in [0, None, "", [], 0.0, False, True, 1, "100", -100]:
            for n in [0, 3]:
                dist = Distributor({"layerWidth": lw})
                nodes = mknodes(rng, n, "wide")
                emit(g, "erl lw=%r n=%d" % (lw, n), [nodes, dist.options],
                     lambda: dist.estimateRequiredLayers(nodes))
        dist = Distributor({"layerWidth": 100})
        for label, arg in [("None", None), ("ints", [1, 2]), ("str", "ab"),
                           ("gen", (x for x in mknodes(rng, 4, "int"))),
                           ("strwidth", [Node(1, "w")]),
                           ("nonewidth", [Node(1, None)])]:
            emit(g, "crw bad " + label, [dist.options], lambda: dist.computeRequiredWidth(arg))
        for label, arg in [("None", None), ("ints", [1, 2]), ("str", "ab"),
                           ("gen", (x for x in mknodes(rng, 4, "int"))),
                           ("strwidth", [Node(1, "w")])]:
            emit(g, "erl bad " + label, [dist.options], lambda: dist.estimateRequiredLayers(arg))

        class Sub(Distributor):
            calls = []

            def computeRequiredWidth(self, nodes):
                Sub.calls.append("crw")
                return 1234.5

            def maxWidthPerLayer(self):
                Sub.calls.append("mwl")
                return 100

        for lw in [0, 10]:
            Sub.calls = []
            dist = Sub({"layerWidth": lw})
            emit(g, "erl subclass lw=%r" % lw, [Sub.calls, dist.options],
                 lambda: dist.estimateRequiredLayers([]))

    # ---------------- group: Node.createStub / removeStub ----------------

    def group_stub():
        g = "stub"
        rng = random.Random(5005)
        reps = scale(g, 2)
        widths = ["<noarg>", None, 0, 1, 2.5, -4, "w"]
        for rep in range(reps):
            for kind in KINDS:
                for wi, w in enumerate(widths):
                    nodes = mknodes(rng, 3, kind)
                    node = nodes[0]
                    node.currentPos = rng.choice([node.idealPos, 17, -3.5, None])
                    node.layerIndex = rng.randint(0, 4)
                    mk = (lambda nd: nd.createStub()) if w == "<noarg>" else (
                        lambda nd, _w=w: nd.createStub(_w))
                    lab = "%s w=%r rep=%d" % (kind, w, rep)
                    emit(g, "create " + lab, [node], lambda: mk(node))
                    # stub of the stub, then remove in various orders
                    top = node.parent
                    emit(g, "create2 " + lab, [node, top], lambda: mk(top))
                    toptop = top.parent
                    emit(g, "isStub " + lab, [node, top, toptop],
                         lambda: [node.isStub(), top.isStub(), toptop.isStub()])
                    emit(g, "paths " + lab, [node, top, toptop],
                         lambda: [node.getPathToRoot(), toptop.getPathFromRoot(), node.getRoot()])
                    which = [node, top, toptop][(wi + rep) % 3]
                    emit(g, "remove " + lab, [node, top, toptop], lambda: which.removeStub())
                    emit(g, "remove-again " + lab, [node, top, toptop], lambda: which.removeStub())
                    emit(g, "remove-node " + lab, [node, top, toptop], lambda: node.removeStub())
                    # re-stub a node whose old parent is still around (stale)
                    other = nodes[1]
                    old = other.createStub(1)
                    emit(g, "restub " + lab, [other, old], lambda: mk(other))
                    emit(g, "remove-restub " + lab, [other, old], lambda: other.removeStub())
        # exotic parent values for removeStub
        class Holder(object):
            pass

        class Falsy(object):
            def __init__(self):
                self.child = "untouched"

            def __bool__(self):
                return False

        class Sized(object):
            def __init__(self, n):
                self.n = n
                self.child = "untouched"

            def __len__(self):
                return self.n

        class ReadOnly(object):
            __slots__ = ()

        for label, mkparent in [
            ("None", lambda: None),
            ("zero", lambda: 0),
            ("emptystr", lambda: ""),
            ("emptylist", lambda: []),
            ("false", lambda: False),
            ("five", lambda: 5),
            ("str", lambda: "p"),
            ("list", lambda: [1]),
            ("holder", Holder),
            ("falsy-object", Falsy),
            ("sized0", lambda: Sized(0)),
            ("sized3", lambda: Sized(3)),
            ("readonly", ReadOnly),
            ("node", lambda: Node(9, 9, "p")),
            ("self", lambda: "SELF"),
        ]:
            for k in range(3):
                node = Node(k, 10 + k, "n%d" % k)
                p = mkparent()
                if isinstance(p, str) and p == "SELF":
                    p = node
                node.parent = p
                watched = [node]
                if not isinstance(p, ReadOnly):
                    watched.append(p)
                emit(g, "remove exotic %s %d" % (label, k), watched, lambda: node.removeStub())
                emit(g, "remove exotic again %s %d" % (label, k), watched, lambda: node.removeStub())
        # nodes with missing attributes
        for attr in ["idealPos", "currentPos", "data", "parent", "child", "width"]:
            node = Node(3, 4, "x")
            delattr(node, attr)
            emit(g, "create missing " + attr, [node], lambda: node.createStub(2))
            node2 = Node(3, 4, "x")
            node2.createStub(1)
            delattr(node2, attr)
            emit(g, "remove missing " + attr, [node2], lambda: node2.removeStub())
        # subclass of Node: createStub must still build a plain Node
        class MyNode(Node):
            pass

        for k in range(5):
            node = MyNode(k, 3, None)
            emit(g, "subclass create %d" % k, [node], lambda: node.createStub(k))
            emit(g, "subclass remove %d" % k, [node], lambda: node.removeStub())

    groups = {
        "distribute": group_distribute,
        "simple": group_simple,
        "overlap": group_overlap,
        "width": group_width,
        "stub": group_stub,
    }
    for name in ALL_GROUPS:
        groups[name]()
    print(json.dumps(["counts", per_group], sort_keys=True))


# --------------------------------------------------------------------------
# driver
# --------------------------------------------------------------------------


def run_tree(tree):
    env = dict(os.environ)
    env["PYTHONPATH"] = os.path.realpath(tree)
    env["PYTHONHASHSEED"] = "0"
    env["PYTHONDONTWRITEBYTECODE"] = "1"
    proc = subprocess.run(
        [sys.executable, os.path.abspath(__file__), "--worker", tree],
        env=env,
        stdout=subprocess.PIPE,
        stderr=subprocess.PIPE,
        universal_newlines=True,
    )
    if proc.returncode != 0:
        print("DIFFERENT (worker for %s crashed)" % tree)
        print(proc.stderr[-4000:])
        sys.exit(1)
    return proc.stdout.splitlines()


def main(argv):
    if len(argv) == 3 and argv[1] == "--worker":
        worker(argv[2])
        return 0
    if len(argv) != 3:
        print(__doc__)
        return 2
    a = run_tree(argv[1])
    b = run_tree(argv[2])
    diffs = []
    if len(a) != len(b):
        diffs.append("number of cases differs: %d vs %d" % (len(a), len(b)))
    for la, lb in zip(a, b):
        if la != lb:
            diffs.append("ORIG: %s\nNEW : %s" % (la[:1500], lb[:1500]))
    counts = json.loads(a[-1])[1] if a else {}
    total = sum(counts.values())
    minimum = 200
    if counts.get(FOCUS, 0) < minimum or total < minimum:
        diffs.append("too few cases executed: %r" % (counts,))
    if diffs:
        print("DIFFERENT")
        print("%d differing item(s); first few:" % len(diffs))
        for d in diffs[:5]:
            print(d)
            print("-" * 60)
        return 1
    print("cases per group: %s (total %d, focus=%s)" % (
        json.dumps(counts, sort_keys=True), total, FOCUS))
    print("EQUIVALENT")
    return 0


if __name__ == "__main__":
    sys.exit(main(sys.argv))
