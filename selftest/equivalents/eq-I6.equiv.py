#!/usr/bin/env python
# -*- coding: utf-8 -*-
"""
Differential test: python equiv.py <original-checkout> <refactored-checkout>

Imports the ``labella`` package from each of the two checkouts in turn,
runs the same (seeded) randomised and edge-case workload against the layout
engine (Force / Distributor / removeOverlap / Node) and the VPSC solver, and
compares every recorded observation exactly (repr-level, so floats are
bit-identical and int/float type changes are visible).

Prints ``EQUIVALENT (<n> cases)`` and exits 0 when everything matches,
otherwise prints the first difference and exits 1.
"""

import functools
import math
import os
import random
import signal
import sys

# Relative weight of every section; the refactoring under test gets a boost.
FOCUS = "distributor,engine"
WEIGHTS = {"engine": 1.0, "solver": 1.0, "distributor": 1.0,
           "removeOverlap": 1.0, "node": 1.0}
for _f in FOCUS.split(","):
    if _f in WEIGHTS:
        WEIGHTS[_f] = 2.5

# Optional down-scaling for quick smoke runs (default: full workload).
SCALE = float(os.environ.get("EQUIV_SCALE", "1"))

MODULES = ["force", "distributor", "removeOverlap", "node", "vpsc",
           "metrics", "utils"]


class Mods(object):
    pass


def purge():
    for name in [m for m in sys.modules
                 if m == "labella" or m.startswith("labella.")]:
        del sys.modules[name]


def load(root):
    """Import labella from ``root`` only, with a clean module cache."""
    import importlib

    root = os.path.realpath(root)
    purge()
    importlib.invalidate_caches()
    sys.path.insert(0, root)
    try:
        mods = Mods()
        pkg = importlib.import_module("labella")
        mods.labella = pkg
        allm = [pkg]
        for name in MODULES:
            m = importlib.import_module("labella." + name)
            setattr(mods, name, m)
            allm.append(m)
        # every labella module that got imported must come from ``root``
        for name, m in list(sys.modules.items()):
            if name == "labella" or name.startswith("labella."):
                allm.append(m)
        for m in allm:
            f = os.path.realpath(m.__file__)
            assert f.startswith(root + os.sep), (
                "module %s loaded from %s, expected under %s"
                % (m.__name__, f, root)
            )
    finally:
        sys.path.remove(root)
    mods.root = root
    return mods


# --------------------------------------------------------------------------
# helpers
# --------------------------------------------------------------------------


class WallClock(Exception):
    pass


def _alarm(signum, frame):
    raise WallClock("wall clock limit")


class StepLimit(Exception):
    pass


def R(x):
    """Exact representation of a value (type sensitive, bit exact)."""
    if isinstance(x, float):
        return "f:" + (x.hex() if x == x and x not in (math.inf, -math.inf)
                       else repr(x))
    if isinstance(x, bool) or x is None:
        return repr(x)
    if isinstance(x, int):
        return "i:%d" % x
    if isinstance(x, (list, tuple)):
        return [type(x).__name__] + [R(y) for y in x]
    if isinstance(x, dict):
        return ["dict"] + [[R(k), R(v)] for k, v in x.items()]
    return type(x).__name__ + ":" + repr(x)


def guarded(fn, *args, **kwargs):
    """Run fn, returning ('ok', value) or ('exc', type, message)."""
    try:
        return ("ok", fn(*args, **kwargs))
    except WallClock:
        raise
    except RecursionError as e:
        return ("exc", "RecursionError", "")
    except Exception as e:  # noqa
        return ("exc", type(e).__name__, str(e))


def gres(g, conv=R):
    if g[0] == "ok":
        return ["ok", conv(g[1])]
    return list(g)


class NodeIds(object):
    """Stable numbering of node objects by discovery order."""

    def __init__(self):
        self.ids = {}
        self.order = []

    def get(self, n):
        if n is None:
            return None
        if not hasattr(n, "idealPos"):
            return "?" + repr(n)
        k = id(n)
        if k not in self.ids:
            self.ids[k] = len(self.order)
            self.order.append(n)
        return self.ids[k]

    def close(self):
        """Follow parent/child/overlaps links transitively."""
        i = 0
        while i < len(self.order):
            n = self.order[i]
            self.get(getattr(n, "parent", None))
            self.get(getattr(n, "child", None))
            for o in getattr(n, "overlaps", None) or []:
                self.get(o)
            i += 1

    def dump(self):
        self.close()
        out = []
        for n in self.order:
            ov = getattr(n, "overlaps", None)
            out.append([
                R(n.idealPos), R(n.currentPos), R(n.width), R(n.layerIndex),
                self.get(n.parent), self.get(n.child), R(n.data),
                R(n.overlapCount), R(n.overlap),
                R(getattr(n, "targetPos", "<unset>")),
                None if ov is None else sorted(self.get(o) for o in ov),
                gres(guarded(n.isStub)),
                R([n.x, n.dx, n.y, n.dy, n.w, n.h]),
                sorted(k for k in vars(n)),
            ])
        return out


def snap_layers(ids, layers):
    if layers is None:
        return None
    if not isinstance(layers, list):
        return R(layers)
    out = []
    for layer in layers:
        if isinstance(layer, list):
            out.append([ids.get(n) for n in layer])
        else:
            out.append(R(layer))
    return out


# --------------------------------------------------------------------------
# random inputs
# --------------------------------------------------------------------------


def rand_pos(rng, mode):
    if mode == 0:  # small ints, many ties
        return rng.randint(0, 30)
    if mode == 1:  # wide ints
        return rng.randint(-200, 1500)
    if mode == 2:  # floats
        return rng.uniform(-50, 1200)
    if mode == 3:  # coarse floats with ties
        return rng.choice([0.5, 1.25, 100.0, 100.5, 333.3, 999.9, -7.75])
    if mode == 4:  # clustered
        return rng.choice([10, 400, 800]) + rng.randint(-3, 3)
    return rng.choice([0, 1, 2, 3, 1000])


def rand_width(rng, mode):
    if mode == 0:
        return 50
    if mode == 1:
        return rng.randint(1, 120)
    if mode == 2:
        return rng.uniform(0.5, 90)
    if mode == 3:
        return rng.choice([10, 10, 20, 35.5, 70])
    return rng.choice([0, 1, 5, 50, 200])


def rand_nodes(mods, rng, nmax=40):
    r = rng.random()
    if r < 0.04:
        n = 0
    elif r < 0.10:
        n = 1
    elif r < 0.18:
        n = 2
    elif r < 0.9:
        n = rng.randint(3, nmax)
    else:
        n = rng.randint(nmax, nmax * 3)
    pm = rng.randint(0, 5)
    wm = rng.randint(0, 3) if rng.random() < 0.93 else 4
    nodes = []
    for i in range(n):
        p = rand_pos(rng, pm if rng.random() < 0.9 else rng.randint(0, 5))
        w = rand_width(rng, wm)
        data = rng.choice([None, i, "n%d" % i, {"k": i}])
        if rng.random() < 0.5:
            nodes.append(mods.node.Node(p, w))
        else:
            nodes.append(mods.node.Node(p, w, data))
    if n and rng.random() < 0.02:
        nodes[rng.randrange(n)].idealPos = rng.choice(
            [float("inf"), float("nan"), 1e300, -1e300])
    return nodes


def rand_force_options(rng):
    r = rng.random()
    if r < 0.05:
        return None
    if r < 0.10:
        return {}
    o = {}
    if rng.random() < 0.8:
        o["algorithm"] = rng.choice(
            ["overlap", "overlap", "simple", "simple", "none", "none"]
            if rng.random() < 0.95 else ["roundRobin", "bogus", None])
    if rng.random() < 0.6:
        o["minPos"] = rng.choice([None, 0, 0, 10, -100, 50.5])
    if rng.random() < 0.7:
        o["maxPos"] = rng.choice([None, None, 100, 300, 500, 800, 1000,
                                  1000, 2000.5, 0, -20])
    if rng.random() < 0.5:
        o["density"] = rng.choice([0.85, 0.75, 0.5, 0.3, 1, 1.5, 0.1, 0.01]
                                  if rng.random() < 0.97 else [0])
    if rng.random() < 0.5:
        o["stubWidth"] = rng.choice([1, 1, 2, 5, 0.5, 10, 30, 0])
    if rng.random() < 0.5:
        # (negative spacings can make the layering loop run forever)
        o["nodeSpacing"] = rng.choice([3, 0, 1, 5, 10, 2.5, 40])
    if rng.random() < 0.4:
        o["lineSpacing"] = rng.choice([2, 0, 1, 4, 7.5, 20])
    if rng.random() < 0.05:
        o["layerWidth"] = rng.choice([None, 100, 1000])
    if rng.random() < 0.05:
        o["extra"] = rng.choice([1, "x", None])
    return o


# --------------------------------------------------------------------------
# engine cases
# --------------------------------------------------------------------------


def snap_force(mods, force, ids, user_list):
    if not hasattr(ids, "first_options"):
        ids.first_options = force.options
        ids.first_dis = force.distributor
        ids.first_dis_options = force.distributor.options
    layers = guarded(force.getLayers)
    lay = layers[1] if layers[0] == "ok" else None
    out = {
        "getLayers": (["ok", snap_layers(ids, lay)] if layers[0] == "ok"
                      else list(layers)),
        "layers_attr_is_getLayers": lay is force.layers,
        "nodes_is_user": force._nodes is user_list,
        "user_order": [ids.get(n) for n in user_list]
        if isinstance(user_list, list) else R(user_list),
        "layer0_is_user": bool(isinstance(lay, list) and lay
                               and lay[0] is user_list),
        "options": R(force.options),
        "dis_options": R(force.distributor.options),
        "force_attr": R(force.force),
        "same_dicts": [force.options is ids.first_options,
                       force.distributor is ids.first_dis,
                       force.distributor.options is ids.first_dis_options],
        "attrs": sorted(vars(force)),
        "default_force": R(mods.force.DEFAULT_OPTIONS),
        "default_dis": R(mods.distributor.DEFAULT_OPTIONS),
        "default_ro": R(mods.removeOverlap.DEFAULT_OPTIONS),
    }
    out["nodes"] = ids.dump()
    return sorted(out.items())


def case_engine(mods, rng):
    obs = []
    opts = rand_force_options(rng)
    opts_copy = None if opts is None else dict(opts)
    ids = NodeIds()
    mode = rng.random()
    if mode < 0.5:
        g = guarded(mods.force.Force, opts)
    elif mode < 0.75:
        g = guarded(mods.force.Force)
        if g[0] == "ok":
            obs.append(gres(guarded(g[1].set_options, opts)))
    else:
        g = guarded(mods.force.Force, None)
        if g[0] == "ok":
            obs.append(gres(guarded(g[1].set_options)))
            obs.append(gres(guarded(g[1].set_options, opts)))
    if g[0] != "ok":
        return [list(g)]
    force = g[1]
    # the options dict passed in must not be modified / aliased
    obs.append(["opts_unchanged", R(opts) == R(opts_copy),
                force.options is opts])
    nodes = rand_nodes(mods, rng)
    for n in nodes:
        ids.get(n)
    obs.append(gres(guarded(force.nodes, nodes)))
    obs.append(["nodes()", guarded(force.nodes)[0],
                force.nodes() is nodes if nodes else None])
    obs.append(["pre", snap_force(mods, force, ids, nodes)])
    steps = rng.randint(1, 3)
    for s in range(steps):
        obs.append(["compute", gres(guarded(force.compute))])
        obs.append(snap_force(mods, force, ids, nodes))
        r = rng.random()
        if r < 0.35:
            o2 = rand_force_options(rng)
            arg = o2
            if o2 and rng.random() < 0.1:
                arg = list(o2.items())  # legal for dict.update
            elif rng.random() < 0.03:
                arg = rng.choice([{1: 2}, 0, [], "ab", [("a",)]])
            obs.append(["set_options", R(arg),
                        gres(guarded(force.set_options, arg))])
        elif r < 0.45:
            nodes = rand_nodes(mods, rng, 25)
            for n in nodes:
                ids.get(n)
            obs.append(["nodes2", gres(guarded(force.nodes, nodes))])
        elif r < 0.55:
            # user tampering between computes
            for n in nodes:
                if rng.random() < 0.3:
                    n.idealPos = rand_pos(rng, rng.randint(0, 5))
        elif r < 0.6 and nodes:
            rng.shuffle(nodes)
    if rng.random() < 0.3:
        for name in ["overflow", "overlapCount", "displacement",
                     "overDensity", "pathLength", "weightedAllocatedSpace"]:
            obs.append([name, gres(guarded(force.metric, name))])
    return obs


def case_engine_deep(mods, rng, fixed=None):
    """One big single-layer cluster: probes the recursion depth limit."""
    if fixed is not None:
        return _engine_deep(mods, rng, fixed, 50, True, "none")
    n = rng.choice([120, 180, 200, 220, 235, 240, 243, 244, 245, 246, 247,
                    248, 249, 250, 251, 252, 253, 254, 255, 256, 258, 260,
                    270, 300])
    w = rng.choice([10, 50])
    same = rng.random() < 0.7
    algo = rng.choice(["none", "overlap", "simple"])
    return _engine_deep(mods, rng, n, w, same, algo)


def _engine_deep(mods, rng, n, w, same, algo):
    nodes = [mods.node.Node(500 if same else rng.randint(0, 40), w)
             for _ in range(n)]
    ids = NodeIds()
    for x in nodes:
        ids.get(x)
    force = mods.force.Force({"algorithm": algo, "minPos": rng.choice([0, None]),
                              "maxPos": None})
    force.nodes(nodes)
    obs = [["n", n, algo]]
    obs.append(["compute", gres(guarded(force.compute))])
    obs.append(snap_force(mods, force, ids, nodes))
    obs.append(["compute", gres(guarded(force.compute))])
    obs.append(snap_force(mods, force, ids, nodes))
    return obs


# --------------------------------------------------------------------------
# distributor cases
# --------------------------------------------------------------------------


def rand_dis_options(rng):
    r = rng.random()
    if r < 0.08:
        return None
    if r < 0.14:
        return {}
    o = {}
    if rng.random() < 0.85:
        o["algorithm"] = rng.choice(
            ["overlap", "overlap", "simple", "simple", "none", "roundRobin"]
            if rng.random() < 0.95 else ["bogus", None, 3])
    if rng.random() < 0.8:
        o["layerWidth"] = rng.choice([1000, 1000, 500, 300, 100, 50, None, 0,
                                      250.5])
    if rng.random() < 0.6:
        o["density"] = rng.choice([0.75, 0.85, 0.5, 0.25, 1, 2, 0.05]
                                  if rng.random() < 0.96 else [0])
    if rng.random() < 0.5:
        o["nodeSpacing"] = rng.choice([3, 0, 1, 10, 2.5])
    if rng.random() < 0.5:
        o["stubWidth"] = rng.choice([1, 2, 5, 0.5, 25, 0, None])
    if rng.random() < 0.04:
        o["extra"] = 1
    return o


def case_distributor(mods, rng):
    obs = []
    opts = rand_dis_options(rng)
    opts_copy = None if opts is None else dict(opts)
    r = rng.random()
    if r < 0.1 and opts is None:
        g = guarded(mods.distributor.Distributor)
    elif r < 0.13:
        # exotic but legal for dict.update
        pairs = list((opts or {}).items())
        g = guarded(mods.distributor.Distributor, pairs)
    elif r < 0.15:
        g = guarded(mods.distributor.Distributor, rng.choice([0, [], (), 5]))
    else:
        g = guarded(mods.distributor.Distributor, opts)
    if g[0] != "ok":
        return [list(g)]
    d = g[1]
    obs.append(["opts", R(d.options), d.options is opts,
                R(opts) == R(opts_copy), sorted(vars(d))])
    if rng.random() < 0.03:
        key = rng.choice(["algorithm", "stubWidth", "nodeSpacing", "density",
                          "layerWidth"])
        d.options.pop(key, None)
        obs.append(["popped", key])
    nodes = rand_nodes(mods, rng)
    ids = NodeIds()
    for n in nodes:
        ids.get(n)
    if rng.random() < 0.15 and nodes:
        # leftovers from an earlier run: some nodes already have stubs
        for n in rng.sample(nodes, max(1, len(nodes) // 4)):
            s = n.createStub(rng.choice([1, 2, 5]))
            ids.get(s)
            if rng.random() < 0.3:
                nodes.append(s)
    obs.append(["crw", gres(guarded(d.computeRequiredWidth, nodes))])
    obs.append(["mwpl", gres(guarded(d.maxWidthPerLayer))])
    obs.append(["erl", gres(guarded(d.estimateRequiredLayers, nodes))])
    obs.append(["nts", gres(guarded(d.needToSplit, nodes))])
    before = list(nodes)
    which = rng.random()
    if which < 0.7:
        g = guarded(d.distribute, nodes)
        tag = "distribute"
    elif which < 0.8:
        g = guarded(d.algorithm_simple, sorted(nodes, key=lambda x: x.idealPos)
                    if rng.random() < 0.5 else nodes)
        tag = "simple"
    elif which < 0.9:
        g = guarded(d.algorithm_overlap, nodes)
        tag = "overlap"
    elif which < 0.95:
        g = guarded(d.algorithm_roundRobin, nodes)
        tag = "rr"
    else:
        g = guarded(d.countIdealOverlaps, nodes)
        tag = "cio"
    if g[0] == "ok":
        lay = g[1]
        obs.append([tag, "ok", snap_layers(ids, lay) if isinstance(lay, list)
                    else R(lay),
                    bool(isinstance(lay, list) and lay and lay[0] is nodes)])
    else:
        obs.append([tag] + list(g))
    obs.append(["input_same_order", [ids.get(n) for n in nodes],
                len(before) == len(nodes)
                and all(a is b for a, b in zip(before, nodes))])
    obs.append(["nodes", ids.dump()])
    obs.append(["opts_after", R(d.options)])
    if rng.random() < 0.3:
        # second distribution on the same (now stubbed) nodes after cleanup
        for n in nodes:
            n.removeStub()
        g = guarded(d.distribute, nodes)
        obs.append(["again", gres(g, lambda l: snap_layers(ids, l))])
        obs.append(["nodes", ids.dump()])
    return obs


# --------------------------------------------------------------------------
# removeOverlap cases
# --------------------------------------------------------------------------


def rand_ro_options(rng):
    r = rng.random()
    if r < 0.1:
        return None
    if r < 0.2:
        return {}
    o = {}
    if rng.random() < 0.5:
        o["lineSpacing"] = rng.choice([2, 0, 1, 5, 7.5, 30])
    if rng.random() < 0.5:
        o["nodeSpacing"] = rng.choice([3, 0, 1, 5, 12.5, -1, 40])
    if rng.random() < 0.6:
        o["minPos"] = rng.choice([None, 0, 0, 25, -300, 12.5])
    if rng.random() < 0.6:
        o["maxPos"] = rng.choice([None, None, 50, 300, 1000, 1000, 2500.5,
                                  -10, 0])
    if rng.random() < 0.05:
        o["algorithm"] = "overlap"
        o["density"] = 0.5
    return o


def case_removeoverlap(mods, rng):
    obs = []
    ids = NodeIds()
    base = rand_nodes(mods, rng, 30)
    for n in base:
        ids.get(n)
    layer = list(base)
    r = rng.random()
    if r < 0.5 and base:
        # a layer as the engine would see it: some entries are stubs whose
        # children live below; some entries have parents placed above
        layer = []
        for n in base:
            q = rng.random()
            if q < 0.3:
                s = n.createStub(rng.choice([1, 2, 5, 0.5]))
                ids.get(s)
                layer.append(s)
            elif q < 0.55:
                s = n.createStub(rng.choice([1, 2, 5]))
                s.currentPos = rand_pos(rng, rng.randint(0, 5))
                ids.get(s)
                layer.append(n)
            else:
                layer.append(n)
        if rng.random() < 0.5:
            rng.shuffle(layer)
    opts = rand_ro_options(rng)
    opts_copy = None if opts is None else dict(opts)
    q = rng.random()
    if q < 0.04 and opts:
        opts = opts_copy = list(opts.items())  # legal for dict.update
    elif q < 0.06:
        opts = opts_copy = rng.choice([0, (), "ab", {1: 2}, [("a",)]])
    g = guarded(mods.removeOverlap.removeOverlap, layer, opts)
    if g[0] == "ok":
        obs.append(["ok", g[1] is layer, snap_layers(ids, [g[1]])
                    if isinstance(g[1], list) else R(g[1])])
    else:
        obs.append(list(g))
    obs.append(["opts_unchanged", R(opts) == R(opts_copy)])
    obs.append(["layer", [ids.get(n) for n in layer]])
    obs.append(["nodes", ids.dump()])
    obs.append(["defaults", R(mods.removeOverlap.DEFAULT_OPTIONS)])
    if rng.random() < 0.3:
        g = guarded(mods.removeOverlap.removeOverlap, layer,
                    rand_ro_options(rng))
        obs.append(["again", g[0], g[1] is layer if g[0] == "ok" else g[1:]])
        obs.append(["nodes", ids.dump()])
    if rng.random() < 0.1:
        obs.append(["last", gres(guarded(mods.removeOverlap.last,
                                         [1, 2, rng.randint(0, 9)]))])
        obs.append(["last_empty", gres(guarded(mods.removeOverlap.last, []))])
        n = mods.node.Node(3, 4)
        n.targetPos = rng.random()
        v = mods.removeOverlap.nodeToVariable(n)
        obs.append(["n2v", R(v.desiredPosition), R(v.weight), R(v.scale),
                    R(v.offset), v.node is n, type(v).__name__,
                    sorted(vars(v))])
    return obs


# --------------------------------------------------------------------------
# node cases
# --------------------------------------------------------------------------


def case_node(mods, rng):
    Node = mods.node.Node
    obs = []
    ids = NodeIds()
    nodes = []
    for i in range(rng.randint(1, 6)):
        p = rand_pos(rng, rng.randint(0, 5))
        w = rand_width(rng, rng.randint(0, 4))
        r = rng.random()
        if r < 0.4:
            n = Node(p, w)
        elif r < 0.8:
            n = Node(p, w, rng.choice([None, 0, "", "lbl", [1], {"a": 1}]))
        else:
            n = Node(idealPos=p, width=w, data=i)
        if rng.random() < 0.5:
            n.currentPos = rand_pos(rng, rng.randint(0, 5))
        if rng.random() < 0.3:
            n.layerIndex = rng.randint(0, 5)
        nodes.append(n)
        ids.get(n)
    # build stub chains
    pool = list(nodes)
    for _ in range(rng.randint(0, 8)):
        n = rng.choice(pool)
        r = rng.random()
        if r < 0.6:
            g = guarded(n.createStub, rng.choice([1, 2, 0, 7.5, None]))
        elif r < 0.8:
            g = guarded(n.createStub)
        else:
            g = guarded(n.createStub, width=rng.choice([3, 4]))
        if g[0] == "ok":
            s = g[1]
            ids.get(s)
            pool.append(s)
            obs.append(["stub", ids.get(n), ids.get(s)])
            if rng.random() < 0.5:
                s.currentPos = rand_pos(rng, rng.randint(0, 5))
        else:
            obs.append(list(g))
    obs.append(["built", ids.dump()])
    for n in list(pool):
        o = rng.choice(pool)
        buf = rng.choice([None, 0, 1, 3, 2.5, -1, 0.0])
        pt = rand_pos(rng, rng.randint(0, 5))
        rec = [ids.get(n), ids.get(o)]
        rec.append(gres(guarded(repr, n)))
        rec.append(gres(guarded(str, n)))
        rec.append(gres(guarded(n.distanceFrom, o)))
        rec.append(gres(guarded(n.displacement)))
        if rng.random() < 0.5:
            rec.append(gres(guarded(n.overlapWithNode, o)))
        else:
            rec.append(gres(guarded(n.overlapWithNode, o, buf)))
        rec.append(gres(guarded(n.overlapWithPoint, pt)))
        rec.append(gres(guarded(n.positionBefore, o, buf)))
        rec.append(gres(guarded(n.positionAfter, o, buf)))
        rec.append(gres(guarded(n.positionBefore, o)))
        rec.append(gres(guarded(n.positionAfter, o)))
        rec.append(gres(guarded(n.currentRight)))
        rec.append(gres(guarded(n.currentLeft)))
        rec.append(gres(guarded(n.idealRight)))
        rec.append(gres(guarded(n.idealLeft)))
        rec.append(gres(guarded(n.isStub)))
        rec.append(gres(guarded(n.getLayerIndex)))
        g = guarded(n.getPathToRoot)
        rec.append([g[0], [ids.get(x) for x in g[1]], type(g[1]).__name__]
                   if g[0] == "ok" else list(g))
        g = guarded(n.getPathFromRoot)
        rec.append([g[0], [ids.get(x) for x in g[1]], type(g[1]).__name__]
                   if g[0] == "ok" else list(g))
        rec.append(gres(guarded(n.getPathToRootLength)))
        g = guarded(n.getRoot)
        rec.append([g[0], ids.get(g[1])] if g[0] == "ok" else list(g))
        g = guarded(n.clone)
        if g[0] == "ok":
            c = g[1]
            rec.append(["clone", c is n, type(c).__name__,
                        [R(c.idealPos), R(c.currentPos), R(c.width),
                         R(c.layerIndex), R(c.data), c.data is n.data,
                         c.parent, c.child, R(c.overlapCount),
                         sorted(vars(c))]])
        else:
            rec.append(list(g))
        obs.append(rec)
    # mutations
    for n in list(pool):
        r = rng.random()
        if r < 0.35:
            g = guarded(n.removeStub)
            obs.append(["removeStub", ids.get(n),
                        [g[0], g[1] is n] if g[0] == "ok" else list(g)])
        elif r < 0.55:
            g = guarded(n.moveToIdealPosition)
            obs.append(["move", ids.get(n), gres(g)])
    obs.append(["after", ids.dump()])
    for n in pool:
        g = guarded(n.getPathToRoot)
        obs.append([ids.get(n),
                    [ids.get(x) for x in g[1]] if g[0] == "ok" else list(g),
                    gres(guarded(n.getPathToRootLength)),
                    ids.get(n.getRoot()), gres(guarded(n.isStub))])
    return obs


# --------------------------------------------------------------------------
# solver cases
# --------------------------------------------------------------------------


def snap_solver(mods, solver, vs, cs):
    vid = {id(v): i for i, v in enumerate(vs)}
    cid = {id(c): i for i, c in enumerate(cs)}
    out = []
    bs = solver.bs
    blocks = []
    bid = {}
    if bs is not None:
        for i, b in enumerate(bs._list):
            bid[id(b)] = i
            blocks.append([
                R(getattr(b, "blockInd", "<unset>")), R(b.posn),
                [vid.get(id(v), "?") for v in b.vars],
                R([b.ps.scale, b.ps.AB, b.ps.AD, b.ps.A2]),
                sorted(vars(b)),
            ])
        out.append(["bs.vs is vs", bs.vs is vs, sorted(vars(bs))])
    out.append(["blocks", blocks])
    vrec = []
    for v in vs:
        blk = getattr(v, "block", None)
        vrec.append([
            R(v.desiredPosition), R(v.weight), R(v.scale), R(v.offset),
            bid.get(id(blk), "<none>" if blk is None else "<detached>"),
            gres(guarded(v.position)),
            gres(guarded(v.dfdv)),
            [cid.get(id(c), "?") for c in getattr(v, "cIn", ["<unset>"])],
            [cid.get(id(c), "?") for c in getattr(v, "cOut", ["<unset>"])],
            sorted(vars(v)),
        ])
    out.append(["vars", vrec])
    crec = []
    for c in cs:
        crec.append([R(c.gap), R(c.equality), R(c.active),
                     R(c.unsatisfiable), R(getattr(c, "lm", "<unset>")),
                     gres(guarded(c.slack)), sorted(vars(c))])
    out.append(["cons", crec])
    out.append(["inactive", [cid.get(id(c), "?") for c in solver.inactive],
                solver.inactive is cs, type(solver.inactive).__name__])
    out.append(["solver", solver.vs is vs, solver.cs is cs,
                sorted(vars(solver))])
    out.append(["cost", gres(guarded(solver.cost))])
    return out


def rand_system(mods, rng):
    V = mods.vpsc.Variable
    C = mods.vpsc.Constraint
    kind = rng.choice(["chain", "chain", "dag", "dag", "parallel", "equality",
                       "cyclic", "cyclic", "mixed", "walls", "empty"])
    n = rng.randint(1, 14) if rng.random() < 0.9 else rng.randint(15, 40)
    if kind == "empty":
        n = rng.randint(0, 3)
    pm = rng.randint(0, 5)
    vs = []
    for i in range(n):
        p = rand_pos(rng, pm)
        r = rng.random()
        if r < 0.55:
            v = V(p)
        elif r < 0.8:
            v = V(p, rng.choice([1, 2, 0.5, 10, 1e10, 3.7]))
        elif r < 0.93:
            v = V(p, rng.choice([1, 2, 0.25]), rng.choice([1, 2, 0.5, 1.5]))
        elif r < 0.97:
            v = V(desiredPosition=p, weight=None, scale=None)
        else:
            v = V(p, rng.choice([0, -1, 1]), rng.choice([1, 1, 0]))
        vs.append(v)
    cs = []

    def gap():
        return rng.choice([3, 3, 0, 1, 10, 25.5, 53, -2, 0.1])

    if n >= 2:
        if kind in ("chain", "walls", "mixed"):
            for i in range(1, n):
                cs.append(C(vs[i - 1], vs[i], gap()))
        if kind in ("dag", "mixed"):
            for _ in range(rng.randint(1, 2 * n)):
                i, j = sorted(rng.sample(range(n), 2))
                cs.append(C(vs[i], vs[j], gap()))
        if kind == "parallel":
            for _ in range(rng.randint(1, n)):
                i, j = sorted(rng.sample(range(n), 2))
                for _k in range(rng.randint(2, 4)):
                    cs.append(C(vs[i], vs[j], gap()))
        if kind == "equality":
            for i in range(1, n):
                r = rng.random()
                if r < 0.5:
                    cs.append(C(vs[i - 1], vs[i], gap(), True))
                elif r < 0.8:
                    cs.append(C(vs[i - 1], vs[i], gap(), False))
                else:
                    cs.append(C(vs[i - 1], vs[i], gap()))
            if rng.random() < 0.4:
                i, j = rng.sample(range(n), 2)
                cs.append(C(vs[i], vs[j], gap(), True))
        if kind == "cyclic":
            for _ in range(rng.randint(1, 2 * n)):
                i, j = rng.sample(range(n), 2)
                cs.append(C(vs[i], vs[j], gap(),
                            rng.choice([None, False, False, True])))
            if rng.random() < 0.3:
                i = rng.randrange(n)
                cs.append(C(vs[i], vs[i], gap()))
            if rng.random() < 0.5:
                k = rng.randint(2, min(n, 5))
                cyc = rng.sample(range(n), k)
                for a, b in zip(cyc, cyc[1:] + cyc[:1]):
                    cs.append(C(vs[a], vs[b], rng.choice([1, 3, 10])))
        if kind == "walls":
            lw = V(rng.choice([0, -50, 100]), 1e10)
            rw = V(rng.choice([200, 500, 1000, 50]), 1e10)
            cs.append(C(lw, vs[0], rng.choice([5, 25])))
            cs.append(C(vs[-1], rw, rng.choice([5, 25])))
            vs = [lw] + vs + [rw]
        if rng.random() < 0.2:
            rng.shuffle(cs)
    elif n == 1 and rng.random() < 0.3:
        cs.append(C(vs[0], vs[0], 1))
    return kind, vs, cs


def make_guard_solver(mods, limit):
    base = mods.vpsc.Solver

    class GuardSolver(base):
        _mv_calls = 0

        def mostViolated(self):
            self._mv_calls += 1
            if self._mv_calls > limit:
                raise StepLimit("mostViolated called %d times" % limit)
            return base.mostViolated(self)

    return GuardSolver


def case_solver(mods, rng):
    obs = []
    kind, vs, cs = rand_system(mods, rng)
    obs.append(kind)
    guardit = kind in ("cyclic", "equality") or rng.random() < 0.2
    S = make_guard_solver(mods, 5000) if guardit else mods.vpsc.Solver
    if rng.random() < 0.04:
        # a constraint referring to a variable that is not in vs
        stranger = mods.vpsc.Variable(5)
        cs.append(mods.vpsc.Constraint(stranger, vs[0], 1) if vs
                  else mods.vpsc.Constraint(stranger, stranger, 1))
    if rng.random() < 0.03:
        cs_arg = tuple(cs)
    else:
        cs_arg = cs
    g = guarded(S, vs, cs_arg)
    if g[0] != "ok":
        obs.append(list(g))
        obs.append(["vars", [[sorted(vars(v))] for v in vs]])
        return obs
    solver = g[1]
    cs_seen = list(cs)
    obs.append(["init", snap_solver(mods, solver, vs, cs_seen),
                solver.inactive is cs_arg])
    r = rng.random()
    if r < 0.12:
        obs.append(["satisfy", gres(guarded(solver.satisfy))])
        obs.append(snap_solver(mods, solver, vs, cs_seen))
    if r < 0.04:
        obs.append(["mostViolated",
                    gres(guarded(solver.mostViolated),
                         lambda c: None if c is None else cs_seen.index(c))])
        obs.append(snap_solver(mods, solver, vs, cs_seen))
    obs.append(["solve", gres(guarded(solver.solve))])
    obs.append(snap_solver(mods, solver, vs, cs_seen))
    r = rng.random()
    if r < 0.3 and vs:
        ps = [rand_pos(rng, rng.randint(0, 5)) for _ in vs]
        if rng.random() < 0.1:
            ps = ps[:-1]
        obs.append(["setDesired", gres(guarded(solver.setDesiredPositions, ps))])
        obs.append(["solve2", gres(guarded(solver.solve))])
        obs.append(snap_solver(mods, solver, vs, cs_seen))
    elif r < 0.4:
        obs.append(["solve2", gres(guarded(solver.solve))])
        obs.append(snap_solver(mods, solver, vs, cs_seen))
    elif r < 0.47:
        obs.append(["setStart", gres(guarded(solver.setStartingPositions,
                                             [0] * len(vs)))])
        obs.append(snap_solver(mods, solver, vs, cs_seen))
        obs.append(["solve3", gres(guarded(solver.solve))])
        obs.append(snap_solver(mods, solver, vs, cs_seen))
    elif r < 0.55 and solver.bs is not None:
        # poke at the block level API
        bs = solver.bs
        seen = []
        obs.append(["forEach", gres(guarded(bs.forEach, seen.append)),
                    len(seen)])
        obs.append(["bcost", gres(guarded(bs.cost))])
        for b in list(bs._list)[:4]:
            obs.append(["b.cost", gres(guarded(b.cost))])
            obs.append(["findMinLM", gres(
                guarded(b.findMinLM),
                lambda c: None if c is None else cs_seen.index(c))])
            if len(b.vars) >= 2:
                u, w = b.vars[0], b.vars[-1]
                obs.append(["path", gres(guarded(
                    b.isActiveDirectedPathBetween, u, w))])
                obs.append(["path2", gres(guarded(
                    b.isActiveDirectedPathBetween, w, u))])
                obs.append(["minBetween", gres(
                    guarded(b.findMinLMBetween, u, w),
                    lambda c: None if c is None else cs_seen.index(c))])
            obs.append(["uwp", gres(guarded(b.updateWeightedPosition))])
        obs.append(["ubp", gres(guarded(bs.updateBlockPositions))])
        obs.append(snap_solver(mods, solver, vs, cs_seen))
        if rng.random() < 0.5:
            inactive = []
            obs.append(["split", gres(guarded(bs.split, inactive)),
                        [cs_seen.index(c) for c in inactive]])
            obs.append(snap_solver(mods, solver, vs, cs_seen))
        else:
            for b in list(bs._list):
                if len(b.vars) >= 2:
                    g = guarded(b.splitBetween, b.vars[0], b.vars[-1])
                    if g[0] == "ok" and g[1] is not None:
                        d = g[1]
                        obs.append(["splitBetween", sorted(d.keys()),
                                    cs_seen.index(d["constraint"]),
                                    [[vs.index(v) for v in d[k].vars]
                                     for k in ("lb", "rb")],
                                    R(d["lb"].posn), R(d["rb"].posn)])
                    else:
                        obs.append(["splitBetween", gres(g)])
                    break
            obs.append(snap_solver(mods, solver, vs, cs_seen))
    return obs


def case_solver_deep(mods, rng, fixed=None):
    """Long chains: probes the recursion depth limit inside the solver."""
    n = fixed if fixed is not None else rng.choice([100, 150, 200, 230, 240, 244, 245, 246, 247, 248, 249,
                    250, 251, 252, 253, 254, 255, 256, 257, 258, 260, 280,
                    320])
    same = fixed is not None or rng.random() < 0.6
    vs = [mods.vpsc.Variable(100 if same else rng.randint(0, 50))
          for _ in range(n)]
    cs = [mods.vpsc.Constraint(vs[i - 1], vs[i], rng.choice([3, 10]))
          for i in range(1, n)]
    solver = mods.vpsc.Solver(vs, cs)
    obs = [["n", n]]
    obs.append(["solve", gres(guarded(solver.solve))])
    obs.append(snap_solver(mods, solver, vs, cs))
    return obs


def case_primitives(mods, rng):
    """Small API surface of vpsc that does not need a solver."""
    vpsc = mods.vpsc
    obs = []
    ps = vpsc.PositionStats(rng.choice([1, 2, 0.5]))
    for _ in range(rng.randint(0, 4)):
        v = vpsc.Variable(rand_pos(rng, 2), rng.choice([1, 2, 1e10]),
                          rng.choice([1, 2]))
        v.offset = rng.choice([0, 3, -2.5])
        ps.addVariable(v)
    obs.append(R([ps.scale, ps.AB, ps.AD, ps.A2]))
    obs.append(gres(guarded(ps.getPosn)))
    v = vpsc.Variable(rng.randint(0, 9))
    obs.append([repr(v), str(v), sorted(vars(v))])
    w = vpsc.Variable(rng.randint(0, 9), rng.choice([None, 2]),
                      rng.choice([None, 3]))
    c = vpsc.Constraint(v, w, rng.choice([1, 2.5]),
                        rng.choice([None, True, False]))
    obs.append([repr(c), str(c), sorted(vars(c)), R(c.equality)])
    obs.append(gres(guarded(c.slack)))
    obs.append(gres(guarded(v.position)))
    b = guarded(vpsc.Block, v)
    if b[0] == "ok":
        blk = b[1]
        obs.append([R(blk.posn), R(v.offset), v.block is blk,
                    sorted(vars(blk)), gres(guarded(blk.cost))])
        blk2 = vpsc.Block(w)
        v.cIn, v.cOut, w.cIn, w.cOut = [], [c], [c], []
        obs.append(gres(guarded(blk.mergeAcross, blk2, c,
                                rng.choice([0, 2, -3.5]))))
        obs.append([R(blk.posn), R(v.offset), R(w.offset), w.block is blk,
                    R(c.active), gres(guarded(blk.cost)),
                    gres(guarded(c.slack))])
        bl = vpsc.Blocks([v, w])
        obs.append([len(bl._list), [R(x.blockInd) for x in bl._list],
                    gres(guarded(bl.cost)), sorted(vars(bl))])
        obs.append(gres(guarded(bl.merge, c)))
        obs.append([len(bl._list), [R(x.blockInd) for x in bl._list],
                    [[id(y) == id(v) for y in x.vars] for x in bl._list],
                    gres(guarded(bl.cost))])
    else:
        obs.append(list(b))
    obs.append(R([vpsc.Solver.LAGRANGIAN_TOLERANCE,
                  vpsc.Solver.ZERO_UPPERBOUND]))
    return obs


# --------------------------------------------------------------------------
# driver
# --------------------------------------------------------------------------


def deepen(extra, fn, mods, rng, **kw):
    """Call fn from ``extra`` additional stack frames."""
    if extra <= 0:
        return fn(mods, rng, **kw)
    return deepen(extra - 1, fn, mods, rng, **kw)


def plan():
    def n(section, base):
        return max(1, int(base * WEIGHTS[section] * SCALE))

    p = []
    p += [("engine", case_engine)] * n("engine", 1600)
    p += [("engine_deep", case_engine_deep)] * n("engine", 16)
    p += [("distributor", case_distributor)] * n("distributor", 1000)
    p += [("removeOverlap", case_removeoverlap)] * n("removeOverlap", 1400)
    p += [("node", case_node)] * n("node", 1200)
    p += [("solver", case_solver)] * n("solver", 3000)
    p += [("solver_deep", case_solver_deep)] * n("solver", 16)
    p += [("primitives", case_primitives)] * n("solver", 300)
    # deterministic sweeps across the recursion-limit threshold
    # (every size is tried from four different base stack depths so that a
    # change of even a single frame anywhere on the call path is visible)
    for k in range(236, 264):
        for extra in range(4):
            p.append(("engine_sweep", functools.partial(
                deepen, extra, case_engine_deep, fixed=k)))
            p.append(("solver_sweep", functools.partial(
                deepen, extra, case_solver_deep, fixed=k)))
    return p


def run_all(root):
    mods = load(root)
    results = []
    signal.signal(signal.SIGALRM, _alarm)
    for idx, (name, fn) in enumerate(plan()):
        rng = random.Random("%s-%d" % (name, idx))
        signal.setitimer(signal.ITIMER_REAL, 60)
        try:
            res = fn(mods, rng)
        except WallClock:
            res = ["WALLCLOCK"]
        except Exception as e:  # harness level problem: still comparable
            res = ["HARNESS-EXC", type(e).__name__, str(e)]
        finally:
            signal.setitimer(signal.ITIMER_REAL, 0)
        results.append((name, idx, res))
    purge()
    return results


def first_diff(a, b, path=""):
    if type(a) != type(b):
        return "%s: %r != %r" % (path, a, b)
    if isinstance(a, (list, tuple)):
        for i, (x, y) in enumerate(zip(a, b)):
            d = first_diff(x, y, "%s[%d]" % (path, i))
            if d:
                return d
        if len(a) != len(b):
            return "%s: length %d != %d" % (path, len(a), len(b))
        return None
    if a != b:
        return "%s: %r != %r" % (path, a, b)
    return None


def main(argv):
    if len(argv) != 3:
        print("usage: python equiv.py <original-checkout> "
              "<refactored-checkout>")
        return 2
    orig, refac = argv[1], argv[2]
    ra = run_all(orig)
    rb = run_all(refac)
    if len(ra) != len(rb):
        print("DIFFERENT: number of cases %d != %d" % (len(ra), len(rb)))
        return 1
    harness = 0
    for (na, ia, a), (nb, ib, b) in zip(ra, rb):
        if a and a[0] == "HARNESS-EXC":
            harness += 1
        if (na, ia) != (nb, ib) or a != b:
            print("DIFFERENT: case %s #%d" % (na, ia))
            print("  " + str(first_diff(a, b)))
            return 1
    if harness:
        print("DIFFERENT?: %d cases died inside the harness" % harness)
        return 1
    print("EQUIVALENT (%d cases)" % len(ra))
    return 0


if __name__ == "__main__":
    sys.exit(main(sys.argv))
