#!/usr/bin/env python
"""Differential equivalence test (group D, labella/scale.py).

Usage: python equiv.py <original-checkout> <refactored-checkout>

Each tree is exercised in its own subprocess (so that the package
``labella`` is imported from exactly that tree); the printed traces are
compared line by line.
"""
import math
import os
import random
import subprocess
import sys

NAN = float("nan")
INF = float("inf")


def outcome(thunk):
    """repr of the result, or the exception type name."""
    try:
        return "ok " + repr(thunk())
    except Exception as exc:  # noqa: BLE001
        return "exc " + type(exc).__name__


def load(tree):
    tree = os.path.abspath(tree)
    sys.path.insert(0, tree)
    import labella.scale as mod

    assert os.path.abspath(mod.__file__).startswith(tree + os.sep), mod.__file__
    return mod


def main():
    if len(sys.argv) == 3 and sys.argv[1] == "--worker":
        mod = load(sys.argv[2])
        n = 0
        for label, thunk in cases(mod):
            n += 1
            print("%04d %s => %s" % (n, label, outcome(thunk)))
        return 0
    if len(sys.argv) != 3:
        print(__doc__)
        return 2
    traces = []
    for tree in sys.argv[1:3]:
        env = dict(os.environ)
        env.pop("PYTHONPATH", None)
        env["PYTHONHASHSEED"] = "0"
        proc = subprocess.run(
            [sys.executable, os.path.abspath(__file__), "--worker", tree],
            stdout=subprocess.PIPE,
            stderr=subprocess.PIPE,
            text=True,
            cwd="/",
            env=env,
        )
        if proc.returncode != 0:
            print("DIFFERENT (worker crashed on %s)" % tree)
            print(proc.stderr)
            return 1
        traces.append(proc.stdout.splitlines())
    old, new = traces
    diffs = []
    if len(old) != len(new):
        diffs.append("trace length %d vs %d" % (len(old), len(new)))
    for a, b in zip(old, new):
        if a != b:
            diffs.append("- %s\n+ %s" % (a, b))
    if len(old) < 200:
        diffs.append("only %d cases exercised" % len(old))
    if diffs:
        print("DIFFERENT")
        for d in diffs[:40]:
            print(d)
        return 1
    print("EQUIVALENT (%d cases)" % len(old))
    return 0


class Rounder(object):
    """Object-style 'nice' (attribute access instead of dict)."""

    def __init__(self, step):
        self.step = step

    def floor(self, x):
        return math.floor(x / self.step) * self.step

    def ceil(self, x):
        return math.ceil(x / self.step) * self.step


class Tracer(object):
    """Records the order and the arguments of floor/ceil calls."""

    def __init__(self):
        self.calls = []

    def floor(self, x):
        self.calls.append(("floor", x))
        return ("F", x)

    def ceil(self, x):
        self.calls.append(("ceil", x))
        return ("C", x)


def boom(x):
    raise KeyError(x)


def domains():
    rng = random.Random(1001)
    doms = [
        [],
        [3],
        [3.5],
        [0, 0],
        [1, 1.0],
        [0.0, -0.0],
        [-0.0, 0.0],
        [0, 1],
        [1, 0],
        [-5, 5],
        [5, -5],
        [-7.25, -1.5],
        [-1.5, -7.25],
        [NAN, 1],
        [1, NAN],
        [NAN, NAN],
        [INF, -INF],
        [-INF, INF],
        [1, 2, 3],
        [3, 2, 1],
        [2, 9, 2],
        [4, -1, 7, 0],
        [7, 100, -3, 2, 6.5],
        (2, 8),
        (8, 2),
        (5,),
        (),
        ["a", "b"],
        ["b", "a"],
        [1, "a"],
        [None, 1],
        [[1, 2], [0, 5]],
        [True, False],
        "zyx",
        "",
        None,
        7,
        {0: 5, 1: 2},
    ]
    for _ in range(60):
        n = rng.choice([1, 2, 2, 2, 3, 4, 6])
        kind = rng.choice(["int", "float", "mixed"])
        d = []
        for _ in range(n):
            if kind == "int":
                d.append(rng.randint(-50, 50))
            elif kind == "float":
                d.append(rng.uniform(-1e3, 1e3))
            else:
                d.append(rng.choice([rng.randint(-5, 5), rng.uniform(-5, 5)]))
        doms.append(d)
    return doms


def cases(mod):
    from datetime import datetime
    import copy

    doms = domains()
    for i, d in enumerate(doms):
        yield "scaleExtent %r" % (d,), (
            lambda d=copy.deepcopy(d): (mod.d3_scaleExtent(d), d)
        )

    dts = [
        [datetime(2020, 1, 5, 3, 4, 5), datetime(2021, 3, 4)],
        [datetime(2021, 3, 4), datetime(2020, 1, 5, 3, 4, 5)],
        [datetime(2020, 1, 1), datetime(2020, 1, 1)],
    ]
    for d in dts:
        yield "scaleExtent dt %r" % (d,), (lambda d=list(d): (mod.d3_scaleExtent(d), d))

    nices = [
        ("dict1", lambda: {"floor": math.floor, "ceil": math.ceil}),
        ("dict10", lambda: mod.d3_scale_niceStep(10)),
        ("dict0.25", lambda: mod.d3_scale_niceStep(0.25)),
        ("dict0", lambda: mod.d3_scale_niceStep(0)),
        ("dict-nofloor", lambda: {"ceil": math.ceil}),
        ("dict-noceil", lambda: {"floor": math.floor}),
        ("dict-boomfloor", lambda: {"floor": boom, "ceil": math.ceil}),
        ("dict-boomceil", lambda: {"floor": math.floor, "ceil": boom}),
        ("obj2", lambda: Rounder(2)),
        ("obj0.5", lambda: Rounder(0.5)),
        ("obj0", lambda: Rounder(0)),
        ("none", lambda: None),
        ("int", lambda: 3),
    ]
    for d in doms:
        for name, mk in nices:
            if name not in ("dict1", "obj2") and len(repr(d)) > 30:
                continue

            def run(d=copy.deepcopy(d), mk=mk):
                try:
                    res = mod.d3_scale_nice(d, mk())
                except Exception as exc:  # noqa: BLE001
                    return ("raised", type(exc).__name__, d)
                return (res, res is d, d)

            yield "nice[%s] %r" % (name, d), run

    for d in doms:

        def run(d=copy.deepcopy(d)):
            t = Tracer()
            try:
                res = mod.d3_scale_nice(d, t)
            except Exception as exc:  # noqa: BLE001
                return ("raised", type(exc).__name__, d, t.calls)
            return (res, d, t.calls)

        yield "nice[tracer] %r" % (d,), run

    # time intervals through d3_scale_nice and the public scales
    for key in ("second", "minute", "hour", "day", "week", "month", "year"):
        for d in dts:
            yield "nice[d3_time %s] %r" % (key, d), (
                lambda d=list(d), key=key: mod.d3_scale_nice(d, mod.d3_time[key])
            )
    for d in dts:
        for interval in (None, 5, 10, 40):

            def run(d=list(d), interval=interval):
                ts = mod.TimeScale()
                ts.domain(d)
                ts.nice(interval)
                return (ts.domain(), ts._linear.domain())

            yield "TimeScale.nice(%r) %r" % (interval, d), run

    for d in doms:
        if not isinstance(d, (list, tuple)):
            continue
        for m in (None, 3, 10):

            def run(d=copy.deepcopy(d), m=m):
                ls = mod.LinearScale()
                ls.domain(d)
                ls.nice(m)
                return (ls.domain(), ls(0.3), ls.invert(0.3))

            yield "LinearScale.nice(%r) %r" % (m, d), run


if __name__ == "__main__":
    sys.exit(main())
