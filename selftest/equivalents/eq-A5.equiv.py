#!/usr/bin/env python
# -*- coding: utf-8 -*-
"""
Differential equivalence test for a refactoring of labella/removeOverlap.py
and/or labella/force.py.

Usage:  python equiv.py <original-checkout> <refactored-checkout>

Each tree is exercised in its own subprocess (so that the two copies of the
``labella`` package can never be mixed up).  The worker runs a deterministic
battery of scenarios against removeOverlap.removeOverlap, Force.set_options,
Force.nodes and Force.compute and prints one JSON record per scenario that
contains the return value, the type of any raised exception and the complete
caller-visible state that the call may have mutated (nodes, stubs, option
dicts, layers).  The driver compares the two transcripts record by record.

Prints EQUIVALENT and exits 0 if the transcripts are identical, otherwise
prints DIFFERENT with the first differing records and exits 1.
"""

import json
import os
import subprocess
import sys

TIMEOUT = 600


# --------------------------------------------------------------------------
# worker
# --------------------------------------------------------------------------


def _worker(root):
    import collections
    import random

    root = os.path.realpath(root)
    sys.path.insert(0, root)
    import labella
    from labella import distributor as distributor_mod
    from labella import force as force_mod
    from labella import removeOverlap as ro_mod
    from labella.node import Node

    for mod in (labella, force_mod, ro_mod, distributor_mod):
        here = os.path.realpath(mod.__file__)
        if not here.startswith(root + os.sep):
            raise SystemExit("imported %s from outside %s" % (here, root))

    records = []

    def emit(kind, name, payload):
        records.append({"kind": kind, "name": name, "result": payload})

    # ----- describing state ----------------------------------------------

    def chain(node, attr):
        depth = 0
        cur = getattr(node, attr)
        seen = 0
        while cur is not None and seen < 50:
            depth += 1
            cur = getattr(cur, attr)
            seen += 1
        return depth

    def desc_node(n):
        if not isinstance(n, Node):
            return repr(n)
        return {
            "data": repr(n.data),
            "idealPos": repr(n.idealPos),
            "currentPos": repr(n.currentPos),
            "targetPos": repr(getattr(n, "targetPos", "<unset>")),
            "width": repr(n.width),
            "layerIndex": repr(n.layerIndex),
            "isStub": bool(n.child),
            "parents": chain(n, "parent"),
            "children": chain(n, "child"),
            "overlapCount": repr(n.overlapCount),
        }

    def desc_nodes(ns):
        if ns is None:
            return None
        try:
            return [desc_node(n) for n in ns]
        except TypeError:
            return repr(ns)

    def desc_layers(layers):
        if layers is None:
            return None
        return [desc_nodes(layer) for layer in layers]

    def desc_opts(o):
        if isinstance(o, dict):
            return [type(o).__name__] + [
                [repr(k), repr(v)] for k, v in o.items()
            ]
        return repr(o)

    def call(fn, *args):
        try:
            return ("ok", fn(*args))
        except RecursionError:
            raise
        except BaseException as err:  # noqa
            if isinstance(err, (KeyboardInterrupt, SystemExit)):
                raise
            return ("raise", type(err).__name__)

    # ----- node generation --------------------------------------------------

    def rnd_pos(rng, mode):
        if mode == 0:
            return rng.randint(-50, 300)
        if mode == 1:
            return rng.uniform(-100.0, 400.0)
        if mode == 2:  # many ties
            return rng.choice([0, 10, 10, 10, 25, 25, -5])
        if mode == 3:
            return rng.choice([0.5, 1.5, 2.5, -0.5, -1.5, 100.5])
        return rng.randint(0, 20)

    def rnd_width(rng, mode):
        if mode == 0:
            return rng.randint(1, 60)
        if mode == 1:
            return rng.uniform(0.0, 45.0)
        if mode == 2:
            return rng.choice([0, 1, 5, 50])
        if mode == 3:
            return rng.choice([1, 3, 5, 7])
        return 10

    def make_nodes(rng, n, pmode, wmode):
        return [
            Node(rnd_pos(rng, pmode), rnd_width(rng, wmode), data="n%d" % i)
            for i in range(n)
        ]

    def make_layer(rng, n, pmode, wmode, stubfrac, stubwidth=1):
        """A list like one layer handed to removeOverlap: a mix of plain
        nodes, stubs (nodes that have a child) and nodes that have a parent
        (whose target position is the parent's current position)."""
        extra = []
        out = []
        for i in range(n):
            nd = Node(
                rnd_pos(rng, pmode), rnd_width(rng, wmode), data="n%d" % i
            )
            r = rng.random()
            if r < stubfrac:
                # put the stub in the list, keep the real node aside
                nd.currentPos = rnd_pos(rng, pmode)
                stub = nd.createStub(stubwidth)
                out.append(stub)
                extra.append(nd)
            elif r < stubfrac + 0.2:
                # node with a parent living elsewhere
                stub = nd.createStub(stubwidth)
                stub.currentPos = rnd_pos(rng, pmode)
                out.append(nd)
                extra.append(stub)
            else:
                out.append(nd)
        return out, extra

    RO_OPTIONS = [
        None,
        {},
        {"minPos": None},
        {"maxPos": 200},
        {"minPos": None, "maxPos": 150},
        {"minPos": 20, "maxPos": 400},
        {"minPos": -100, "maxPos": None},
        {"minPos": 0, "maxPos": 10},  # cannot be satisfied
        {"minPos": 100, "maxPos": 50},  # inverted walls
        {"lineSpacing": 0, "nodeSpacing": 0},
        {"lineSpacing": 7, "nodeSpacing": 1},
        {"lineSpacing": 2.5, "nodeSpacing": 3.25, "minPos": 0.5},
        {"nodeSpacing": -2},
        {"minPos": 0, "maxPos": 0},
        {"minPos": False, "maxPos": 0.0},
        {"unrelated": 1, 7: "seven", "maxPos": 1000},
        {"minPos": 12.5, "maxPos": 612.25, "nodeSpacing": 10},
    ]

    # ----- removeOverlap ----------------------------------------------------

    def run_remove_overlap(name, nodes, extra, options):
        if isinstance(options, dict):
            opt_before = dict(options)
        else:
            opt_before = options
        orig = list(nodes) if isinstance(nodes, (list, tuple)) else None
        status, value = call(ro_mod.removeOverlap, nodes, options)
        payload = {
            "status": status,
            "value": value if status == "raise" else desc_nodes(value),
            "same_object": (status == "ok" and value is nodes),
            "nodes_after": desc_nodes(nodes),
            "orig_order": desc_nodes(orig),
            "extra": desc_nodes(extra),
            "options_after": desc_opts(options),
            "options_unchanged": (
                options == opt_before
                if isinstance(options, dict)
                else repr(options) == repr(opt_before)
            ),
            "defaults": desc_opts(ro_mod.DEFAULT_OPTIONS),
        }
        emit("removeOverlap", name, payload)

    rng = random.Random(20240917)
    count = 0
    for n in [0, 1, 1, 2, 2, 3, 4, 5, 6, 8, 10, 13, 17]:
        for oi, opts in enumerate(RO_OPTIONS):
            pmode = rng.randrange(5)
            wmode = rng.randrange(5)
            stubfrac = rng.choice([0.0, 0.3, 0.6, 1.0])
            nodes, extra = make_layer(rng, n, pmode, wmode, stubfrac)
            o = None if opts is None else dict(opts)
            run_remove_overlap(
                "rand-%d-n%d-o%d-p%d-w%d-s%.1f"
                % (count, n, oi, pmode, wmode, stubfrac),
                nodes,
                extra,
                o,
            )
            count += 1

    # adjacent stub / non-stub combinations, explicitly
    for combo in [(0, 0), (0, 1), (1, 0), (1, 1), (1, 1, 1), (1, 0, 1, 1, 0)]:
        for opts in [None, {"lineSpacing": 11, "nodeSpacing": 5}]:
            nodes, extra = [], []
            for i, is_stub in enumerate(combo):
                nd = Node(10 + i, 8 + 2 * i, data="c%d" % i)
                if is_stub:
                    st = nd.createStub(3)
                    nodes.append(st)
                    extra.append(nd)
                else:
                    nodes.append(nd)
            run_remove_overlap(
                "combo-%r-%r" % (combo, opts), nodes, extra, opts
            )

    # calling twice on the same list, reversed and already sorted input
    for k in range(6):
        nodes, extra = make_layer(rng, 7, k % 5, (k + 1) % 5, 0.4)
        run_remove_overlap("twice-a-%d" % k, nodes, extra, {"maxPos": 90})
        nodes.reverse()
        run_remove_overlap("twice-b-%d" % k, nodes, extra, None)

    # edge cases and error behaviour
    def n1(pos=5, width=4, data="e"):
        return Node(pos, width, data=data)

    run_remove_overlap("edge-none-nodes", None, None, None)
    run_remove_overlap("edge-none-nodes-opts", None, None, {"minPos": 1})
    run_remove_overlap("edge-empty-tuple", (), None, None)
    run_remove_overlap("edge-empty-list-badopts", [], None, 5)
    run_remove_overlap("edge-int-nodes", 3, None, None)
    run_remove_overlap("edge-tuple-nodes", (n1(), n1(6)), None, None)
    run_remove_overlap("edge-opts-int", [n1()], None, 5)
    run_remove_overlap("edge-opts-str", [n1()], None, "ab")
    run_remove_overlap(
        "edge-opts-pairs", [n1(), n1(6)], None, [("minPos", 3), ("maxPos", 9)]
    )
    run_remove_overlap("edge-opts-badpairs", [n1()], None, [1, 2])
    run_remove_overlap(
        "edge-opts-ordered",
        [n1(), n1(6)],
        None,
        collections.OrderedDict([("maxPos", 30), ("minPos", None)]),
    )
    run_remove_overlap(
        "edge-opts-defaultdict",
        [n1(), n1(6)],
        None,
        collections.defaultdict(int, {"maxPos": 30}),
    )
    run_remove_overlap("edge-width-none", [n1(1, None), n1(2, 3)], None, None)
    run_remove_overlap(
        "edge-width-none-single-nowalls",
        [n1(1, None)],
        None,
        {"minPos": None},
    )
    run_remove_overlap("edge-width-none-single", [n1(1, None)], None, None)
    run_remove_overlap(
        "edge-width-none-right",
        [n1(1, 2), n1(2, None)],
        None,
        {"minPos": None, "maxPos": 5},
    )
    run_remove_overlap("edge-width-str", [n1(1, "a"), n1(2, "b")], None, None)
    run_remove_overlap(
        "edge-spacing-none", [n1(), n1(6)], None, {"nodeSpacing": None}
    )
    run_remove_overlap(
        "edge-linespacing-none-unused",
        [n1(), n1(6)],
        None,
        {"lineSpacing": None},
    )
    st_a = n1(1, 4, "sa").createStub(2)
    st_b = n1(2, 4, "sb").createStub(2)
    run_remove_overlap(
        "edge-linespacing-none-used",
        [st_a, st_b],
        None,
        {"lineSpacing": None},
    )
    run_remove_overlap(
        "edge-minpos-str", [n1()], None, {"minPos": "x", "maxPos": None}
    )
    run_remove_overlap("edge-maxpos-str", [n1(), n1(9)], None, {"maxPos": "x"})
    run_remove_overlap(
        "edge-nan", [n1(float("nan"))], None, {"minPos": None}
    )
    run_remove_overlap(
        "edge-inf", [n1(float("inf"))], None, {"minPos": None}
    )
    run_remove_overlap(
        "edge-inf-then-ok",
        [n1(1), n1(float("inf"), 4, "inf")],
        None,
        {"minPos": None},
    )
    run_remove_overlap("edge-pos-none", [n1(None), n1(3)], None, None)
    run_remove_overlap("edge-pos-str", [n1("a"), n1("b")], None, None)
    class Opaque(object):
        def __repr__(self):
            return "<Opaque>"

    run_remove_overlap("edge-not-a-node", [Opaque()], None, None)
    run_remove_overlap("edge-mixed-not-a-node", [n1(), 7], None, None)
    run_remove_overlap(
        "edge-half-round", [n1(0.5, 0), n1(2.5, 0)], None, {"minPos": None}
    )
    run_remove_overlap(
        "edge-big", [n1(10 ** 12, 3), n1(10 ** 12, 3)], None, None
    )
    run_remove_overlap(
        "edge-same-node-twice", [n1()] * 2, None, {"minPos": None}
    )
    shared = n1(3, 4, "shared")
    run_remove_overlap("edge-alias", [shared, n1(3), shared], None, None)

    # helper functions that live next to removeOverlap
    emit("helper", "last", [call(ro_mod.last, a)[0] for a in ([], [1], "ab")])
    emit(
        "helper",
        "last-values",
        [repr(call(ro_mod.last, a)[1]) for a in ([], [1, 2], "ab", (3,))],
    )
    hv = ro_mod.nodeToVariable
    nd = n1(3, 4)
    nd.targetPos = 17
    st, var = call(hv, nd)
    emit(
        "helper",
        "nodeToVariable",
        [st, repr(var), var.node is nd] if st == "ok" else [st, var],
    )
    emit("helper", "nodeToVariable-unset", list(call(hv, n1(3, 4))))

    # ----- Force ------------------------------------------------------------

    def desc_force(f):
        return {
            "options": desc_opts(f.options),
            "dist_options": desc_opts(
                getattr(f.distributor, "options", "<no distributor>")
            ),
            "nodes": desc_nodes(f._nodes),
            "layers": desc_layers(f.layers),
            "force": repr(f.force),
            "attrs": sorted(vars(f).keys()),
        }

    FORCE_OPTIONS = [
        None,
        {},
        {"minPos": None},
        {"maxPos": None},
        {"minPos": None, "maxPos": None},
        {"minPos": 0, "maxPos": 100},
        {"minPos": 10, "maxPos": 500},
        {"maxPos": 250},
        {"minPos": -50, "maxPos": 50.5},
        {"minPos": 100, "maxPos": 20},
        {"minPos": 0, "maxPos": 0},
        {"minPos": None, "maxPos": 300},
        {"minPos": 0, "maxPos": 120, "algorithm": "simple"},
        {"minPos": 0, "maxPos": 120, "algorithm": "none"},
        {"minPos": 0, "maxPos": 120, "algorithm": "overlap", "density": 0.5},
        {"minPos": 0, "maxPos": 120, "algorithm": "roundRobin"},
        {"minPos": 0, "maxPos": 120, "algorithm": "bogus"},
        {"minPos": 0, "maxPos": 80, "stubWidth": 4, "nodeSpacing": 6},
        {"minPos": 0, "maxPos": 90, "layerWidth": 5, "lineSpacing": 9},
        {"density": 1.5, "nodeSpacing": 0, "maxPos": 60},
        {"minPos": 5, "maxPos": 65, "extra": "x", 3: 4},
        {"minPos": 0.25, "maxPos": 99.75, "density": 0.3, "stubWidth": 2},
    ]
    BAD_FORCE_OPTIONS = [
        5,
        "ab",
        [("minPos", 1), ("maxPos", 41)],
        [1, 2],
        {"minPos": "a", "maxPos": "b"},
        {"minPos": "a", "maxPos": 3},
        {"minPos": [], "maxPos": 3},
        collections.OrderedDict([("maxPos", 77), ("minPos", 7)]),
        (),
        0,
        False,
    ]

    def new_force(opts):
        st, f = call(force_mod.Force, opts)
        return st, f

    # constructor + set_options
    for i, opts in enumerate(FORCE_OPTIONS + BAD_FORCE_OPTIONS):
        o = dict(opts) if type(opts) is dict else opts
        st, f = new_force(o)
        emit(
            "Force.__init__",
            "ctor-%d" % i,
            {
                "status": st,
                "state": desc_force(f) if st == "ok" else f,
                "arg_after": desc_opts(o),
                "defaults": desc_opts(force_mod.DEFAULT_OPTIONS),
            },
        )

    seq_rng = random.Random(7)
    all_opts = FORCE_OPTIONS + BAD_FORCE_OPTIONS
    for i in range(60):
        f = force_mod.Force(seq_rng.choice(FORCE_OPTIONS))
        steps = []
        for j in range(seq_rng.randint(1, 4)):
            opts = seq_rng.choice(all_opts)
            o = dict(opts) if type(opts) is dict else opts
            mode = seq_rng.randrange(3)
            if mode == 0:
                st, val = call(f.set_options, o)
            elif mode == 1:
                st, val = call(f.set_options)
            else:
                st, val = call(lambda: f.set_options(x=o))
            steps.append(
                {
                    "status": st,
                    "value": repr(val),
                    "state": desc_force(f),
                    "arg_after": desc_opts(o),
                }
            )
        emit("Force.set_options", "seq-%d" % i, steps)

    # keys missing from / odd kinds of self.options
    for i, (drop, repl) in enumerate(
        [
            (["minPos"], None),
            (["maxPos"], None),
            (["minPos", "maxPos"], None),
            (["algorithm"], None),
            ([], "defaultdict"),
            ([], "ordered"),
            (["minPos"], "defaultdict"),
        ]
    ):
        for opts in [None, {}, {"maxPos": 44}, {"minPos": 4}, {"minPos": None}]:
            f = force_mod.Force({"minPos": 2, "maxPos": 90})
            if repl == "defaultdict":
                f.options = collections.defaultdict(int, f.options)
            elif repl == "ordered":
                f.options = collections.OrderedDict(f.options)
            for k in drop:
                del f.options[k]
            st, val = call(f.set_options, opts)
            emit(
                "Force.set_options",
                "missing-%d-%r" % (i, opts),
                {"status": st, "value": repr(val), "state": desc_force(f)},
            )
    f = force_mod.Force()
    f.options = None
    st, val = call(f.set_options, {})
    emit("Force.set_options", "options-none", [st, repr(val)])
    f = force_mod.Force()
    f.distributor = None
    st, val = call(f.set_options, {"minPos": 1, "maxPos": 2})
    emit(
        "Force.set_options",
        "distributor-none",
        [st, repr(val), desc_opts(f.options)],
    )

    # nodes()
    def run_nodes(name, f, *args, **kwargs):
        before = f._nodes
        st, val = call(lambda: f.nodes(*args, **kwargs))
        arg = args[0] if args else kwargs.get("x")
        emit(
            "Force.nodes",
            name,
            {
                "status": st,
                "value_is_before": val is before,
                "value_is_arg": (val is arg) and arg is not None,
                "value": desc_nodes(val) if st == "ok" else val,
                "stored_is_arg": f._nodes is arg,
                "stored_is_before": f._nodes is before,
                "state": desc_force(f),
            },
        )

    for i, x in enumerate(
        [
            None,
            [],
            (),
            0,
            "",
            False,
            [Node(1, 2, "a")],
            (Node(1, 2, "a"), Node(3, 4, "b")),
            "abc",
            5,
            True,
            [None],
            {"k": 1},
            iter([Node(1, 2)]),
        ]
    ):
        f = force_mod.Force()
        f.layers = [["sentinel"]]
        run_nodes("fresh-%d" % i, f, x)
        run_nodes("get-after-%d" % i, f)
        f.layers = [["sentinel2"]]
        run_nodes("kw-%d" % i, f, x=x)
        f._nodes = [Node(9, 9, "pre")]
        f.layers = [["sentinel3"]]
        run_nodes("preset-%d" % i, f, x)
        run_nodes("preset-get-%d" % i, f)
    f = force_mod.Force()
    st, val = call(lambda: f.nodes(1, 2))
    emit("Force.nodes", "too-many-args", [st, repr(val)])

    # compute()
    def run_compute(name, f, nodes, times=1):
        out = []
        for t in range(times):
            st, val = call(f.compute)
            out.append(
                {
                    "status": st,
                    "value": repr(val),
                    "state": desc_force(f),
                    "input_nodes": desc_nodes(nodes),
                    "layers_is_getLayers": f.getLayers() is f.layers,
                    "layer_sizes": (
                        [len(x) for x in f.layers]
                        if f.layers is not None
                        else None
                    ),
                }
            )
        emit("Force.compute", name, out)

    crng = random.Random(99)
    count = 0
    for n in [0, 1, 2, 3, 5, 8, 12, 20, 35]:
        for oi, opts in enumerate(FORCE_OPTIONS):
            pmode = crng.randrange(5)
            wmode = crng.randrange(5)
            nodes = make_nodes(crng, n, pmode, wmode)
            f = force_mod.Force(dict(opts) if opts is not None else None)
            f.nodes(nodes)
            run_compute(
                "rand-%d-n%d-o%d-p%d-w%d" % (count, n, oi, pmode, wmode),
                f,
                nodes,
                times=2 if count % 3 == 0 else 1,
            )
            if count % 5 == 0:
                # change options after a layout, recompute (stale stubs)
                call(f.set_options, {"maxPos": 70, "minPos": 1})
                run_compute("rand-%d-relayout" % count, f, nodes)
                st, val = call(f.nodes)
                emit(
                    "Force.nodes",
                    "after-compute-%d" % count,
                    [st, val is nodes, desc_nodes(val) if st == "ok" else val],
                )
            count += 1

    # compute edge cases
    f = force_mod.Force()
    run_compute("no-nodes", f, None)
    f = force_mod.Force()
    f._nodes = None
    run_compute("nodes-none", f, None)
    f = force_mod.Force()
    f._nodes = (Node(1, 5, "t0"), Node(2, 5, "t1"))
    run_compute("nodes-tuple", f, f._nodes)
    f = force_mod.Force({"algorithm": "none"})
    tn = (Node(1, 5, "t0"), Node(2, 5, "t1"))
    f._nodes = tn
    run_compute("nodes-tuple-alg-none", f, tn)
    f = force_mod.Force({"algorithm": "none", "minPos": 0, "maxPos": 30})
    ln = make_nodes(crng, 9, 0, 0)
    f.nodes(ln)
    run_compute("alg-none-list-sorted-in-place", f, ln, times=2)
    f = force_mod.Force()
    f._nodes = [Node(1, 5), 3]
    run_compute("nodes-bad-element", f, f._nodes)
    f = force_mod.Force()
    f._nodes = [Node(1, None, "wn"), Node(2, 3, "w3")]
    run_compute("nodes-width-none", f, f._nodes)
    f = force_mod.Force({"minPos": 0, "maxPos": 40, "stubWidth": None})
    sn = make_nodes(crng, 10, 0, 3)
    f.nodes(sn)
    run_compute("stubwidth-none", f, sn)
    f = force_mod.Force({"minPos": 0, "maxPos": 40})
    f.options = None
    f._nodes = [Node(1, 2, "on")]
    run_compute("options-none", f, f._nodes)
    f = force_mod.Force({"minPos": 0, "maxPos": 40})
    del f.options["minPos"]
    del f.options["nodeSpacing"]
    dn = make_nodes(crng, 6, 0, 0)
    f.nodes(dn)
    run_compute("options-missing-keys", f, dn)
    f = force_mod.Force({"minPos": 0, "maxPos": 40})
    f.distributor = None
    pn = Node(1, 2, "dn")
    pn.createStub(1)
    f._nodes = [pn]
    run_compute("distributor-none-after-removeStub", f, f._nodes)
    # pre-existing stubs must be removed by compute
    f = force_mod.Force({"minPos": 0, "maxPos": 60})
    pre = make_nodes(crng, 8, 0, 0)
    stubs = [p.createStub(2) for p in pre[:4]]
    f.nodes(pre)
    run_compute("preexisting-stubs", f, pre, times=2)
    emit("Force.compute", "preexisting-stubs-orphans", desc_nodes(stubs))
    # metrics after compute (reads what compute produced)
    f = force_mod.Force({"minPos": 0, "maxPos": 100})
    mn = make_nodes(crng, 15, 0, 0)
    f.nodes(mn)
    call(f.compute)
    for m in ("overlapCount", "overflow", "displacement"):
        st, val = call(f.metric, m)
        emit("Force.metric", m, [st, repr(val)])

    json.dump(records, sys.stdout, sort_keys=True)
    sys.stdout.write("\n")


# --------------------------------------------------------------------------
# driver
# --------------------------------------------------------------------------


def _run(root):
    env = dict(os.environ)
    env.pop("PYTHONPATH", None)
    env["PYTHONHASHSEED"] = "0"
    proc = subprocess.run(
        [sys.executable, os.path.abspath(__file__), "--worker", root],
        stdout=subprocess.PIPE,
        stderr=subprocess.PIPE,
        env=env,
        cwd="/",
        timeout=TIMEOUT,
        universal_newlines=True,
    )
    if proc.returncode != 0:
        return None, "worker for %s failed (%d):\n%s" % (
            root,
            proc.returncode,
            proc.stderr[-4000:],
        )
    try:
        return json.loads(proc.stdout), None
    except ValueError as err:
        return None, "worker for %s printed bad JSON: %s" % (root, err)


def main(argv):
    if len(argv) == 3 and argv[1] == "--worker":
        _worker(argv[2])
        return 0
    if len(argv) != 3:
        print("usage: equiv.py <original-checkout> <refactored-checkout>")
        return 2
    old, err_old = _run(argv[1])
    new, err_new = _run(argv[2])
    if err_old or err_new:
        print("DIFFERENT")
        print(err_old or err_new)
        return 1
    problems = []
    if len(old) != len(new):
        problems.append(
            "number of records differs: %d vs %d" % (len(old), len(new))
        )
    for a, b in zip(old, new):
        if a != b:
            problems.append(
                "%s / %s:\n  original:   %s\n  refactored: %s"
                % (
                    a["kind"],
                    a["name"],
                    json.dumps(a["result"], sort_keys=True)[:1500],
                    json.dumps(b["result"], sort_keys=True)[:1500],
                )
            )
    if problems:
        print("DIFFERENT")
        for p in problems[:10]:
            print(p)
        print("%d differing record(s) of %d" % (len(problems), len(old)))
        return 1
    kinds = {}
    for a in old:
        kinds[a["kind"]] = kinds.get(a["kind"], 0) + 1
    print(
        "EQUIVALENT (%d scenarios: %s)"
        % (
            len(old),
            ", ".join("%s=%d" % kv for kv in sorted(kinds.items())),
        )
    )
    return 0


if __name__ == "__main__":
    sys.exit(main(sys.argv))
