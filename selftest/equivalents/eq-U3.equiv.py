#!/usr/bin/env python
"""Differential test: python equiv.py <original-checkout> <refactored-checkout>"""
import os
import random
import sys
import datetime as _dt
import types


class M(object):
    pass


def load(root):
    for name in [
        m for m in sys.modules if m == "labella" or m.startswith("labella.")
    ]:
        del sys.modules[name]
    root = os.path.realpath(root)
    sys.path.insert(0, root)
    try:
        import labella  # noqa
        import labella.scale
        import labella.d3_time
        import labella.utils
        import labella.timeline

        mods = M()
        for name, mod in list(sys.modules.items()):
            if name == "labella" or name.startswith("labella."):
                f = getattr(mod, "__file__", None)
                assert f and os.path.realpath(f).startswith(root + os.sep), (
                    name,
                    f,
                    root,
                )
                setattr(mods, name.rsplit(".", 1)[-1], mod)
    finally:
        sys.path.remove(root)
    return mods


def canon(v, depth=0):
    if depth > 8:
        return ("deep", type(v).__name__)
    if isinstance(v, bool) or v is None:
        return (type(v).__name__, v)
    if isinstance(v, float):
        return ("float", v.hex())
    if isinstance(v, (int, str, bytes)):
        return (type(v).__name__, v)
    if isinstance(v, _dt.datetime):
        return ("datetime", type(v).__name__, v.isoformat(), str(v.tzinfo))
    if isinstance(v, _dt.timedelta):
        return ("timedelta", v.days, v.seconds, v.microseconds)
    if isinstance(v, _dt.date):
        return ("date", type(v).__name__, v.isoformat())
    if isinstance(v, (list, tuple)):
        return (type(v).__name__, [canon(x, depth + 1) for x in v])
    if isinstance(v, dict):
        return (
            "dict",
            [(canon(k, depth + 1), canon(x, depth + 1)) for k, x in v.items()],
        )
    if isinstance(v, types.GeneratorType):
        out = []
        for i, x in enumerate(v):
            if i > 5000:
                out.append("...")
                break
            out.append(canon(x, depth + 1))
        return ("generator", out)
    if isinstance(v, (types.FunctionType, types.MethodType)):
        return ("callable",)
    return ("object", type(v).__name__)


def rand_dt(rng, lo_year=1900, hi_year=2190):
    kind = rng.random()
    year = rng.randint(lo_year, hi_year)
    month = rng.randint(1, 12)
    if kind < 0.1:
        day = rng.choice([1, 28, 29, 30, 31])
    else:
        day = rng.randint(1, 31)
    while True:
        try:
            _dt.date(year, month, day)
            break
        except ValueError:
            day -= 1
    if kind < 0.25:
        return _dt.datetime(year, month, day)
    if kind < 0.4:
        return _dt.datetime(year, month, day, rng.randint(0, 23))
    if kind < 0.55:
        return _dt.datetime(
            year, month, day, rng.randint(0, 23), rng.randint(0, 59)
        )
    if kind < 0.75:
        return _dt.datetime(
            year,
            month,
            day,
            rng.randint(0, 23),
            rng.randint(0, 59),
            rng.randint(0, 59),
        )
    return _dt.datetime(
        year,
        month,
        day,
        rng.randint(0, 23),
        rng.randint(0, 59),
        rng.randint(0, 59),
        rng.choice([0, 1, 999, 1000, 500000, 999999, rng.randint(0, 999999)]),
    )


SPANS = [
    0,
    1e-3,
    0.5,
    1,
    7,
    45,
    300,
    3600,
    4 * 3600,
    86400,
    3 * 86400,
    14 * 86400,
    60 * 86400,
    400 * 86400,
    5 * 365 * 86400,
    40 * 365 * 86400,
]


def rand_domain(rng):
    a = rand_dt(rng, 1902, 2100)
    span = rng.choice(SPANS) * rng.uniform(0.5, 2.0)
    b = a + _dt.timedelta(seconds=span)
    if rng.random() < 0.15:
        a, b = b, a
    return [a, b]


def timeline_cases(mods, rng, rec, n):
    """End-to-end: build timelines with explicit widths and export them."""
    TL = mods.timeline
    words = ["alpha", "beta", "gamma & co", "d_e", "50%", "x<y", "Zeta #1", ""]
    for c in range(n):
        numeric = rng.random() < 0.25
        tex = rng.random() < 0.4
        nitems = rng.randint(1, 9)
        if numeric:
            base = rng.choice([0, -50, 1000, 0.001])
            spread = rng.choice([1, 10, 1000, 1e5])
            times = [base + rng.random() * spread for _ in range(nitems)]
        else:
            a, b = rand_domain(rng)
            if a > b:
                a, b = b, a
            span = (b - a).total_seconds()
            if span < 2:
                span = 86400.0 * 30
            times = [
                a + _dt.timedelta(seconds=rng.random() * span)
                for _ in range(nitems)
            ]
        items = []
        for t in times:
            d = {"time": t, "width": rng.choice([10, 25, 40.5, 60])}
            w = rng.choice(words)
            if w:
                d["text"] = w
            items.append(d)
        opts = {
            "direction": rng.choice(["up", "down", "left", "right"]),
            "initialWidth": rng.choice([300, 400, 804]),
            "initialHeight": rng.choice([250, 400]),
            "showTicks": rng.random() < 0.9,
            "showBorder": rng.random() < 0.3,
        }
        if numeric:
            opts["scale"] = mods.scale.LinearScale()
        if rng.random() < 0.3:
            opts["dotColor"] = rng.choice(mods.utils.COLOR_10 + ["#abc"])
        if rng.random() < 0.2:
            opts["labelBgColor"] = lambda d, i=0: mods.utils.COLOR_20[i % 20]

        def build():
            cls = TL.TimelineTex if tex else TL.TimelineSVG
            tl = cls(items, options=opts)
            res = tl.export()
            return res

        rec("timeline %d" % c, build)


def collect(root, seed):
    mods = load(root)
    rng = random.Random(seed)
    results = []

    def rec(label, f, *a, **k):
        try:
            r = ("ok", canon(f(*a, **k)))
        except Exception as e:  # noqa
            r = ("exc", type(e).__name__, str(e))
        results.append((label, r))

    cases(mods, rng, rec)  # noqa: F821 (defined below)
    return results


def main():
    if len(sys.argv) != 3:
        print("usage: equiv.py <original-checkout> <refactored-checkout>")
        return 2
    seed = 20260206
    a = collect(sys.argv[1], seed)
    b = collect(sys.argv[2], seed)
    if len(a) != len(b):
        print("DIFFERENT number of cases: %d vs %d" % (len(a), len(b)))
        return 1
    for (la, ra), (lb, rb) in zip(a, b):
        if la != lb or ra != rb:
            print("DIFFERENCE at case %r / %r" % (la, lb))
            print("  original  :", repr(ra)[:2000])
            print("  refactored:", repr(rb)[:2000])
            return 1
    print("EQUIVALENT (%d cases)" % len(a))
    return 0


UNIT = {
    "second": 1,
    "minute": 60,
    "hour": 3600,
    "day": 86400,
    "week": 7 * 86400,
    "month": 30 * 86400,
    "year": 365 * 86400,
}


def range_cases(mods, rng, rec, n):
    d3 = mods.d3_time.d3_time
    for c in range(n):
        name = rng.choice(list(UNIT))
        iv = d3[name]
        t0 = rand_dt(rng, 1902, 2150)
        steps = rng.choice([0, 0, 1, 2, 5, 30, 120]) * rng.uniform(0.3, 1.5)
        t1 = t0 + _dt.timedelta(seconds=steps * UNIT[name])
        if rng.random() < 0.08:
            t0, t1 = t1, t0
        dt = rng.choice([0, 1, 1, 2, 3, 5, 6, 12, 15, 30, 0.5, 2.5, -1])
        rec("range %s %d" % (name, c), iv.range, t0, t1, dt)
        if rng.random() < 0.3:
            rec("plural %s %d" % (name, c), d3[name + "s"], t0, t1, dt)
    # edge cases / error paths
    t = _dt.datetime(2000, 2, 29, 12)
    for name in UNIT:
        iv = d3[name]
        rec("edge same " + name, iv.range, t, t, 1)
        rec("edge none " + name, iv.range, t, None, 1)
        rec("edge dtnone " + name, iv.range, t, t + _dt.timedelta(1), None)
        rec("edge str " + name, iv.range, "x", t, 1)
        rec("edge zero " + name, iv.range, t, t + _dt.timedelta(1), 0)
        rec(
            "edge 9999 " + name,
            iv.range,
            _dt.datetime(9999, 12, 30),
            _dt.datetime(9999, 12, 31, 23, 59, 59),
            1,
        )


def scale_cases(mods, rng, rec, n):
    S = mods.scale
    for c in range(n):
        dom = rand_domain(rng)
        sc = S.TimeScale()
        rec("dom %d" % c, lambda: sc.domain(dom).domain())
        arg = rng.choice([None, None, None, 2, 5, 10, 20])
        rec("ticks %d" % c, lambda: sc.ticks(arg) if arg else sc.ticks())
        which = rng.random()
        if which < 0.5:
            rec("nice %d" % c, lambda: sc.nice().domain())
        elif which < 0.8:
            k = rng.choice([1, 3, 5, 10, 30])
            rec("nice k %d" % c, lambda: sc.nice(k).domain())
        else:
            iv = mods.d3_time.d3_time[rng.choice(list(UNIT))]
            skip = rng.choice([0, 1, 2, 3, 5])
            rec("nice iv %d" % c, lambda: sc.nice(iv, skip).domain())
        rec("ticks2 %d" % c, lambda: sc.ticks())
        rec("fmt %d" % c, lambda: [sc.tickFormat()(t) for t in sc.ticks()])


def table(mods):
    d3 = mods.d3_time.d3_time
    names = {id(v): k for k, v in d3.items() if not k.endswith("s")}
    t = mods.scale.d3_time_scaleLocalMethods
    rows = [(type(r).__name__, names.get(id(r[0])), len(r), r[1]) for r in t]
    distinct = len(set(map(id, t))) == len(t)
    return [type(t).__name__, len(t), rows, distinct]


def tick_method_cases(mods, rng, rec, n):
    d3 = mods.d3_time.d3_time
    names = {id(v): k for k, v in d3.items() if not k.endswith("s")}
    names[id(mods.scale.d3_time_scaleMilliseconds)] = "ms"
    sc = mods.scale.TimeScale()
    for c in range(n):
        lo = rng.uniform(-2e12, 6e12)
        span = 10 ** rng.uniform(-1, 12.5)
        count = rng.choice([1, 2, 5, 10, 10, 20, 100])

        def f():
            m = sc.tickMethod([lo, lo + span], count)
            return [names[id(m[0])], m[1]]

        rec("tickMethod %d" % c, f)
    for i, step in enumerate(mods.scale.d3_time_scaleSteps):
        for mult in (0.999999, 1.0, 1.000001):
            rec(
                "tickMethod step %d %r" % (i, mult),
                lambda: (
                    lambda m: [names[id(m[0])], m[1]]
                )(sc.tickMethod([0.0, step * mult * 10], 10)),
            )


def cases(mods, rng, rec):
    rec("table", table, mods)
    rec("namespace", lambda: sorted(vars(mods.scale)))
    rec(
        "default methods",
        lambda: mods.scale.TimeScale()._methods
        is mods.scale.d3_time_scaleLocalMethods,
    )
    tick_method_cases(mods, rng, rec, 3000)
    scale_cases(mods, rng, rec, 800)
    timeline_cases(mods, rng, rec, 300)


if __name__ == "__main__":
    sys.exit(main())
