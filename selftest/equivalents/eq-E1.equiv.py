#!/usr/bin/env python
"""Differential equivalence test.

Usage: python equiv.py <original-checkout> <refactored-checkout>

Both trees are imported in-process (one after the other, purging
``sys.modules`` in between), the same deterministic battery of calls is run
against each, and the canonicalised outcomes (return value, exception type,
mutated arguments / receiver state) are compared one by one.
"""

import importlib
import os
import random
import sys
import types
from datetime import datetime, timedelta


def _purge():
    for key in [
        k for k in sys.modules if k == "labella" or k.startswith("labella.")
    ]:
        del sys.modules[key]


def load(root):
    root = os.path.abspath(root)
    _purge()
    sys.path.insert(0, root)
    try:
        scale = importlib.import_module("labella.scale")
        d3t = importlib.import_module("labella.d3_time")
    finally:
        sys.path.pop(0)
    for mod in (scale, d3t):
        assert os.path.abspath(mod.__file__).startswith(root + os.sep), (
            mod.__file__,
            root,
        )
    _purge()
    return types.SimpleNamespace(scale=scale, d3t=d3t, root=root)


class Canon(object):
    """Turn results into comparable, tree-independent plain data."""

    def __init__(self, ns):
        self.ns = ns
        self.names = {}
        for name, obj in ns.d3t.d3_time.items():
            if isinstance(obj, ns.d3t.d3_time_interval):
                self.names[id(obj)] = "interval:" + name
        self.names[id(ns.scale.d3_time_scaleMilliseconds)] = "interval:ms"

    def __call__(self, obj):
        ns = self.ns
        if id(obj) in self.names:
            return self.names[id(obj)]
        if obj is None or isinstance(obj, (bool, str)):
            return repr(obj)
        if isinstance(obj, (int, float)):
            return type(obj).__name__ + ":" + repr(obj)
        if isinstance(obj, (datetime, timedelta)):
            return type(obj).__name__ + ":" + repr(obj)
        if isinstance(obj, (list, tuple)):
            return [type(obj).__name__] + [self(x) for x in obj]
        if isinstance(obj, dict):
            return ["dict"] + [
                [self(k), self(v)] for k, v in sorted(obj.items(), key=repr)
            ]
        if isinstance(obj, types.GeneratorType):
            return ["generator"] + [self(x) for x in obj]
        if isinstance(obj, ns.scale.TimeScale):
            return [
                "TimeScale",
                self(obj._linear),
                "methods-default"
                if obj._methods is ns.scale.d3_time_scaleLocalMethods
                else self(obj._methods),
            ]
        if isinstance(obj, ns.scale.LinearScale):
            return [
                "LinearScale",
                self(obj._domain),
                self(obj._range),
                self(obj._clamp),
            ]
        if isinstance(obj, ns.d3t.d3_time_interval):
            return "interval:<anonymous>"
        if isinstance(obj, ns.scale.d3TimeScaleMilliseconds):
            return "interval:<anonymous ms>"
        if callable(obj):
            return "callable:" + getattr(obj, "__name__", type(obj).__name__)
        return "object:" + type(obj).__name__


def run_case(canon, thunk):
    try:
        return ["ok", canon(thunk())]
    except RecursionError:
        return ["exc", "RecursionError"]
    except Exception as err:  # noqa: BLE001 - we compare the type
        return ["exc", type(err).__name__]


def rand_dt(rng, lo_year=1900, hi_year=2100):
    lo = datetime(lo_year, 1, 1)
    hi = datetime(hi_year, 12, 31, 23, 59, 59)
    span = int((hi - lo).total_seconds())
    dt = lo + timedelta(seconds=rng.randrange(span))
    kind = rng.randrange(5)
    if kind == 0:
        return dt.replace(hour=0, minute=0, second=0)
    if kind == 1:
        return dt.replace(day=1, hour=0, minute=0, second=0)
    if kind == 2:
        return dt + timedelta(microseconds=rng.randrange(1000000))
    if kind == 3:
        return dt + timedelta(milliseconds=rng.randrange(1000))
    return dt


EDGE_DATES = [
    datetime(1970, 1, 1),
    datetime(1969, 12, 31, 23, 59, 59, 999000),
    datetime(2000, 2, 29),
    datetime(2016, 2, 29, 12),
    datetime(2011, 12, 31, 23, 59, 59),
    datetime(2012, 1, 1),
    datetime(2012, 1, 1, 0, 0, 0, 1),
    datetime(2012, 1, 1, 0, 0, 0, 1000),
    datetime(2015, 1, 31),
    datetime(2015, 3, 29, 2, 30),
    datetime(2017, 1, 1),  # a Sunday
    datetime(2017, 1, 7, 23, 59, 59, 999999),
    datetime(2018, 12, 30),
    datetime(1, 1, 1),
    datetime(1, 1, 2, 3, 4, 5),
    datetime(9999, 12, 31, 23, 59, 59),
    datetime(9999, 6, 15),
    datetime(1900, 1, 1),
]

INTERVAL_NAMES = ["second", "minute", "hour", "day", "week", "month", "year"]


def make_domains():
    rng = random.Random(20240101)
    domains = []
    spans = [
        timedelta(milliseconds=3),
        timedelta(milliseconds=250),
        timedelta(seconds=7),
        timedelta(seconds=90),
        timedelta(minutes=12),
        timedelta(hours=2),
        timedelta(hours=30),
        timedelta(days=5),
        timedelta(days=20),
        timedelta(days=100),
        timedelta(days=800),
        timedelta(days=5000),
        timedelta(days=40000),
    ]
    for i, span in enumerate(spans):
        for _ in range(2):
            start = rand_dt(rng)
            domains.append([start, start + span])
        start = rand_dt(rng)
        domains.append([start + span, start])  # descending domain
    for d in EDGE_DATES[:13]:
        domains.append([d, d])  # degenerate
        domains.append([d, d + timedelta(days=3, hours=5)])
    domains.append([datetime(9999, 1, 1), datetime(9999, 12, 31, 23)])
    domains.append([datetime(1, 1, 1), datetime(1, 1, 2, 12)])
    domains.append([datetime(1, 1, 1), datetime(9999, 12, 31)])
    # polylinear-looking (3 point) domain; only the ends are niced
    domains.append(
        [datetime(2009, 1, 1, 0, 12), datetime(2009, 6, 1), datetime(2010, 1, 1, 23, 48)]
    )
    domains.append([datetime(2009, 1, 1, 0, 17), datetime(2009, 1, 1, 23, 42)])
    return domains


def build_cases(ns):
    scale, d3t = ns.scale, ns.d3t
    d3_time = d3t.d3_time
    cases = []

    class FakeCount(float):
        """A number that also quacks like an interval: lets ``nice``/``ticks``
        keep the caller supplied interval when tickMethod returns a falsy
        method."""

        def range(self, t0, t1, dt):
            return d3_time["day"].range(t0, t1, dt)

        def floor(self, date):
            return d3_time["day"].floor(date)

        def ceil(self, date):
            return d3_time["day"].ceil(date)

    def fresh(domain, methods=None):
        ts = scale.TimeScale(methods=methods)
        ts.domain(list(domain))
        ts.range([0, 960])
        return ts

    def observe(ts, res, domain_in):
        out = {
            "ret_is_self": res is ts,
            "ret": res,
            "scale": ts,
            "arg": domain_in,
        }
        if res is ts:
            out["domain"] = ts.domain()
            try:
                out["probe"] = ts(datetime(2010, 5, 5, 5, 5, 5))
                out["inv"] = ts.invert(123.456)
            except Exception as err:  # noqa: BLE001
                out["probe"] = type(err).__name__
        return out

    def nice_case(domain, args, methods=None):
        def thunk():
            dom = list(domain)
            ts = fresh(dom, methods)
            a = [
                d3_time[x[1:]] if isinstance(x, str) and x.startswith("@") else x
                for x in args
            ]
            try:
                res = ts.nice(*a)
            except Exception as err:  # noqa: BLE001
                # state after a failed call must agree too
                return {"raised": type(err).__name__, "scale": ts, "arg": dom}
            return observe(ts, res, dom)

        return thunk

    def ticks_case(domain, args, methods=None):
        def thunk():
            dom = list(domain)
            ts = fresh(dom, methods)
            try:
                res = ts.ticks(*args)
            except Exception as err:  # noqa: BLE001
                return {"raised": type(err).__name__, "scale": ts, "arg": dom}
            return observe(ts, res, dom)

        return thunk

    domains = make_domains()

    nice_args = [
        (),
        (None, 0),
        (None, 5),
        (1,),
        (2,),
        (5,),
        (10,),
        (50,),
        (400,),
        (0,),  # numeric -> ZeroDivisionError in tickMethod
        (-5,),  # "-5" is not numeric -> interval stays an int
        (2.5,),  # "2.5" is not numeric
        ("7",),  # numeric string -> TypeError in tickMethod
        ("abc",),
        (True,),
        ("@day",),
        ("@day", 0),
        ("@day", 1),
        ("@day", 2),
        ("@day", 3),
        ("@day", None),  # None > 1 -> TypeError
        ("@week", 2),
        ("@week", 1),
        ("@month", 3),
        ("@month", 1),
        ("@year", 10),
        ("@year", 1),
        ("@hour", 6),
        ("@hour", 1.5),
        ("@minute", 15),
        ("@second", 30),
        ("@second",),
    ]
    n = 0
    for di, domain in enumerate(domains):
        # every domain gets the argument-free call and a rotating selection
        picks = [nice_args[0]] + [
            nice_args[(di * 5 + j * 7 + 1) % len(nice_args)] for j in range(6)
        ]
        for args in picks:
            cases.append(
                ("nice#%d dom=%d args=%r" % (n, di, args), nice_case(domain, args))
            )
            n += 1
    # full sweep of the argument table on a few representative domains
    for di in (0, 8, 17, 26, 33, len(domains) - 2, len(domains) - 1):
        for args in nice_args:
            cases.append(
                ("nice-sweep dom=%d args=%r" % (di, args),
                 nice_case(domains[di], args))
            )

    ticks_args = [
        (),
        (None,),
        (None, 7),
        (1,),
        (2,),
        (3,),
        (5,),
        (10,),
        (10, 0),
        (10, None),
        (20,),
        (100,),
        (1000,),
        (0,),
        (-3,),
        (2.5,),
        ("5",),
        (True,),
    ]
    n = 0
    for di, domain in enumerate(domains):
        picks = [ticks_args[0]] + [
            ticks_args[(di * 3 + j * 5 + 1) % len(ticks_args)] for j in range(4)
        ]
        for args in picks:
            cases.append(
                ("ticks#%d dom=%d args=%r" % (n, di, args),
                 ticks_case(domain, args))
            )
            n += 1
    for di in (1, 9, 20, 30, len(domains) - 1):
        for args in ticks_args:
            cases.append(
                ("ticks-sweep dom=%d args=%r" % (di, args),
                 ticks_case(domains[di], args))
            )

    # Falsy method path: a methods table full of empty entries makes
    # tickMethod return [] so that the caller's interval / skip survive.
    empty_methods = [[] for _ in range(18)]
    dom = [datetime(2014, 3, 3, 7), datetime(2014, 5, 20, 19)]
    for count in (3, 10, 40):
        for skip in (None, -1, 0, 0.5, 1, 2, 3, 7):
            cases.append(
                ("ticks-falsy count=%r skip=%r" % (count, skip),
                 ticks_case(dom, (FakeCount(count), skip), empty_methods))
            )
            cases.append(
                ("nice-falsy count=%r skip=%r" % (count, skip),
                 nice_case(dom, (count, skip), empty_methods))
            )
            cases.append(
                ("nice-fake count=%r skip=%r" % (count, skip),
                 nice_case(dom, (FakeCount(count), skip)))
            )
    for skip in (None, 0, 1, 2):
        cases.append(
            ("ticks-falsy-none skip=%r" % (skip,),
             ticks_case(dom, (None, skip), empty_methods))
        )
        cases.append(
            ("nice-falsy-none skip=%r" % (skip,),
             nice_case(dom, (None, skip), empty_methods))
        )
    # truncated method entries: method[1] missing -> IndexError
    short_methods = [[d3_time["day"]] for _ in range(18)]
    cases.append(("ticks-short", ticks_case(dom, (10,), short_methods)))
    cases.append(("nice-short", nice_case(dom, (10,), short_methods)))
    return cases


def main(argv):
    if len(argv) != 3:
        print("usage: equiv.py <original-checkout> <refactored-checkout>")
        return 2
    outcomes = []
    for root in argv[1:3]:
        ns = load(root)
        canon = Canon(ns)
        results = []
        for label, thunk in build_cases(ns):
            results.append((label, run_case(canon, thunk)))
        outcomes.append(results)
    old, new = outcomes
    diffs = []
    if [l for l, _ in old] != [l for l, _ in new]:
        diffs.append("case lists differ (%d vs %d)" % (len(old), len(new)))
    else:
        for (label, a), (_, b) in zip(old, new):
            if a != b:
                diffs.append("%s\n    original:   %r\n    refactored: %r"
                             % (label, a, b))
    n_ok = sum(1 for _, r in old if r[0] == "ok")
    n_exc = len(old) - n_ok
    if len(old) < 200:
        diffs.append("too few cases: %d" % len(old))
    if diffs:
        print("DIFFERENT (%d of %d cases)" % (len(diffs), len(old)))
        for d in diffs[:40]:
            print("  " + d)
        return 1
    print("EQUIVALENT (%d cases: %d returned, %d raised)"
          % (len(old), n_ok, n_exc))
    return 0


if __name__ == "__main__":
    sys.exit(main(sys.argv))
