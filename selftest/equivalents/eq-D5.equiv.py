#!/usr/bin/env python
"""Differential equivalence test (group D, labella/scale.py).

Usage: python equiv.py <original-checkout> <refactored-checkout>

Each tree is exercised in its own subprocess (so that the package
``labella`` is imported from exactly that tree); the printed traces are
compared line by line.
"""
import math
import os
import random
import subprocess
import sys

NAN = float("nan")
INF = float("inf")


def outcome(thunk):
    """repr of the result, or the exception type name."""
    try:
        return "ok " + repr(thunk())
    except Exception as exc:  # noqa: BLE001
        return "exc " + type(exc).__name__


def load(tree):
    tree = os.path.abspath(tree)
    sys.path.insert(0, tree)
    import labella.scale as mod

    assert os.path.abspath(mod.__file__).startswith(tree + os.sep), mod.__file__
    return mod


def main():
    if len(sys.argv) == 3 and sys.argv[1] == "--worker":
        mod = load(sys.argv[2])
        n = 0
        for label, thunk in cases(mod):
            n += 1
            print("%04d %s => %s" % (n, label, outcome(thunk)))
        return 0
    if len(sys.argv) != 3:
        print(__doc__)
        return 2
    traces = []
    for tree in sys.argv[1:3]:
        env = dict(os.environ)
        env.pop("PYTHONPATH", None)
        env["PYTHONHASHSEED"] = "0"
        proc = subprocess.run(
            [sys.executable, os.path.abspath(__file__), "--worker", tree],
            stdout=subprocess.PIPE,
            stderr=subprocess.PIPE,
            text=True,
            cwd="/",
            env=env,
        )
        if proc.returncode != 0:
            print("DIFFERENT (worker crashed on %s)" % tree)
            print(proc.stderr)
            return 1
        traces.append(proc.stdout.splitlines())
    old, new = traces
    diffs = []
    if len(old) != len(new):
        diffs.append("trace length %d vs %d" % (len(old), len(new)))
    for a, b in zip(old, new):
        if a != b:
            diffs.append("- %s\n+ %s" % (a, b))
    if len(old) < 200:
        diffs.append("only %d cases exercised" % len(old))
    if diffs:
        print("DIFFERENT")
        for d in diffs[:40]:
            print(d)
        return 1
    print("EQUIVALENT (%d cases)" % len(old))
    return 0


def domains():
    rng = random.Random(5005)
    doms = [
        [], [3], [0, 0], [2.5, 2.5], [0, 1], [1, 0], [-5, 5], [5, -5], [0, 100],
        [0.1, 0.9], [0.13, 0.87], [1.3, 98.7], [-98.7, -1.3], [0, 7], [0, 0.15],
        [0, 0.35], [0, 0.75], [0.001, 0.002], [-7.25, -1.5], [1e-9, 3e-9],
        [1e9, 3.3e12], [-1e-300, 1e-300], [0, 5e-324], [0, 1e308], [-1e308, 1e308],
        [NAN, 1], [1, NAN], [INF, -INF], [0, INF], [1, 2, 3], [3, 2, 1], [2, 9, 2],
        [4, -1, 7, 0], [0.3, 500, 7.7], (2, 8), (8, 2), (0.3, 7.7), ["a", "b"],
        [None, 1], [True, False], None, 5, "ab",
    ]
    for _ in range(90):
        scale = 10 ** rng.randint(-6, 9)
        if rng.random() < 0.3:
            d = [rng.randint(-200, 200), rng.randint(-200, 200)]
        else:
            d = [rng.uniform(-1, 1) * scale, rng.uniform(-1, 1) * scale]
        if rng.random() < 0.2:
            d.insert(1, rng.uniform(-1, 1))
        doms.append(d)
    return doms


MS = [None, 10, 1, 2, 3, 4, 5, 7, 20, 64, 100, 0.5, 2.5, 0, -1, -10, NAN, INF, "x"]


def take(gen, limit=3000):
    out = []
    for v in gen:
        out.append(v)
        if len(out) >= limit:
            out.append("...")
            break
    return out


class Spy(list):
    """A list that logs item reads/writes (order of domain accesses)."""

    def __init__(self, *a):
        list.__init__(self, *a)
        self.log = []

    def __getitem__(self, i):
        self.log.append(("get", i))
        return list.__getitem__(self, i)

    def __setitem__(self, i, v):
        self.log.append(("set", i, v))
        return list.__setitem__(self, i, v)


def cases(mod):
    import copy
    import types
    from datetime import datetime, timedelta

    doms = domains()
    for d in doms:
        for m in MS:

            def nice(d=copy.deepcopy(d), m=m):
                try:
                    res = mod.d3_scale_linearNice(d, m)
                except Exception as exc:  # noqa: BLE001
                    return ("raised", type(exc).__name__, d)
                return (res, res is d, d)

            yield "linearNice(%r, %r)" % (d, m), nice

            def ticks(d=copy.deepcopy(d), m=m):
                try:
                    g = mod.d3_scale_linearTicks(d, m)
                except Exception as exc:  # noqa: BLE001
                    return ("raised at call", type(exc).__name__, d)
                kind = (type(g).__name__, isinstance(g, types.GeneratorType))
                try:
                    vals = take(g)
                except Exception as exc:  # noqa: BLE001
                    return ("raised at iteration", kind, type(exc).__name__, d)
                return (kind, vals, d)

            yield "linearTicks(%r, %r)" % (d, m), ticks

    for d in doms:
        yield "linearNice-default(%r)" % (d,), (
            lambda d=copy.deepcopy(d): (mod.d3_scale_linearNice(d), d)
        )

    # order of reads/writes on the domain during the two passes
    for d in doms:
        if not isinstance(d, list):
            continue
        for m in (None, 3, 0):

            def run(d=d, m=m):
                spy = Spy(copy.deepcopy(d))
                try:
                    res = mod.d3_scale_linearNice(spy, m)
                    tag = ("ok", res is spy)
                except Exception as exc:  # noqa: BLE001
                    tag = ("raised", type(exc).__name__)
                return (tag, list(spy), spy.log)

            yield "linearNice-spy(%r, %r)" % (d, m), run

    # idempotence / second pass matters
    for d in doms:
        if not isinstance(d, list):
            continue

        def run(d=copy.deepcopy(d)):
            a = mod.d3_scale_linearNice(list(d), 10)
            b = mod.d3_scale_linearNice(list(a), 10)
            return (a, b)

        yield "linearNice twice %r" % (d,), run

    # public API
    for d in doms:
        if not isinstance(d, (list, tuple)):
            continue
        for m in (None, 2, 5, 12):

            def run(d=copy.deepcopy(d), m=m):
                ls = mod.LinearScale().domain(d).range([0, 640])
                t0 = take(ls.ticks(m))
                ret = ls.nice(m)
                t1 = take(ls.ticks(m))
                f = ls.tickFormat(m)
                return (t0, ret is ls, ls.domain(), t1,
                        [f(v) for v in t1[:8] if not isinstance(v, str)],
                        ls(0.5), ls.invert(320))

            yield "LinearScale ticks/nice %r m=%r" % (d, m), run

    base = datetime(1999, 12, 31, 23, 59, 58)
    for sp in (timedelta(milliseconds=3), timedelta(milliseconds=80),
               timedelta(milliseconds=900), timedelta(seconds=20),
               timedelta(days=2), timedelta(days=365 * 40), timedelta(days=365 * 300)):
        for count in (None, 3, 10):

            def run(sp=sp, count=count):
                ts = mod.TimeScale().domain([base, base + sp])
                t = ts.ticks(count)
                ts.nice(count)
                return (len(t), t[:4], t[-2:], ts.domain())

            yield "TimeScale span=%r count=%r" % (sp, count), run


if __name__ == "__main__":
    sys.exit(main())
