#!/usr/bin/env python
# -*- coding: utf-8 -*-
"""Differential test: python equiv.py <original-checkout> <refactored-checkout>

Imports the ``labella`` package from each checkout in turn, runs the selected
scenario families with identical seeds in both, and compares every result
exactly (floats through float.hex, exceptions through type name and message).
"""

import datetime
import importlib
import os
import random
import sys

# Scenario families to run for this rewrite (name, number of seeds).
SELECT = [
    ("distributor", 6000),
    ("force", 1500),
    ("timeline", 300),
]

SUBMODULES = [
    "labella",
    "labella.vpsc",
    "labella.node",
    "labella.removeOverlap",
    "labella.distributor",
    "labella.metrics",
    "labella.force",
    "labella.scale",
    "labella.timeline",
]


class NS(object):
    pass


def load(root):
    root = os.path.realpath(root)
    for name in list(sys.modules):
        if name == "labella" or name.startswith("labella."):
            del sys.modules[name]
    importlib.invalidate_caches()
    sys.path.insert(0, root)
    try:
        ns = NS()
        for name in SUBMODULES:
            mod = importlib.import_module(name)
            f = os.path.realpath(mod.__file__)
            assert f.startswith(root + os.sep), (name, f, root)
            setattr(ns, name.split(".")[-1], mod)
        for name, mod in list(sys.modules.items()):
            if name == "labella" or name.startswith("labella."):
                f = os.path.realpath(mod.__file__)
                assert f.startswith(root + os.sep), (name, f, root)
    finally:
        sys.path.remove(root)
    return ns


# ---------------------------------------------------------------------------
# canonical form


def canon(x):
    if x is None or isinstance(x, (bool, str, bytes)):
        return x
    if isinstance(x, int):
        return ("i", x)
    if isinstance(x, float):
        return ("f", x.hex())
    if isinstance(x, (list, tuple)):
        return (type(x).__name__, [canon(y) for y in x])
    if isinstance(x, dict):
        return ("dict", [(canon(k), canon(v)) for k, v in x.items()])
    if isinstance(x, (datetime.datetime, datetime.date)):
        return ("dt", x.isoformat())
    return ("obj", type(x).__name__)


def attempt(fn, *args, **kwargs):
    try:
        return ("ok", canon(fn(*args, **kwargs)))
    except RecursionError:
        raise
    except Exception as e:
        return ("exc", type(e).__name__, str(e))


# ---------------------------------------------------------------------------
# helpers for random data


def rnum(rng, lo=-50, hi=50):
    k = rng.random()
    if k < 0.45:
        return rng.randint(lo, hi)
    if k < 0.9:
        return rng.uniform(lo, hi)
    if k < 0.95:
        return round(rng.uniform(lo, hi), 1)
    return float(rng.randint(lo, hi))


def make_problem(L, rng, nmax=14):
    vpsc = L.vpsc
    n = rng.randint(1, nmax)
    mode = rng.random()
    vs = []
    for i in range(n):
        d = rnum(rng, -30, 30)
        if mode < 0.5:
            v = vpsc.Variable(d)
        else:
            w = rng.choice([None, 1, 2, 0.5, 3.25, 1e10, 7])
            s = rng.choice([None, 1, 1, 2, 3, 0.5])
            v = vpsc.Variable(d, w, s)
        vs.append(v)
    cs = []
    style = rng.random()
    if style < 0.35:
        # chain, as produced by removeOverlap
        for i in range(1, n):
            cs.append(vpsc.Constraint(vs[i - 1], vs[i], rnum(rng, 0, 12)))
    else:
        m = rng.randint(0, 2 * n)
        for _ in range(m):
            a = rng.randrange(n)
            b = rng.randrange(n)
            if a == b:
                continue
            if a > b and rng.random() < 0.9:
                a, b = b, a
            gap = rnum(rng, -3, 12)
            k = rng.random()
            if k < 0.7:
                c = vpsc.Constraint(vs[a], vs[b], gap)
            elif k < 0.8:
                c = vpsc.Constraint(vs[a], vs[b], gap, False)
            elif k < 0.9:
                c = vpsc.Constraint(vs[a], vs[b], gap, None)
            else:
                c = vpsc.Constraint(vs[a], vs[b], gap, True)
            cs.append(c)
    return vs, cs


def dump_solver(solver, vs, cs):
    vid = {id(v): i for i, v in enumerate(vs)}
    cid = {id(c): i for i, c in enumerate(cs)}
    out = []
    for v in vs:
        blk = getattr(v, "block", None)
        out.append(
            (
                v.desiredPosition,
                v.weight,
                v.scale,
                v.offset,
                attempt(v.position) if blk is not None else None,
                [cid[id(c)] for c in v.cIn],
                [cid[id(c)] for c in v.cOut],
            )
        )
    for c in cs:
        out.append(
            (
                c.active,
                c.unsatisfiable,
                c.equality,
                getattr(c, "lm", "nolm"),
                c.gap,
            )
        )
    out.append([cid[id(c)] for c in solver.inactive])
    if solver.bs is not None:
        out.append(dump_blocks(solver.bs, vid))
    return canon(out)


def dump_blocks(bs, vid):
    out = []
    for b in bs._list:
        out.append(
            (
                b.blockInd,
                b.posn,
                b.ps.scale,
                b.ps.AB,
                b.ps.AD,
                b.ps.A2,
                [vid[id(v)] for v in b.vars],
            )
        )
    return out


# ---------------------------------------------------------------------------
# families; every function returns a list of canonical results


def fam_solver(L, seed):
    rng = random.Random(seed)
    vs, cs = make_problem(L, rng)
    solver = L.vpsc.Solver(vs, cs)
    res = []
    how = rng.random()
    if how < 0.6:
        res.append(attempt(solver.solve))
    elif how < 0.8:
        res.append(attempt(solver.satisfy))
        res.append(dump_solver(solver, vs, cs))
        res.append(attempt(solver.satisfy))
        res.append(attempt(solver.cost))
    else:
        res.append(attempt(solver.solve))
        res.append(dump_solver(solver, vs, cs))
        ps = [rnum(rng, -30, 30) for _ in vs]
        res.append(attempt(solver.setDesiredPositions, ps))
        res.append(attempt(solver.solve))
    res.append(dump_solver(solver, vs, cs))
    res.append([repr(v) for v in vs])
    res.append([str(c) for c in cs])
    return res


def fam_solver_steps(L, seed):
    rng = random.Random(seed)
    vpsc = L.vpsc
    vs, cs = make_problem(L, rng)
    vid = {id(v): i for i, v in enumerate(vs)}
    cid = {id(c): i for i, c in enumerate(cs)}
    solver = vpsc.Solver(vs, cs)
    res = []
    bs = vpsc.Blocks(vs)
    solver.bs = bs
    res.append(canon(dump_blocks(bs, vid)))
    res.append(attempt(bs.cost))
    steps = rng.randint(1, 12)
    for _ in range(steps):
        op = rng.random()
        if op < 0.35:
            r = attempt(solver.mostViolated)
            res.append(r)
            try:
                v = solver.mostViolated()
            except Exception:
                v = None
            res.append(None if v is None else cid[id(v)])
            res.append([cid[id(c)] for c in solver.inactive])
        elif op < 0.7 and cs:
            c = rng.choice(cs)
            if c.left.block is not c.right.block and not c.active:
                before = bs._list
                res.append(attempt(bs.merge, c))
                res.append(before is bs._list)
                res.append([vid[id(v)] for b in before for v in b.vars])
        elif op < 0.8 and cs:
            c = rng.choice(cs)
            if c.left.block is c.right.block and c.left is not c.right:
                b = c.left.block
                r = None
                try:
                    r = b.splitBetween(c.left, c.right)
                except Exception as e:
                    res.append(("exc", type(e).__name__, str(e)))
                if r is None:
                    res.append(None)
                else:
                    res.append(sorted(r))
                    res.append(cid[id(r["constraint"])])
                    for key in ("lb", "rb"):
                        blk = r[key]
                        res.append(
                            canon(
                                (
                                    blk.posn,
                                    blk.ps.AB,
                                    blk.ps.AD,
                                    blk.ps.A2,
                                    [vid[id(v)] for v in blk.vars],
                                )
                            )
                        )
                    # keep the solver state consistent, as satisfy() does
                    bs.insert(r["lb"])
                    bs.insert(r["rb"])
                    bs.remove(b)
                    solver.inactive.append(r["constraint"])
        elif op < 0.9:
            inactive = []
            res.append(attempt(bs.split, inactive))
            res.append([cid[id(c)] for c in inactive])
        else:
            res.append(attempt(solver.satisfy))
        res.append(canon(dump_blocks(solver.bs, vid)))
        res.append(attempt(solver.bs.cost))
        bs = solver.bs
    res.append(dump_solver(solver, vs, cs))
    return res


def fam_vpsc_misc(L, seed):
    rng = random.Random(seed)
    vpsc = L.vpsc
    res = []
    # constructor defaults and reprs
    for _ in range(4):
        args = [rnum(rng)]
        k = rng.randint(0, 2)
        for _ in range(k):
            args.append(rng.choice([None, 0, 1, 2, 0.0, 0.5, 3, 1e10, ""]))
        try:
            v = vpsc.Variable(*args)
            res.append(
                canon((v.desiredPosition, v.weight, v.scale, v.offset, v.node))
            )
            res.append(repr(v))
            res.append(str(v))
            res.append(type(v.weight).__name__ + type(v.scale).__name__)
        except Exception as e:
            res.append(("exc", type(e).__name__, str(e)))
    a = vpsc.Variable(rnum(rng), rng.choice([None, 2, 0.5]))
    b = vpsc.Variable(rnum(rng), None, rng.choice([None, 2, 3.5]))
    for eq in ("omit", None, False, True, 0, 1, "", "x", [], [0]):
        if eq == "omit":
            c = vpsc.Constraint(a, b, rnum(rng))
        else:
            c = vpsc.Constraint(a, b, rnum(rng), eq)
        res.append(
            canon((c.gap, c.equality, c.active, c.unsatisfiable))
            if not isinstance(c.equality, list)
            else canon((c.gap, list(c.equality), c.active))
        )
        res.append(type(c.equality).__name__)
        res.append(repr(c))
        res.append(str(c))
        vpsc.Block(a)
        vpsc.Block(b)
        res.append(attempt(c.slack))
        c.unsatisfiable = True
        res.append(attempt(c.slack))
    # blocks built by hand
    n = rng.randint(1, 8)
    vs = [
        vpsc.Variable(rnum(rng), rng.choice([None, 1, 2, 0.25]))
        for _ in range(n)
    ]
    vid = {id(v): i for i, v in enumerate(vs)}
    bs = vpsc.Blocks(vs)
    res.append(canon(dump_blocks(bs, vid)))
    res.append(attempt(bs.cost))
    seen = []
    bs.forEach(lambda blk: seen.append(blk.blockInd))
    res.append(seen)
    for blk in list(bs._list):
        blk.posn = rnum(rng)
        res.append(attempt(blk.cost))
    res.append(attempt(bs.cost))
    bs.updateBlockPositions()
    res.append(canon(dump_blocks(bs, vid)))
    k = rng.randrange(n)
    old = bs._list
    victim = old[k]
    bs.remove(victim)
    res.append(old is bs._list)
    res.append(len(old))
    res.append(canon(dump_blocks(bs, vid)))
    # setStartingPositions (Blocks is not iterable: same failure expected)
    vs2, cs2 = make_problem(L, rng, nmax=6)
    solver = vpsc.Solver(vs2, cs2)
    res.append(attempt(solver.setStartingPositions, [rnum(rng) for _ in vs2]))
    res.append(dump_solver(solver, vs2, cs2))
    return res


def describe(node):
    depth = 0
    cur = node
    while cur.child:
        depth += 1
        cur = cur.child
    up = 0
    cur = node
    while cur.parent:
        up += 1
        cur = cur.parent
    return (
        node.data if not hasattr(node.data, "data") else "item",
        depth,
        up,
        node.idealPos,
        node.currentPos,
        node.width,
        node.layerIndex,
        getattr(node, "targetPos", "notarget"),
        node.overlapCount,
    )


def make_nodes(L, rng, nmax=25, span=400):
    Node = L.node.Node
    n = rng.randint(1, nmax)
    kind = rng.random()
    nodes = []
    for i in range(n):
        if kind < 0.4:
            pos = rng.randint(0, span)
            w = rng.randint(1, 60)
        elif kind < 0.8:
            pos = rng.uniform(0, span)
            w = rng.uniform(1, 60)
        else:
            pos = rng.choice([0, 10, 10.0, 20, 50, span])
            w = rng.choice([10, 20, 50.0])
        nodes.append(Node(pos, w, i))
    return nodes


def fam_remove_overlap(L, seed):
    rng = random.Random(seed)
    ro = L.removeOverlap
    res = []
    nodes = make_nodes(L, rng)
    if rng.random() < 0.03:
        nodes = []
    # some nodes get a stub (laid out first), the node then follows its stub
    layer = list(nodes)
    upper = []
    if rng.random() < 0.5:
        for nd in nodes:
            if rng.random() < 0.4:
                st = nd.createStub(rng.choice([1, 2, 1.5]))
                st.currentPos = rnum(rng, 0, 400)
                if rng.random() < 0.5:
                    layer.append(st)
                else:
                    upper.append(st)
    rng.shuffle(layer)
    k = rng.random()
    if k < 0.2:
        options = None
    elif k < 0.3:
        options = {}
    else:
        options = {}
        if rng.random() < 0.5:
            options["lineSpacing"] = rng.choice([0, 1, 2, 2.5, 4])
        if rng.random() < 0.5:
            options["nodeSpacing"] = rng.choice([0, 1, 3, 3.5, 10])
        if rng.random() < 0.5:
            options["minPos"] = rng.choice([None, 0, 0.0, -20, 15, 33.3, 100])
        if rng.random() < 0.5:
            options["maxPos"] = rng.choice(
                [None, 0, 100, 250.5, 400, 1000, 50]
            )
        if rng.random() < 0.1:
            options["extra"] = "ignored"
        if rng.random() < 0.04:
            options["minPos"] = "left"
        if rng.random() < 0.04:
            options["maxPos"] = "right"
        if rng.random() < 0.04:
            options["nodeSpacing"] = None
    snapshot = None if options is None else dict(options)
    try:
        out = ro.removeOverlap(layer, options)
        res.append(out is layer)
    except Exception as e:
        res.append(("exc", type(e).__name__, str(e)))
    res.append(canon(options) == canon(snapshot))
    res.append(canon([describe(nd) for nd in layer]))
    res.append(canon([describe(nd) for nd in nodes]))
    res.append(canon([describe(nd) for nd in upper]))
    res.append(canon(ro.DEFAULT_OPTIONS))
    return res


def fam_distributor(L, seed):
    rng = random.Random(seed)
    D = L.distributor
    res = []
    k = rng.random()
    if k < 0.1:
        options = None
    else:
        options = {}
        if rng.random() < 0.8:
            options["algorithm"] = rng.choice(
                [
                    "overlap",
                    "overlap",
                    "simple",
                    "simple",
                    "roundRobin",
                    "none",
                    "bogus",
                    "",
                    None,
                    3,
                    ("overlap",),
                    "Overlap",
                ]
            )
        if rng.random() < 0.7:
            options["layerWidth"] = rng.choice(
                [None, 0, 50, 100, 200, 400.5, 1000]
            )
        if rng.random() < 0.5:
            options["density"] = rng.choice([0.1, 0.5, 0.75, 0.85, 1, 2])
        if rng.random() < 0.4:
            options["nodeSpacing"] = rng.choice([0, 1, 3, 4.5])
        if rng.random() < 0.4:
            options["stubWidth"] = rng.choice([1, 2, 0.5])
        if rng.random() < 0.03:
            options["algorithm"] = ["overlap"]
        if rng.random() < 0.03:
            options["density"] = 0
    snapshot = None if options is None else dict(options)
    dist = D.Distributor(options) if rng.random() < 0.9 else D.Distributor()
    res.append(canon(dist.options))
    res.append(canon(options) == canon(snapshot))
    if rng.random() < 0.03:
        del dist.options["algorithm"]
    nodes = make_nodes(L, rng, nmax=30, span=rng.choice([100, 400, 1000]))
    if rng.random() < 0.04:
        nodes = rng.choice([[], None, ()])
    if nodes:
        res.append(attempt(dist.computeRequiredWidth, nodes))
        res.append(attempt(dist.maxWidthPerLayer))
        res.append(attempt(dist.estimateRequiredLayers, nodes))
        r = attempt(dist.estimateRequiredLayers, nodes)
        res.append(r)
        try:
            res.append(type(dist.estimateRequiredLayers(nodes)).__name__)
        except Exception as e:
            res.append(type(e).__name__)
        res.append(attempt(dist.needToSplit, nodes))
        if rng.random() < 0.2:
            res.append(attempt(dist.algorithm_simple, list(nodes)))
            for nd in nodes:
                nd.removeStub()
    try:
        layers = dist.distribute(nodes)
        res.append(len(layers))
        res.append([x is nodes for x in layers])
        res.append(canon([[describe(nd) for nd in lay] for lay in layers]))
    except Exception as e:
        res.append(("exc", type(e).__name__, str(e)))
    if nodes:
        res.append(canon([describe(nd) for nd in nodes]))
        res.append(
            canon(
                [
                    sorted(x.data for x in getattr(nd, "overlaps", []))
                    for nd in nodes
                ]
            )
        )
    return res


def fam_force(L, seed):
    rng = random.Random(seed)
    F = L.force
    res = []
    k = rng.random()
    if k < 0.1:
        options = None
    else:
        options = {}
        if rng.random() < 0.6:
            options["minPos"] = rng.choice([None, 0, 0.0, 10, -50, 25.5])
        if rng.random() < 0.7:
            options["maxPos"] = rng.choice([None, 0, 100, 300, 400.5, 1000])
        if rng.random() < 0.6:
            options["algorithm"] = rng.choice(
                ["overlap", "overlap", "simple", "none", "roundRobin", "bogus"]
            )
        if rng.random() < 0.4:
            options["density"] = rng.choice([0.3, 0.5, 0.75, 0.85, 1])
        if rng.random() < 0.4:
            options["nodeSpacing"] = rng.choice([0, 1, 3, 4.5])
        if rng.random() < 0.3:
            options["stubWidth"] = rng.choice([1, 2, 0.5])
        if rng.random() < 0.3:
            options["lineSpacing"] = rng.choice([0, 2, 5])
        if rng.random() < 0.3:
            options["layerWidth"] = rng.choice([None, 100, 500])
        if rng.random() < 0.1:
            options["direction"] = "up"
    snapshot = None if options is None else dict(options)
    try:
        force = F.Force(options) if rng.random() < 0.9 else F.Force()
    except Exception as e:
        return [("exc", type(e).__name__, str(e))]
    res.append(canon(force.options))
    res.append(canon(force.distributor.options))
    res.append(canon(options) == canon(snapshot))
    if rng.random() < 0.3:
        extra = rng.choice(
            [
                None,
                {},
                {"maxPos": 200},
                {"minPos": None},
                {"minPos": 5, "maxPos": 5},
                {"maxPos": None, "density": 0.5},
                {"minPos": "a", "maxPos": 3},
            ]
        )
        if rng.random() < 0.5:
            res.append(attempt(force.set_options, extra))
        else:
            res.append(attempt(force.set_options))
        res.append(canon(force.options))
        res.append(canon(force.distributor.options))
    if rng.random() < 0.03:
        del force.options["minPos"]
        res.append(attempt(force.set_options))
        res.append(canon(force.distributor.options))
    if rng.random() < 0.03:
        del force.options["maxPos"]
        res.append(attempt(force.set_options, {"minPos": 1}))
        res.append(canon(force.distributor.options))
    nodes = make_nodes(L, rng, nmax=30, span=rng.choice([100, 400, 1000]))
    res.append(canon(force.nodes()))
    res.append(attempt(force.nodes, nodes))
    res.append(force.nodes() is nodes)
    res.append(canon(force.getLayers()))
    res.append(attempt(force.compute))
    layers = force.getLayers()
    if layers is None:
        res.append(None)
    else:
        res.append(canon([[describe(nd) for nd in lay] for lay in layers]))
    res.append(canon([describe(nd) for nd in nodes]))
    names = [
        "overflow",
        "overDensity",
        "overlapCount",
        "overlapSpace",
        "displacement",
        "pathLength",
        "overflowSpace",
        "overDensitySpace",
        "weightedAllocation",
        "weightedAllocatedSpace",
        "denominator",
        "toLayers",
        "nosuchmetric",
        "_private",
        "",
    ]
    for name in names:
        res.append((name, attempt(force.metric, name)))
    res.append(attempt(force.metrics))
    # metrics module state patched with plain values
    M = L.metrics
    M.overflow = lambda layers, a, b: ("overflow", a, b)
    M.overDensity = lambda layers, d, w, s: ("overDensity", d, w, s)
    M.zero = 0
    M.nothing = None
    try:
        for name in ("overflow", "overDensity", "overlapCount", "zero", "nothing"):
            res.append((name, attempt(force.metric, name)))
        res.append(attempt(force.metrics))
    finally:
        del M.overflow, M.overDensity, M.zero, M.nothing
    return res


def fam_node(L, seed):
    rng = random.Random(seed)
    Node = L.node.Node
    res = []
    nodes = make_nodes(L, rng, nmax=6)
    for nd in nodes:
        nd.currentPos = rnum(rng, 0, 400)
        nd.layerIndex = rng.randint(0, 4)
        if rng.random() < 0.3:
            nd.data = rng.choice(["text", None, {"a": 1}, 2.5, ("t", 1)])
    allnodes = list(nodes)
    for nd in nodes:
        cur = nd
        for _ in range(rng.choice([0, 0, 1, 2, 5])):
            cur = cur.createStub(rng.choice([None, 1, 2.5, 1, 2, 3, 4.5, 2]))
            cur.currentPos = rnum(rng, 0, 400)
            allnodes.append(cur)
    ident = {id(nd): i for i, nd in enumerate(allnodes)}
    for nd in allnodes:
        res.append(repr(nd))
        res.append(str(nd))
        res.append("%s|%r|{}".format(nd) % (nd, nd))
        res.append([ident[id(x)] for x in nd.getPathToRoot()])
        res.append(type(nd.getPathToRoot()).__name__)
        res.append(nd.getPathToRoot() is not nd.getPathToRoot())
        res.append([ident[id(x)] for x in nd.getPathFromRoot()])
        res.append(ident[id(nd.getRoot())])
        res.append(attempt(nd.getPathToRootLength))
        res.append(attempt(nd.displacement))
        res.append(nd.isStub())
        res.append(nd.getLayerIndex())
        res.append(
            canon(
                (
                    attempt(nd.currentLeft),
                    attempt(nd.currentRight),
                    attempt(nd.idealLeft),
                    attempt(nd.idealRight),
                )
            )
        )
        other = rng.choice(allnodes)
        buf = rng.choice([None, 0, 1, 2.5, -1])
        res.append(attempt(nd.distanceFrom, other))
        res.append(attempt(nd.overlapWithNode, other, buf))
        res.append(attempt(nd.overlapWithNode, other))
        res.append(attempt(nd.overlapWithPoint, rnum(rng, 0, 400)))
        res.append(attempt(nd.positionBefore, other, buf))
        res.append(attempt(nd.positionAfter, other, buf))
        if rng.random() < 0.1:
            res.append(attempt(nd.moveToIdealPosition))
            res.append(canon(nd.currentPos))
        cl = nd.clone()
        res.append(canon(describe(cl)))
        res.append(repr(cl))
    # removing stubs
    for nd in allnodes:
        if rng.random() < 0.5:
            res.append(nd.removeStub() is nd)
    for nd in allnodes:
        res.append([ident[id(x)] for x in nd.getPathToRoot()])
        res.append(ident[id(nd.getRoot())])
        res.append(repr(nd))
    return res


WORDS = ["alpha", "beta", "gamma delta", "x", "Lorem ipsum", "a_b", "50% & more"]


def fam_timeline(L, seed):
    rng = random.Random(seed)
    T = L.timeline
    res = []
    n = rng.randint(1, 18)
    numeric = rng.random() < 0.5
    items = []
    base = datetime.datetime(
        rng.randint(1950, 2100), rng.randint(1, 12), rng.randint(1, 28)
    )
    spread = rng.choice([3600, 86400, 86400 * 40, 86400 * 365 * 5])
    for i in range(n):
        if numeric:
            t = rng.choice([rng.randint(0, 100), rng.uniform(0, 100)])
        else:
            t = base + datetime.timedelta(seconds=rng.randint(0, spread))
            if rng.random() < 0.1:
                t = t.date()
        d = {"time": t, "width": rng.choice([10, 25, 50, 80, 33.5])}
        if rng.random() < 0.7:
            d["text"] = rng.choice(WORDS)
        items.append(d)

    def build_options():
        o = {"direction": direction, "labella": dict(labella)}
        if numeric:
            o["scale"] = L.scale.LinearScale()
        o.update(extra)
        return o

    direction = rng.choice(["up", "down", "left", "right"])
    labella = {}
    if rng.random() < 0.6:
        labella["maxPos"] = rng.choice([None, 200, 360, 500])
    if rng.random() < 0.3:
        labella["minPos"] = rng.choice([None, 0, 20])
    if rng.random() < 0.4:
        labella["algorithm"] = rng.choice(["overlap", "simple", "none"])
    if rng.random() < 0.3:
        labella["density"] = rng.choice([0.5, 0.75, 1])
    if rng.random() < 0.3:
        labella["nodeSpacing"] = rng.choice([1, 3, 6])
    extra = {}
    if rng.random() < 0.3:
        extra["initialWidth"] = rng.choice([300, 600, 804])
    if rng.random() < 0.3:
        extra["initialHeight"] = rng.choice([250, 500])
    if rng.random() < 0.2:
        extra["layerGap"] = rng.choice([30, 45.5])
    which = rng.random()
    import copy

    def run_svg():
        tl = T.TimelineSVG(copy.deepcopy(items), options=build_options())
        return tl.export()

    def run_tex():
        tl = T.TimelineTex(copy.deepcopy(items), options=build_options())
        return tl.export()

    if which < 0.6:
        res.append(attempt(run_svg))
    else:
        res.append(attempt(run_tex))
    return res


FAMILIES = {
    "solver": fam_solver,
    "solver_steps": fam_solver_steps,
    "vpsc_misc": fam_vpsc_misc,
    "remove_overlap": fam_remove_overlap,
    "distributor": fam_distributor,
    "force": fam_force,
    "node": fam_node,
    "timeline": fam_timeline,
}


def run_all(root):
    L = load(root)
    out = []
    for name, count in SELECT:
        fam = FAMILIES[name]
        for seed in range(count):
            key = "%s/%d" % (name, seed)
            try:
                out.append((key, ("ok", fam(L, seed * 7919 + 13))))
            except RecursionError:
                raise
            except Exception as e:
                out.append((key, ("famexc", type(e).__name__, str(e))))
    return out


def first_difference(a, b, path=""):
    if type(a) is not type(b):
        return "%s: %r != %r" % (path, a, b)
    if isinstance(a, (list, tuple)):
        if len(a) != len(b):
            return "%s: length %d != %d\n  %r\n  %r" % (
                path,
                len(a),
                len(b),
                a,
                b,
            )
        for i, (x, y) in enumerate(zip(a, b)):
            d = first_difference(x, y, "%s[%d]" % (path, i))
            if d:
                return d
        return None
    if a != b:
        return "%s: %r != %r" % (path, a, b)
    return None


def main(argv):
    if len(argv) != 3:
        print(__doc__)
        return 2
    orig, new = argv[1], argv[2]
    sys.setrecursionlimit(10000)
    ra = run_all(orig)
    rb = run_all(new)
    if len(ra) != len(rb):
        print("DIFFERENT number of cases: %d != %d" % (len(ra), len(rb)))
        return 1
    for (ka, va), (kb, vb) in zip(ra, rb):
        if ka != kb or va != vb:
            print("DIFFERENCE in case %s / %s" % (ka, kb))
            print(first_difference(va, vb, ka))
            return 1
    print("EQUIVALENT (%d cases)" % len(ra))
    return 0


if __name__ == "__main__":
    sys.exit(main(sys.argv))
