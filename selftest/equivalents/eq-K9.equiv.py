#!/usr/bin/env python
# -*- coding: utf-8 -*-
"""
Differential test: python equiv.py <original-checkout> <refactored-checkout>

Imports the ``labella`` package from each of the two checkouts in turn, runs
the layout engine (vpsc solver, removeOverlap, distributor, force, node and a
few end-to-end timelines) on the same seeded random inputs and edge cases and
compares every result exactly (floats by float.hex, exceptions by type and
message).
"""

import datetime
import os
import random
import sys

FOCUS = "vpsc"

MODULES = [
    "labella",
    "labella.vpsc",
    "labella.node",
    "labella.removeOverlap",
    "labella.distributor",
    "labella.force",
    "labella.metrics",
    "labella.renderer",
    "labella.timeline",
]


def purge():
    for name in list(sys.modules):
        if name == "labella" or name.startswith("labella."):
            del sys.modules[name]


def load(root):
    import importlib

    root = os.path.realpath(root)
    purge()
    sys.path.insert(0, root)
    try:
        mods = {}
        for name in MODULES:
            m = importlib.import_module(name)
            mods[name.split(".")[-1]] = m
        for name, m in list(sys.modules.items()):
            if name == "labella" or name.startswith("labella."):
                f = os.path.realpath(m.__file__)
                assert f.startswith(root + os.sep), (name, f, root)
    finally:
        sys.path.remove(root)
    return mods


# ---------------------------------------------------------------------------
# canonical forms
# ---------------------------------------------------------------------------


def canon(x):
    if isinstance(x, bool) or x is None:
        return x
    if isinstance(x, float):
        return ("f", x.hex())
    if isinstance(x, int):
        return ("i", x)
    if isinstance(x, (str, bytes)):
        return x
    if isinstance(x, (list, tuple)):
        return (type(x).__name__, [canon(y) for y in x])
    if isinstance(x, dict):
        return ("dict", [(canon(k), canon(v)) for k, v in x.items()])
    if isinstance(x, (datetime.datetime, datetime.date)):
        return ("dt", x.isoformat())
    cls = type(x).__name__
    if cls == "Node":
        return canon_node(x)
    return ("obj", cls, repr(x))


def canon_node(n, depth=0):
    if n is None:
        return None
    if depth > 50:
        return "deep"
    ov = getattr(n, "overlaps", None)
    if ov is not None:
        ov = sorted(repr(canon(o.data)) + repr(canon(o.width)) for o in ov)
    return (
        "Node",
        canon(n.idealPos),
        canon(n.currentPos),
        canon(n.width),
        canon(n.layerIndex),
        canon(n.data) if type(n.data).__name__ != "Item" else str(n.data),
        canon(n.overlapCount),
        ov,
        canon(getattr(n, "targetPos", "<unset>")),
        bool(n.child),
        canon(n.child.width) if n.child else None,
        canon_node(n.parent, depth + 1),
    )


def attempt(f, *args, **kwargs):
    try:
        return ("ok", canon(f(*args, **kwargs)))
    except RecursionError:
        raise
    except Exception as e:  # noqa
        return ("exc", type(e).__name__, str(e))


# ---------------------------------------------------------------------------
# random values
# ---------------------------------------------------------------------------


def rnum(rng, lo=-50, hi=500):
    k = rng.random()
    if k < 0.35:
        return rng.randint(int(lo), int(hi))
    if k < 0.5:
        return float(rng.randint(int(lo), int(hi)))
    if k < 0.6:
        return rng.randint(int(lo), int(hi)) + 0.5
    return rng.uniform(lo, hi)


def rwidth(rng):
    k = rng.random()
    if k < 0.4:
        return rng.randint(1, 80)
    if k < 0.5:
        return rng.choice([0, 1, 2, 50, 50.0, 0.1, 1e-3, 1e3])
    return rng.uniform(0.5, 90)


def make_nodes(mods, rng, n, lo=-50, hi=800, clustered=False):
    Node = mods["node"].Node
    nodes = []
    centre = rng.uniform(lo, hi)
    for i in range(n):
        if clustered and rng.random() < 0.8:
            pos = centre + rng.choice([0, 0, rng.uniform(-10, 10), rng.randint(-5, 5)])
        else:
            pos = rnum(rng, lo, hi)
        nodes.append(Node(pos, rwidth(rng), data=i))
    return nodes


# ---------------------------------------------------------------------------
# scenario: Node
# ---------------------------------------------------------------------------


def sc_node(mods, rng, out, count):
    Node = mods["node"].Node
    datas = [None, 0, 1, "a", "it's", 'q"x', ("t", 1), [1, 2], {"k": 1.5}, 2.5, -0.0]
    for case in range(count):
        idp = rnum(rng)
        if rng.random() < 0.1:
            idp = rng.choice([0, 0.0, -0.0, 1e308, -1e308, float("inf"), float("nan"), "12", None])
        w = rwidth(rng)
        if rng.random() < 0.1:
            w = rng.choice([0, None, "w", float("inf"), -3])
        a = Node(idp, w, rng.choice(datas))
        b = Node(rnum(rng), rwidth(rng), rng.choice(datas))
        if rng.random() < 0.7:
            a.currentPos = rnum(rng)
        if rng.random() < 0.7:
            b.currentPos = rnum(rng)
        a.layerIndex = rng.choice([0, 1, 2, 7, None, "x"])
        tag = "node%d" % case
        out.append((tag + ".repr", attempt(repr, a)))
        out.append((tag + ".str", attempt(str, a)))
        buf = rng.choice([None, 0, 1, 2.5, -1, 0.0])
        for name, args in [
            ("distanceFrom", (b,)),
            ("displacement", ()),
            ("overlapWithNode", (b,)),
            ("overlapWithNode", (b, buf)),
            ("overlapWithPoint", (rnum(rng),)),
            ("positionBefore", (b,)),
            ("positionBefore", (b, buf)),
            ("positionAfter", (b,)),
            ("positionAfter", (b, buf)),
            ("currentRight", ()),
            ("currentLeft", ()),
            ("idealRight", ()),
            ("idealLeft", ()),
            ("isStub", ()),
            ("getLayerIndex", ()),
            ("getPathToRootLength", ()),
            ("clone", ()),
        ]:
            out.append((tag + "." + name, attempt(getattr(a, name), *args)))
        # chains of stubs
        depth = rng.randint(0, 6)
        chain = [a]
        cur = a
        for d in range(depth):
            sw = rng.choice([None, 1, 1, 2, 0.5, rwidth(rng)])
            if rng.random() < 0.2:
                r = attempt(cur.createStub)
                if r[0] == "ok":
                    cur = cur.parent
            else:
                cur = cur.createStub(sw)
            chain.append(cur)
            if rng.random() < 0.8:
                cur.currentPos = rnum(rng)
            if rng.random() < 0.1:
                cur.currentPos = rng.choice([0, 0.0, float("inf"), float("nan"), "s", None])
        for j, nd in enumerate(chain):
            t2 = "%s.chain%d" % (tag, j)
            out.append((t2 + ".len", attempt(nd.getPathToRootLength)))
            out.append((t2 + ".toRoot", attempt(nd.getPathToRoot)))
            out.append((t2 + ".fromRoot", attempt(nd.getPathFromRoot)))
            out.append((t2 + ".root", attempt(nd.getRoot)))
            out.append((t2 + ".isStub", attempt(nd.isStub)))
            out.append((t2 + ".repr", attempt(repr, nd)))
        out.append((tag + ".pathLength", attempt(mods["metrics"].pathLength, chain)))
        if chain and rng.random() < 0.5:
            victim = rng.choice(chain)
            out.append((tag + ".removeStub", attempt(victim.removeStub)))
            for j, nd in enumerate(chain):
                out.append(("%s.after%d" % (tag, j), attempt(nd.getPathToRootLength)))
                out.append(("%s.afterN%d" % (tag, j), canon(nd)))
        out.append((tag + ".moveToIdeal", attempt(a.moveToIdealPosition)))
        out.append((tag + ".final", canon(a)))


# ---------------------------------------------------------------------------
# scenario: vpsc
# ---------------------------------------------------------------------------


def solver_state(solver, vs, cs):
    vidx = {id(v): i for i, v in enumerate(vs)}
    cidx = {id(c): i for i, c in enumerate(cs)}
    st = []
    for v in vs:
        st.append(
            (
                canon(v.desiredPosition),
                canon(v.weight),
                canon(v.scale),
                canon(v.offset),
                attempt(v.position),
                attempt(v.dfdv),
                repr(v),
                str(v),
                [cidx.get(id(c), -1) for c in getattr(v, "cIn", [])],
                [cidx.get(id(c), -1) for c in getattr(v, "cOut", [])],
            )
        )
    for c in cs:
        st.append(
            (
                c.active,
                c.unsatisfiable,
                c.equality,
                canon(c.gap),
                canon(getattr(c, "lm", "<nolm>")),
                attempt(c.slack),
                repr(c),
                str(c),
            )
        )
    st.append([cidx.get(id(c), -1) for c in solver.inactive])
    if solver.bs is not None:
        bl = []
        for k, b in enumerate(solver.bs._list):
            bl.append(
                (
                    k,
                    b.blockInd,
                    canon(b.posn),
                    canon(b.ps.scale),
                    canon(b.ps.AB),
                    canon(b.ps.AD),
                    canon(b.ps.A2),
                    [vidx.get(id(v), -1) for v in b.vars],
                    attempt(b.cost),
                )
            )
        st.append(bl)
        st.append(attempt(solver.bs.cost))
        st.append(attempt(solver.cost))
        st.append([vidx.get(id(v), -1) for v in solver.bs.vs])
    else:
        st.append(attempt(solver.cost))
    return st


def make_problem(mods, rng, kind):
    vpsc = mods["vpsc"]
    n = rng.randint(1, 9)
    if kind == "big":
        n = rng.randint(8, 25)
    vs = []
    intpos = rng.random() < 0.5
    for i in range(n):
        if intpos:
            pos = rng.randint(0, 20)
        else:
            pos = rng.choice([rng.uniform(0, 30), rng.randint(0, 12), 5])
        k = rng.random()
        if k < 0.5:
            v = vpsc.Variable(pos)
        elif k < 0.75:
            v = vpsc.Variable(pos, rng.choice([1, 2, 0.5, 10, 1e10, rng.uniform(0.1, 5)]))
        else:
            v = vpsc.Variable(
                pos,
                weight=rng.choice([None, 1, 2, 0.5, rng.uniform(0.1, 5)]),
                scale=rng.choice([None, 1, 1, 2, 0.5, 3]),
            )
        vs.append(v)
    cs = []
    m = rng.randint(0, 2 * n + 1)
    for j in range(m):
        if n < 2:
            break
        a = rng.randrange(n)
        b = rng.randrange(n)
        if a == b:
            continue
        if kind in ("dag", "big", "eq") and a > b:
            a, b = b, a
        if kind == "chain":
            a = j % (n - 1)
            b = a + 1
        gap = rng.choice([1, 2, 3, 3, 0, 2.5, rng.uniform(0, 6)])
        if kind == "cyc" and rng.random() < 0.15:
            gap = -gap
        eq = None
        if kind == "eq" and rng.random() < 0.25:
            eq = True
        elif rng.random() < 0.1:
            eq = False
        if eq is None and rng.random() < 0.5:
            c = vpsc.Constraint(vs[a], vs[b], gap)
        else:
            c = vpsc.Constraint(vs[a], vs[b], gap, eq)
        cs.append(c)
    return vs, cs


class _Acc(object):
    def __init__(self):
        self.items = []

    def push(self, x):
        self.items.append(x)


def sc_vpsc(mods, rng, out, count):
    vpsc = mods["vpsc"]
    kinds = ["dag", "dag", "chain", "cyc", "eq", "big"]
    for case in range(count):
        kind = kinds[case % len(kinds)]
        vs, cs = make_problem(mods, rng, kind)
        tag = "vpsc%d[%s]" % (case, kind)
        r = attempt(vpsc.Solver, vs, cs)
        out.append((tag + ".init", r[:1] if r[0] == "ok" else r))
        solver = vpsc.Solver(vs, cs)
        out.append((tag + ".state0", solver_state(solver, vs, cs)))
        mode = rng.random()
        if mode < 0.1:
            out.append((tag + ".mostViolated0", attempt(lambda: cs.index(solver.mostViolated()) if cs else repr(solver.mostViolated()))))
        if mode < 0.2:
            out.append((tag + ".startpos", attempt(solver.setStartingPositions, [rng.randint(0, 9) for _ in vs])))
            out.append((tag + ".state0b", solver_state(solver, vs, cs)))
            solver = vpsc.Solver(vs, cs)
        if mode > 0.8:
            out.append((tag + ".satisfy", attempt(solver.satisfy)))
            out.append((tag + ".state_sat", solver_state(solver, vs, cs)))
        out.append((tag + ".solve", attempt(solver.solve)))
        out.append((tag + ".state1", solver_state(solver, vs, cs)))
        rounds = rng.randint(0, 3)
        for rd in range(rounds):
            if rng.random() < 0.5:
                ps = [rng.randint(0, 20) for _ in vs]
            else:
                ps = [rng.uniform(0, 30) for _ in vs]
            if rng.random() < 0.05:
                ps = ps[:-1]
            out.append((tag + ".desired%d" % rd, attempt(solver.setDesiredPositions, ps)))
            out.append((tag + ".solve%d" % rd, attempt(solver.solve)))
            out.append((tag + ".state%d" % (rd + 2), solver_state(solver, vs, cs)))
        # direct probing of block level operations
        if solver.bs is not None:
            bs = solver.bs
            for b in list(bs._list):
                out.append((tag + ".uwp", attempt(b.updateWeightedPosition)))
                out.append((tag + ".uwp.posn", canon(b.posn)))
                out.append((tag + ".bcost", attempt(b.cost)))
                acc = _Acc()
                out.append((tag + ".traverse", attempt(b.traverse, lambda c: cs.index(c), acc, None, None)))
                out.append((tag + ".traverse.acc", list(acc.items)))
                out.append((tag + ".traverse.list", attempt(b.traverse, lambda c: cs.index(c), [], b.vars[-1], None)))
                m = attempt(lambda: cs.index(b.findMinLM()) if b.findMinLM() is not None else None)
                out.append((tag + ".minlm", m))
                if len(b.vars) >= 2:
                    u = rng.choice(b.vars)
                    w = rng.choice(b.vars)
                    out.append((tag + ".path", attempt(b.isActiveDirectedPathBetween, u, w)))
                    out.append((tag + ".path2", attempt(b.isActiveDirectedPathBetween, w, u)))
                    if rng.random() < 0.5:
                        def sb():
                            res = b.splitBetween(u, w)
                            if res is None:
                                return None
                            return (
                                sorted(res.keys()),
                                cs.index(res["constraint"]),
                                [vs.index(x) for x in res["lb"].vars],
                                [vs.index(x) for x in res["rb"].vars],
                                res["lb"].posn,
                                res["rb"].posn,
                            )
                        out.append((tag + ".splitBetween", attempt(sb)))
                        break
            out.append((tag + ".state_probe", solver_state(solver, vs, cs)))
            old_list = bs._list
            out.append((tag + ".bs.split", attempt(bs.split, solver.inactive)))
            out.append((tag + ".bs.rebound", bs._list is old_list))
            out.append((tag + ".bs.ubp", attempt(bs.updateBlockPositions)))
            seen = []
            out.append((tag + ".bs.forEach", attempt(bs.forEach, lambda blk: seen.append(blk.blockInd))))
            out.append((tag + ".bs.seen", seen))
            if bs._list and rng.random() < 0.5:
                victim = rng.choice(bs._list)
                old_list = bs._list
                out.append((tag + ".bs.remove", attempt(bs.remove, victim)))
                out.append((tag + ".bs.remove.rebound", bs._list is old_list))
                out.append((tag + ".bs.insert", attempt(bs.insert, victim)))
            out.append((tag + ".state_end", solver_state(solver, vs, cs)))
            out.append((tag + ".resolve", attempt(solver.solve)))
            out.append((tag + ".state_end2", solver_state(solver, vs, cs)))
    # repr edge cases
    weird = [None, "s", "it's", 'a"b', ("a", 1), [1, 2.5], {"a": 1}, 1e300, -0.0, float("nan"), float("inf"), 10 ** 30, True, b"x", (), ((),)]
    for case in range(count):
        a = [rng.choice(weird) for _ in range(4)]
        v = vpsc.Variable(a[0], a[1], a[2])
        if rng.random() < 0.5:
            v.offset = a[3]
        out.append(("vrepr%d" % case, attempt(repr, v)))
        out.append(("vstr%d" % case, attempt(str, v)))
        v2 = vpsc.Variable(rng.choice(weird))
        c = vpsc.Constraint(v, v2, rng.choice(weird), rng.choice(weird))
        out.append(("crepr%d" % case, attempt(repr, c)))
        out.append(("cstr%d" % case, attempt(str, c)))
        c2 = vpsc.Constraint(rng.choice(weird), rng.choice(weird), rng.choice(weird))
        out.append(("crepr2_%d" % case, attempt(repr, c2)))
        out.append(("cattrs%d" % case, canon([c2.equality, c2.active, c2.unsatisfiable])))


# ---------------------------------------------------------------------------
# scenario: removeOverlap
# ---------------------------------------------------------------------------


def ro_options(rng):
    k = rng.random()
    if k < 0.15:
        return None
    if k < 0.3:
        return {}
    opts = {}
    if rng.random() < 0.5:
        opts["lineSpacing"] = rng.choice([0, 1, 2, 2.5, 10, -1])
    if rng.random() < 0.5:
        opts["nodeSpacing"] = rng.choice([0, 1, 3, 3.5, 12, -2])
    if rng.random() < 0.6:
        opts["minPos"] = rng.choice([None, 0, 10, -20, 5.5, 0.0])
    if rng.random() < 0.6:
        opts["maxPos"] = rng.choice([None, 100, 400, 800, 250.5, 30])
    if rng.random() < 0.1:
        opts["extra"] = "ignored"
    if rng.random() < 0.03:
        opts["nodeSpacing"] = rng.choice([None, "3"])
    if rng.random() < 0.03:
        opts["lineSpacing"] = rng.choice([None, "2"])
    return opts


def sc_removeoverlap(mods, rng, out, count):
    ro = mods["removeOverlap"]
    for case in range(count):
        n = rng.choice([0, 1, 2, 3, 5, 8, 12, 20])
        nodes = make_nodes(mods, rng, n, 0, rng.choice([50, 300, 800]), clustered=rng.random() < 0.5)
        extra = []
        # put stubs / parents in
        for i, nd in enumerate(list(nodes)):
            k = rng.random()
            if k < 0.25:
                # nd becomes a child; its stub lives "one layer up" and joins the list
                stub = nd.createStub(rng.choice([1, 1, 2, 0.5]))
                stub.currentPos = rnum(rng, 0, 300)
                if rng.random() < 0.7:
                    nodes[i] = stub
                    extra.append(nd)
                    if rng.random() < 0.4:
                        s2 = stub.createStub(1)
                        s2.currentPos = rnum(rng, 0, 300)
                        extra.append(s2)
                else:
                    extra.append(stub)
        if rng.random() < 0.03 and nodes:
            nodes[rng.randrange(len(nodes))].width = rng.choice([None, "w"])
        opts = ro_options(rng)
        opts_copy = dict(opts) if opts is not None else None
        tag = "ro%d" % case
        allnodes = nodes + extra
        r = attempt(ro.removeOverlap, nodes, opts)
        out.append((tag, r))
        out.append((tag + ".nodes", canon(nodes)))
        out.append((tag + ".all", canon(allnodes)))
        out.append((tag + ".opts", canon(opts) == canon(opts_copy)))
        out.append((tag + ".defaults", canon(ro.DEFAULT_OPTIONS)))
        if rng.random() < 0.3:
            out.append((tag + ".again", attempt(ro.removeOverlap, nodes, opts)))
    out.append(("ro.last", attempt(ro.last, [1, 2, 3])))
    out.append(("ro.last.empty", attempt(ro.last, [])))
    out.append(("ro.empty", attempt(ro.removeOverlap, [], None)))
    out.append(("ro.tuple", attempt(ro.removeOverlap, (), {"minPos": 3})))
    n1 = mods["node"].Node(3, 4)
    out.append(("ro.n2v.unset", attempt(ro.nodeToVariable, n1)))
    n1.targetPos = 7.5
    v = ro.nodeToVariable(n1)
    out.append(("ro.n2v", canon([repr(v), v.node is n1, canon(n1)])))


# ---------------------------------------------------------------------------
# scenario: distributor
# ---------------------------------------------------------------------------

ALGOS = ["overlap", "overlap", "overlap", "simple", "simple", "roundRobin", "none", "nope", "", None, 3, ("simple",), ["simple"], {"a": 1}, "Simple", b"simple"]


def dist_options(rng):
    k = rng.random()
    if k < 0.1:
        return None
    opts = {}
    if rng.random() < 0.7:
        opts["algorithm"] = rng.choice(ALGOS)
    if rng.random() < 0.7:
        opts["layerWidth"] = rng.choice([None, 0, 100, 200, 400, 1000, 333.3, 50])
    if rng.random() < 0.5:
        opts["density"] = rng.choice([0.75, 0.85, 0.5, 1, 0.1, 2])
    if rng.random() < 0.5:
        opts["nodeSpacing"] = rng.choice([3, 0, 1, 2.5, 10])
    if rng.random() < 0.5:
        opts["stubWidth"] = rng.choice([1, 2, 0.5, 0, None])
    return opts


def sc_distributor(mods, rng, out, count):
    dist = mods["distributor"]
    for case in range(count):
        opts = dist_options(rng)
        tag = "dist%d" % case
        r = attempt(dist.Distributor, opts)
        if r[0] != "ok":
            out.append((tag + ".ctor", r))
            continue
        d = dist.Distributor(opts) if rng.random() < 0.8 or opts is None else dist.Distributor(options=opts)
        out.append((tag + ".options", canon(d.options)))
        if rng.random() < 0.04:
            del d.options["algorithm"]
        n = rng.choice([0, 1, 2, 3, 6, 10, 16, 30])
        nodes = make_nodes(mods, rng, n, 0, rng.choice([100, 400, 1000]), clustered=rng.random() < 0.6)
        if rng.random() < 0.1 and nodes:
            # pre-existing stub in the input
            s = nodes[0].createStub(1)
            nodes.append(s)
        arg = nodes
        if n == 0 and rng.random() < 0.5:
            arg = rng.choice([None, (), []])
        out.append((tag + ".reqw", attempt(d.computeRequiredWidth, nodes)))
        out.append((tag + ".maxw", attempt(d.maxWidthPerLayer)))
        out.append((tag + ".est", attempt(d.estimateRequiredLayers, nodes)))
        out.append((tag + ".need", attempt(d.needToSplit, nodes)))
        if rng.random() < 0.3:
            out.append((tag + ".cio", attempt(d.countIdealOverlaps, nodes)))
            out.append((tag + ".cio.nodes", canon(nodes)))
        before = list(nodes)
        r = attempt(d.distribute, arg)
        out.append((tag + ".distribute", r))
        out.append((tag + ".inputorder", [nd.data for nd in nodes] == [nd.data for nd in before]))
        out.append((tag + ".nodes", canon(nodes)))
        out.append((tag + ".options2", canon(d.options)))
        which = rng.random()
        if which < 0.3:
            fresh = make_nodes(mods, rng, rng.randint(0, 12), 0, 300, clustered=True)
            out.append((tag + ".simple", attempt(d.algorithm_simple, fresh)))
            out.append((tag + ".simple.nodes", canon(fresh)))
        elif which < 0.5:
            fresh = make_nodes(mods, rng, rng.randint(0, 12), 0, 300, clustered=True)
            out.append((tag + ".overlap", attempt(d.algorithm_overlap, fresh)))
            out.append((tag + ".overlap.nodes", canon(fresh)))
        elif which < 0.55:
            out.append((tag + ".rr", attempt(d.algorithm_roundRobin, nodes)))
    out.append(("dist.defaults", canon(dist.DEFAULT_OPTIONS)))


# ---------------------------------------------------------------------------
# scenario: force
# ---------------------------------------------------------------------------


def force_options(rng):
    k = rng.random()
    if k < 0.1:
        return None
    opts = {}
    if rng.random() < 0.5:
        opts["algorithm"] = rng.choice(ALGOS[:9])
    if rng.random() < 0.6:
        opts["minPos"] = rng.choice([None, 0, 10, -20, 5.5])
    if rng.random() < 0.7:
        opts["maxPos"] = rng.choice([None, 100, 400, 800, 250.5, 60])
    if rng.random() < 0.4:
        opts["density"] = rng.choice([0.75, 0.85, 0.5, 1])
    if rng.random() < 0.4:
        opts["nodeSpacing"] = rng.choice([3, 0, 1, 2.5, 10])
    if rng.random() < 0.3:
        opts["lineSpacing"] = rng.choice([2, 0, 1.5, 7])
    if rng.random() < 0.3:
        opts["stubWidth"] = rng.choice([1, 2, 0.5])
    if rng.random() < 0.3:
        opts["layerWidth"] = rng.choice([None, 100, 500])
    if rng.random() < 0.1:
        opts["direction"] = "up"
    return opts


def sc_force(mods, rng, out, count):
    force = mods["force"]
    metrics = mods["metrics"]
    names = [m for m in dir(metrics) if not m.startswith("_")]
    for case in range(count):
        opts = force_options(rng)
        tag = "force%d" % case
        k = rng.random()
        if k < 0.2:
            f = force.Force()
            out.append((tag + ".set", attempt(f.set_options, opts)))
        elif k < 0.6:
            f = force.Force(opts)
        else:
            f = force.Force(options=opts)
        if rng.random() < 0.2:
            o2 = force_options(rng)
            if rng.random() < 0.5:
                out.append((tag + ".set2", attempt(f.set_options, o2)))
            else:
                out.append((tag + ".set2", attempt(lambda: f.set_options(x=o2))))
        if rng.random() < 0.05:
            out.append((tag + ".set3", attempt(f.set_options)))
        out.append((tag + ".options", canon(f.options)))
        out.append((tag + ".distoptions", canon(f.distributor.options)))
        out.append((tag + ".attrs", canon([f.force, f._nodes, f.layers])))
        n = rng.choice([0, 1, 2, 4, 7, 12, 20, 35])
        nodes = make_nodes(mods, rng, n, 0, rng.choice([100, 400, 1000]), clustered=rng.random() < 0.6)
        out.append((tag + ".nodes()", attempt(f.nodes)))
        if rng.random() < 0.5:
            out.append((tag + ".nodes(x)", attempt(f.nodes, nodes)))
        else:
            out.append((tag + ".nodes(x)", attempt(lambda: f.nodes(x=nodes))))
        out.append((tag + ".nodes()2", attempt(lambda: [nd.data for nd in f.nodes()])))
        out.append((tag + ".layers0", attempt(f.getLayers)))
        out.append((tag + ".compute", attempt(f.compute)))
        out.append((tag + ".layers", attempt(f.getLayers)))
        out.append((tag + ".nodes.after", canon(nodes)))
        out.append((tag + ".metrics", attempt(f.metrics)))
        for name in names + ["overflow", "overDensity", "overlapCount", "nonexistent", "", 3, None]:
            out.append((tag + ".metric." + repr(name), attempt(f.metric, name)))
        if rng.random() < 0.3:
            # second compute on the same nodes (stubs get removed first)
            out.append((tag + ".compute2", attempt(f.compute)))
            out.append((tag + ".layers2", attempt(f.getLayers)))
            out.append((tag + ".nodes.after2", canon(nodes)))
        out.append((tag + ".options.end", canon(f.options)))
        out.append((tag + ".distoptions.end", canon(f.distributor.options)))
    out.append(("force.defaults", canon(force.DEFAULT_OPTIONS)))


# ---------------------------------------------------------------------------
# scenario: timelines (end to end)
# ---------------------------------------------------------------------------


def sc_timeline(mods, rng, out, count):
    tl = mods["timeline"]
    from labella.scale import LinearScale

    words = ["alpha", "beta", "gamma & co", "delta_1", "x", "Longer label text", "50%", "a#b", "é"]
    for case in range(count):
        n = rng.randint(1, 14)
        numeric = rng.random() < 0.4
        items = []
        base = datetime.datetime(2000, 1, 1) + datetime.timedelta(days=rng.randint(0, 5000))
        for i in range(n):
            if numeric:
                t = rng.choice([rng.randint(0, 100), rng.uniform(0, 100)])
            else:
                t = base + datetime.timedelta(days=rng.choice([0, 1, 2, 3, 30, rng.randint(0, 400)]), hours=rng.randint(0, 23))
            d = {"time": t, "width": rng.choice([10, 25, 50, 80, 33.5, 120])}
            if rng.random() < 0.8:
                d["text"] = rng.choice(words)
            items.append(d)
        opts = {
            "direction": rng.choice(["right", "left", "up", "down"]),
            "initialWidth": rng.choice([300, 400, 804]),
            "initialHeight": rng.choice([250, 400, 360]),
        }
        if numeric:
            opts["scale"] = LinearScale()
        if rng.random() < 0.5:
            opts["labella"] = {
                "maxPos": rng.choice([None, 200, 400, 764]),
                "algorithm": rng.choice(["overlap", "simple", "none"]),
            }
            if rng.random() < 0.5:
                opts["labella"]["nodeSpacing"] = rng.choice([1, 3, 6])
            if rng.random() < 0.5:
                opts["labella"]["density"] = rng.choice([0.5, 0.75, 0.9])
        if rng.random() < 0.3:
            opts["layerGap"] = rng.choice([30, 60, 75.5])
        tag = "tl%d" % case

        def svg():
            t = tl.TimelineSVG([dict(d) for d in items], options=dict(opts))
            return t.export()

        def tex():
            t = tl.TimelineTex([dict(d) for d in items], options=dict(opts))
            return t.export()

        out.append((tag + ".svg", attempt(svg)))
        out.append((tag + ".tex", attempt(tex)))


# ---------------------------------------------------------------------------


SCENARIOS = [
    ("node", sc_node, 250),
    ("vpsc", sc_vpsc, 400),
    ("removeOverlap", sc_removeoverlap, 350),
    ("distributor", sc_distributor, 350),
    ("force", sc_force, 200),
    ("timeline", sc_timeline, 40),
]


def run_all(mods):
    out = []
    for name, fn, count in SCENARIOS:
        if name in FOCUS.split(","):
            count *= 4
        rng = random.Random(20240917 + len(name))
        fn(mods, rng, out, count)
    return out


def main(argv):
    if len(argv) != 3:
        print("usage: equiv.py <original-checkout> <refactored-checkout>")
        return 2
    sys.setrecursionlimit(10000)
    results = []
    for root in argv[1:3]:
        mods = load(root)
        results.append(run_all(mods))
        purge()
    a, b = results
    if len(a) != len(b):
        print("DIFFERENT number of results: %d vs %d" % (len(a), len(b)))
    for i, (x, y) in enumerate(zip(a, b)):
        if x != y:
            print("DIFFERENCE at result %d" % i)
            print("  original  :", repr(x)[:2000])
            print("  refactored:", repr(y)[:2000])
            return 1
    if len(a) != len(b):
        return 1
    nexc = sum(1 for _, r in a if isinstance(r, tuple) and r and r[0] == "exc")
    print("EQUIVALENT (%d cases)" % len(a))
    return 0


if __name__ == "__main__":
    sys.exit(main(sys.argv))
