#!/usr/bin/env python
"""Differential test: python equiv.py <original-checkout> <refactored-checkout>

Imports the ``labella`` package from each of the two directories in turn, runs
the same randomised and edge-case scenarios with the same seeds in both trees
and compares the canonicalised results exactly (floats via float.hex,
exception type and message, object state via vars()).
"""
import datetime
import importlib
import math
import os
import random
import signal
import sys
import types

sys.setrecursionlimit(20000)

MODS = [
    "vpsc",
    "node",
    "force",
    "distributor",
    "removeOverlap",
    "metrics",
    "scale",
    "timeline",
]


def load(root):
    root = os.path.realpath(root)
    for name in list(sys.modules):
        if name == "labella" or name.startswith("labella."):
            del sys.modules[name]
    importlib.invalidate_caches()
    sys.path.insert(0, root)
    try:
        ns = types.SimpleNamespace()
        pkg = importlib.import_module("labella")
        assert os.path.realpath(pkg.__file__).startswith(root + os.sep), (
            pkg.__file__,
            root,
        )
        for m in MODS:
            mod = importlib.import_module("labella." + m)
            assert os.path.realpath(mod.__file__).startswith(root + os.sep), (
                mod.__file__,
                root,
            )
            setattr(ns, m, mod)
        for name, mod in list(sys.modules.items()):
            if name.startswith("labella.") and getattr(mod, "__file__", None):
                assert os.path.realpath(mod.__file__).startswith(
                    root + os.sep
                ), (mod.__file__, root)
    finally:
        sys.path.remove(root)
    return ns


# ---------------------------------------------------------------- canon

LIB_CLASSES = {
    "Node",
    "Variable",
    "Constraint",
    "Block",
    "Blocks",
    "Solver",
    "PositionStats",
    "Force",
    "Distributor",
    "Item",
}


def canon(obj, memo=None):
    """Canonical, comparable description of a value / object graph."""
    if memo is None:
        memo = {}
    if obj is None or type(obj) in (bool, str, bytes):
        return obj
    if type(obj) is int:
        return ("int", obj)
    if type(obj) is float:
        return ("float", obj.hex())
    if isinstance(obj, (str, bytes, int, float)):
        # subclasses (e.g. enum members) must not pass for the plain value
        return ("subclass", type(obj).__name__, repr(obj))
    if isinstance(obj, (datetime.datetime, datetime.date)):
        return ("dt", obj.isoformat())
    oid = id(obj)
    if oid in memo:
        return ("ref", memo[oid])
    if isinstance(obj, (list, tuple)):
        memo[oid] = len(memo)
        return (type(obj).__name__, memo[oid], [canon(x, memo) for x in obj])
    if isinstance(obj, dict):
        memo[oid] = len(memo)
        return (
            "dict",
            memo[oid],
            [(canon(k, memo), canon(v, memo)) for k, v in obj.items()],
        )
    if isinstance(obj, (set, frozenset)):
        return ("set", sorted(repr(canon(x, memo)) for x in obj))
    cname = type(obj).__name__
    if cname in LIB_CLASSES and type(obj).__module__.startswith("labella"):
        memo[oid] = len(memo)
        try:
            items = sorted(vars(obj).items())
        except TypeError:
            items = []
        state = [
            (k, canon(v, memo)) for k, v in items if not k.startswith("_")
        ]
        return ("obj", cname, memo[oid], state)
    if callable(obj):
        return ("callable", getattr(obj, "__name__", "?"))
    return ("other", type(obj).__name__)


class _Timeout(Exception):
    pass


def _alarm(signum, frame):
    raise _Timeout("timeout")


def guarded(fn, *args, **kwargs):
    """Run fn, returning ('ok', canon(result)) or ('exc', type, message)."""
    signal.signal(signal.SIGALRM, _alarm)
    signal.setitimer(signal.ITIMER_REAL, 20.0)
    try:
        res = fn(*args, **kwargs)
        return ("ok", res)
    except _Timeout:
        return ("exc", "Timeout", "")
    except RecursionError:
        return ("exc", "RecursionError", "")
    except Exception as e:  # noqa
        return ("exc", type(e).__name__, str(e))
    finally:
        signal.setitimer(signal.ITIMER_REAL, 0)


def G(out, label, fn, *args, **kwargs):
    """Run guarded, canonicalise result, append to out, return raw result."""
    r = guarded(fn, *args, **kwargs)
    if r[0] == "ok":
        out.append((label, "ok", canon(r[1])))
        return r[1]
    out.append((label,) + r)
    return None


# ---------------------------------------------------------------- inputs


def rnum(rng):
    c = rng.random()
    if c < 0.35:
        return rng.randint(-50, 1200)
    if c < 0.7:
        return rng.uniform(-50, 1200)
    if c < 0.8:
        return float(rng.randint(0, 300))
    if c < 0.9:
        return rng.randint(0, 20) * 0.5
    if c < 0.95:
        return 0
    return rng.choice([1e-9, -0.0, 1e6, 123456789, 0.1 + 0.2])


def rwidth(rng):
    c = rng.random()
    if c < 0.4:
        return rng.randint(1, 80)
    if c < 0.8:
        return rng.uniform(0.5, 80)
    if c < 0.9:
        return 50
    return rng.choice([1, 2, 0.25, 100, 33.3])


def make_nodes(L, rng, n=None, clustered=False):
    if n is None:
        n = rng.choice([0, 1, 2, 3, 5, 8, 12, 20, 30])
    nodes = []
    centers = [rnum(rng) for _ in range(3)]
    for i in range(n):
        if clustered and rng.random() < 0.7:
            pos = rng.choice(centers) + rng.randint(-5, 5)
        else:
            pos = rnum(rng)
        nodes.append(L.node.Node(pos, rwidth(rng), data=rng.choice([None, i, "d%d" % i])))
    return nodes


# ---------------------------------------------------------------- scenarios


def sc_node(L, rng, out, case):
    Node = L.node.Node
    a = Node(rnum(rng), rwidth(rng), rng.choice([None, 1, "x", {"k": 1}]))
    b = Node(rnum(rng), rwidth(rng))
    if rng.random() < 0.5:
        a.currentPos = rnum(rng)
    if rng.random() < 0.5:
        b.currentPos = rnum(rng)
    a.layerIndex = rng.randint(0, 4)
    G(out, "repr", repr, a)
    G(out, "str", str, a)
    for buf in (None, 0, 3, rng.uniform(-5, 5), rng.randint(-3, 9)):
        G(out, "overlapWithNode", a.overlapWithNode, b, buf)
        G(out, "positionBefore", a.positionBefore, b, buf)
        G(out, "positionAfter", a.positionAfter, b, buf)
    G(out, "overlapWithNode1", a.overlapWithNode, b)
    G(out, "positionBefore1", a.positionBefore, b)
    G(out, "positionAfter1", a.positionAfter, b)
    G(out, "distanceFrom", a.distanceFrom, b)
    G(out, "distanceFrom-self", a.distanceFrom, a)
    G(out, "displacement", a.displacement)
    for p in (rnum(rng), a.currentPos, a.currentPos + a.width / 2, a.currentPos - a.width / 2):
        G(out, "overlapWithPoint", a.overlapWithPoint, p)
    for nm in ("currentRight", "currentLeft", "idealRight", "idealLeft", "isStub", "getLayerIndex", "getRoot", "getPathToRoot", "getPathFromRoot", "getPathToRootLength"):
        G(out, nm, getattr(a, nm))
    # stubs
    chain = [a]
    for i in range(rng.randint(0, 4)):
        w = rng.choice([None, 1, 2, rwidth(rng)])
        if rng.random() < 0.3:
            s = G(out, "createStub0", chain[-1].createStub)
        else:
            s = G(out, "createStub", chain[-1].createStub, w)
        if s is None:
            break
        if rng.random() < 0.6:
            s.currentPos = rnum(rng)
        chain.append(s)
    for x in chain:
        for nm in ("isStub", "getRoot", "getPathToRoot", "getPathFromRoot", "getPathToRootLength", "clone", "currentLeft", "idealRight"):
            G(out, "chain-" + nm, getattr(x, nm))
        G(out, "chain-repr", repr, x)
    victim = rng.choice(chain)
    r = G(out, "removeStub", victim.removeStub)
    out.append(("removeStub-is-self", r is victim))
    for x in chain:
        G(out, "after-getPathToRoot", x.getPathToRoot)
        G(out, "after-isStub", x.isStub)
    G(out, "moveToIdealPosition", a.moveToIdealPosition)
    out.append(("state", canon(chain)))
    # odd construction
    G(out, "odd1", lambda: Node(None, None).currentRight())
    G(out, "odd2", lambda: repr(Node("a", 3)))
    G(out, "odd3", lambda: Node(1, 2).overlapWithNode(None))
    G(out, "odd4", lambda: vars(Node(1, 2, 3)))


def rand_problem(L, rng):
    vpsc = L.vpsc
    n = rng.choice([1, 2, 3, 4, 5, 6, 8, 10, 14])
    vs = []
    for i in range(n):
        c = rng.random()
        pos = rng.randint(0, 12) if c < 0.5 else rnum(rng)
        c = rng.random()
        if c < 0.6:
            v = vpsc.Variable(pos)
        elif c < 0.85:
            v = vpsc.Variable(pos, rng.choice([1, 2, 0.5, 1e10, rng.uniform(0.1, 5)]))
        else:
            v = vpsc.Variable(pos, rng.choice([None, 1, 3.5]), rng.choice([1, 2, 3, 0.5, 4]))
        vs.append(v)
    cs = []
    m = rng.randint(0, 2 * n)
    mode = rng.random()
    for _ in range(m):
        if n < 2:
            break
        i, j = rng.sample(range(n), 2)
        if mode < 0.85 and i > j:
            i, j = j, i  # acyclic
        gap = rng.choice([3, 3, 1, 0, 2.5, rng.uniform(0, 10), rng.randint(0, 30)])
        if rng.random() < 0.04:
            cs.append(vpsc.Constraint(vs[i], vs[j], gap, rng.choice([True, False, None])))
        else:
            cs.append(vpsc.Constraint(vs[i], vs[j], gap))
    return vs, cs


def solver_state(solver, vs, cs):
    blocks = []
    if solver.bs is not None:
        solver.bs.forEach(blocks.append)
    memo = {}
    st = {
        "vs": canon(vs, memo),
        "cs": canon(cs, memo),
        "blocks": canon(blocks, memo),
        "inactive": [cs.index(c) for c in solver.inactive],
        "pos": [guarded(v.position) for v in vs],
        "slack": [guarded(c.slack) for c in cs],
        "lm": [getattr(c, "lm", "nolm") for c in cs],
    }
    return canon(st)


def sc_vpsc(L, rng, out, case):
    vpsc = L.vpsc
    vs, cs = rand_problem(L, rng)
    G(out, "reprs", lambda: [repr(v) for v in vs] + [str(c) for c in cs] + [str(v) for v in vs[:2]] + [repr(c) for c in cs[:2]])
    solver = G(out, "Solver", vpsc.Solver, vs, cs)
    if solver is None:
        return
    mode = rng.random()
    if mode < 0.15:
        G(out, "satisfy", solver.satisfy)
        G(out, "cost", solver.cost)
        G(out, "mostViolated", solver.mostViolated)
    else:
        G(out, "solve", solver.solve)
    out.append(("state1", solver_state(solver, vs, cs)))
    if solver.bs is not None:
        G(out, "bs.cost", solver.bs.cost)
        bl = []
        solver.bs.forEach(bl.append)
        for b in bl[:4]:
            G(out, "block.cost", b.cost)
            G(out, "block.findMinLM", b.findMinLM)
            G(out, "block.traverse", b.traverse, lambda c: c.gap, [], None, None)
            if len(b.vars) >= 2:
                u, v = b.vars[0], b.vars[-1]
                G(out, "isActiveDirectedPathBetween", b.isActiveDirectedPathBetween, u, v)
                G(out, "isActiveDirectedPathBetween", b.isActiveDirectedPathBetween, v, u)
                G(out, "findMinLMBetween", b.findMinLMBetween, u, v)
        if rng.random() < 0.3 and bl:
            b = rng.choice(bl)
            if len(b.vars) >= 2:
                u, v = rng.sample(b.vars, 2)
                r = G(out, "splitBetween", b.splitBetween, u, v)
                if r is not None:
                    out.append(("splitBetween-type", type(r).__name__, sorted(r.keys()) if isinstance(r, dict) else None))
                out.append(("state-split", solver_state(solver, vs, cs)))
                return
    if rng.random() < 0.5:
        G(out, "setDesiredPositions", solver.setDesiredPositions, [rnum(rng) for _ in vs])
        G(out, "solve2", solver.solve)
        out.append(("state2", solver_state(solver, vs, cs)))
    if rng.random() < 0.1:
        G(out, "setStartingPositions", solver.setStartingPositions, [rnum(rng) for _ in vs])
        G(out, "solve3", solver.solve)
        out.append(("state3", solver_state(solver, vs, cs)))
    if rng.random() < 0.2 and cs:
        c = rng.choice(cs)
        G(out, "Block.split", lambda: vpsc.Block.split(c) if c.active else "inactive")
    if rng.random() < 0.1:
        ps = G(out, "PositionStats", vpsc.PositionStats, rng.choice([1, 2, 0.5]))
        for v in vs[:3]:
            G(out, "ps.addVariable", ps.addVariable, v)
            G(out, "ps.getPosn", ps.getPosn)
        G(out, "ps-empty", lambda: vpsc.PositionStats(1).getPosn())


def rand_ro_options(rng):
    c = rng.random()
    if c < 0.15:
        return None
    if c < 0.3:
        return {}
    o = {}
    if rng.random() < 0.6:
        o["minPos"] = rng.choice([None, 0, 0, 10, -20, rnum(rng)])
    if rng.random() < 0.6:
        o["maxPos"] = rng.choice([None, 100, 400, 960, rnum(rng)])
    if rng.random() < 0.5:
        o["nodeSpacing"] = rng.choice([3, 0, 1, 10, 2.5])
    if rng.random() < 0.4:
        o["lineSpacing"] = rng.choice([2, 0, 1, 5, 0.5])
    if rng.random() < 0.2:
        o["density"] = 0.8
        o["bogus"] = "x"
    return o


def add_stubs(L, rng, nodes):
    """Return a layer mixing nodes and stubs (with parents)."""
    layer = []
    for nd in nodes:
        c = rng.random()
        if c < 0.3:
            s = nd.createStub(rng.choice([1, 2, 1.5]))
            s.currentPos = rnum(rng)
            if rng.random() < 0.5:
                s2 = s.createStub(1)
                s2.currentPos = rnum(rng)
                layer.append(rng.choice([s, s2, nd]))
            else:
                layer.append(rng.choice([s, nd]))
        else:
            layer.append(nd)
    return layer


def sc_removeOverlap(L, rng, out, case):
    ro = L.removeOverlap
    nodes = make_nodes(L, rng, clustered=rng.random() < 0.6)
    layer = add_stubs(L, rng, nodes)
    if rng.random() < 0.1:
        for nd in layer:
            nd.currentPos = rnum(rng)
    opts = rand_ro_options(rng)
    opts_copy = canon(opts)
    orig = list(layer)
    res = G(out, "removeOverlap", ro.removeOverlap, layer, opts)
    out.append(("same-list", res is layer))
    out.append(("order", [orig.index(x) for x in layer]))
    out.append(("opts-unchanged", canon(opts) == opts_copy, canon(opts)))
    out.append(("state", canon(orig)))
    if rng.random() < 0.3:
        res = G(out, "removeOverlap-again", ro.removeOverlap, layer, opts)
        out.append(("state-again", canon(orig)))
    if case % 50 == 0:
        G(out, "last", ro.last, [1, 2, 3])
        G(out, "last-empty", ro.last, [])
        nd = L.node.Node(1, 2)
        G(out, "nodeToVariable-noTarget", ro.nodeToVariable, nd)
        nd.targetPos = 5.5
        v = G(out, "nodeToVariable", ro.nodeToVariable, nd)
        out.append(("ntv-node", v is not None and v.node is nd))
        G(out, "defaults", lambda: ro.DEFAULT_OPTIONS)
        G(out, "ro-tuple", ro.removeOverlap, (), None)
        G(out, "ro-none", ro.removeOverlap, None, None)


def rand_dist_options(rng):
    c = rng.random()
    if c < 0.1:
        return None
    o = {}
    if rng.random() < 0.8:
        o["algorithm"] = rng.choice(["overlap", "overlap", "overlap", "simple", "simple", "none", "roundRobin", "bogus", None, 3])
    if rng.random() < 0.8:
        o["layerWidth"] = rng.choice([1000, 400, 200, 100, 60, None, 0, rng.uniform(30, 500)])
    if rng.random() < 0.5:
        o["density"] = rng.choice([0.75, 0.85, 0.5, 1, 0.1, rng.uniform(0.2, 1)])
    if rng.random() < 0.5:
        o["nodeSpacing"] = rng.choice([3, 0, 1, 10, 2.5])
    if rng.random() < 0.5:
        o["stubWidth"] = rng.choice([1, 2, 0.5, 5])
    return o


def sc_distributor(L, rng, out, case):
    D = L.distributor
    opts = rand_dist_options(rng)
    d = G(out, "Distributor", D.Distributor, opts) if rng.random() < 0.9 else G(out, "Distributor0", D.Distributor)
    if d is None:
        return
    if rng.random() < 0.03:
        del d.options["algorithm"]
    out.append(("options", canon(d.options)))
    nodes = make_nodes(L, rng, clustered=rng.random() < 0.7)
    orig = list(nodes)
    G(out, "computeRequiredWidth", d.computeRequiredWidth, nodes)
    G(out, "maxWidthPerLayer", d.maxWidthPerLayer)
    G(out, "needToSplit", d.needToSplit, nodes)
    G(out, "estimateRequiredLayers", d.estimateRequiredLayers, nodes)
    layers = G(out, "distribute", d.distribute, nodes)
    out.append(("input-order", [orig.index(x) for x in nodes], len(nodes)))
    if layers is not None:
        out.append(("layers-id", [[(orig.index(x) if x in orig else -1) for x in l] for l in layers]))
        out.append(("layers-is-input", len(layers) == 1 and layers[0] is nodes))
    out.append(("state", canon(orig)))
    if rng.random() < 0.3:
        G(out, "countIdealOverlaps", d.countIdealOverlaps, nodes)
        out.append(("state-cio", canon(orig)))
    if rng.random() < 0.2:
        for nd in orig:
            nd.removeStub()
        G(out, "algorithm_simple", d.algorithm_simple, sorted(orig, key=lambda x: x.idealPos))
        out.append(("state-simple", canon(orig)))
    if rng.random() < 0.2:
        for nd in orig:
            nd.removeStub()
        G(out, "algorithm_overlap", d.algorithm_overlap, sorted(orig, key=lambda x: x.idealPos))
        out.append(("state-overlap", canon(orig)))
    if case % 50 == 0:
        G(out, "algorithm_roundRobin", d.algorithm_roundRobin, nodes)
        G(out, "distribute-none", d.distribute, None)
        G(out, "distribute-empty", d.distribute, [])
        G(out, "defaults", lambda: D.DEFAULT_OPTIONS)
        G(out, "zero-width", d.distribute, [L.node.Node(1, 0), L.node.Node(2, 0)] * 300)


def rand_force_options(rng):
    c = rng.random()
    if c < 0.1:
        return None
    o = {}
    if rng.random() < 0.7:
        o["minPos"] = rng.choice([None, 0, 0, 10, rnum(rng)])
    if rng.random() < 0.7:
        o["maxPos"] = rng.choice([None, 100, 400, 960, 960, rnum(rng)])
    if rng.random() < 0.5:
        o["nodeSpacing"] = rng.choice([3, 0, 1, 10, 2.5])
    if rng.random() < 0.4:
        o["lineSpacing"] = rng.choice([2, 0, 1, 5])
    if rng.random() < 0.6:
        o["algorithm"] = rng.choice(["overlap", "overlap", "simple", "none", "roundRobin", "bogus"])
    if rng.random() < 0.4:
        o["density"] = rng.choice([0.75, 0.85, 0.5, 1, 0.3])
    if rng.random() < 0.4:
        o["stubWidth"] = rng.choice([1, 2, 0.5])
    if rng.random() < 0.3:
        o["layerWidth"] = rng.choice([1000, 300, None])
    if rng.random() < 0.2:
        o["direction"] = "up"
    return o


def sc_force(L, rng, out, case):
    F = L.force
    opts = rand_force_options(rng)
    f = G(out, "Force", F.Force, opts) if rng.random() < 0.9 else G(out, "Force0", F.Force)
    if f is None:
        return
    out.append(("options", canon(f.options), canon(f.distributor.options)))
    G(out, "nodes-empty", f.nodes)
    G(out, "getLayers0", f.getLayers)
    nodes = make_nodes(L, rng, clustered=rng.random() < 0.7)
    orig = list(nodes)
    r = G(out, "nodes-set", f.nodes, nodes)
    got = G(out, "nodes-get", f.nodes)
    out.append(("nodes-same", got is nodes))
    G(out, "compute", f.compute)
    layers = G(out, "getLayers", f.getLayers)
    out.append(("layers-attr", canon(f.layers) == canon(layers)))
    out.append(("state", canon(orig)))
    out.append(("order", [orig.index(x) for x in nodes]))
    if rng.random() < 0.4:
        G(out, "metrics", f.metrics)
    for nm in ("overflow", "overDensity", "overlapCount", "displacement", "pathLength", "overflowSpace", "overlapSpace", "nope", "weightedAllocation"):
        if rng.random() < 0.3:
            G(out, "metric-" + nm, f.metric, nm)
    if rng.random() < 0.4:
        G(out, "set_options", f.set_options, rand_force_options(rng))
        out.append(("options2", canon(f.options), canon(f.distributor.options)))
        G(out, "compute2", f.compute)
        G(out, "getLayers2", f.getLayers)
        out.append(("state2", canon(orig)))
    if rng.random() < 0.2:
        G(out, "compute3", f.compute)
        out.append(("state3", canon(orig)))
    if case % 50 == 0:
        G(out, "defaults", lambda: F.DEFAULT_OPTIONS)
        G(out, "set_options-none", f.set_options)
        G(out, "metric-int", f.metric, 3)


def rand_timeline(L, rng, numeric):
    n = rng.choice([1, 2, 3, 5, 8, 12, 18])
    items = []
    if numeric:
        base = [rng.randint(0, 1000) for _ in range(3)]
        for i in range(n):
            t = rng.choice(base) + rng.randint(-3, 3) if rng.random() < 0.6 else rng.randint(0, 1000)
            if rng.random() < 0.2:
                t = t + 0.5
            d = {"time": t, "width": rng.choice([50, 50, 30, 70, rng.randint(10, 90)])}
            if rng.random() < 0.5:
                d["text"] = "label %d" % i
            items.append(d)
    else:
        start = datetime.datetime(rng.randint(1900, 2150), rng.randint(1, 12), rng.randint(1, 28))
        span = rng.choice([3, 40, 400, 4000, 15000])
        for i in range(n):
            t = start + datetime.timedelta(days=rng.randint(0, span), hours=rng.randint(0, 23) if rng.random() < 0.3 else 0)
            if rng.random() < 0.2:
                t = t.date()
            d = {"time": t, "width": rng.choice([50, 40, 60, rng.randint(10, 90)])}
            if rng.random() < 0.5:
                d["text"] = "ev %d" % i
            items.append(d)
    direction = rng.choice(["up", "down", "left", "right"])
    opts = {"direction": direction}
    if numeric:
        opts["scale"] = L.scale.LinearScale()
    if direction in ("up", "down"):
        opts["initialWidth"] = rng.choice([1000, 600, 400])
        opts["initialHeight"] = rng.choice([112, 250, 400])
    else:
        opts["initialWidth"] = rng.choice([300, 400])
        opts["initialHeight"] = rng.choice([400, 600, 1000])
    lab = {}
    if rng.random() < 0.6:
        lab["minPos"] = rng.choice([0, None])
        lab["maxPos"] = rng.choice([None, 960, 560, 360])
    if rng.random() < 0.4:
        lab["algorithm"] = rng.choice(["overlap", "simple", "none"])
    if rng.random() < 0.3:
        lab["nodeSpacing"] = rng.choice([3, 1, 8])
    if rng.random() < 0.3:
        lab["density"] = rng.choice([0.5, 0.75, 0.3])
    if lab or rng.random() < 0.5:
        opts["labella"] = lab
    if rng.random() < 0.3:
        opts["showTicks"] = False
    if rng.random() < 0.3:
        opts["layerGap"] = rng.choice([30, 60, 20])
    if rng.random() < 0.3:
        opts["latex"] = {"reproducible": True}
    return items, opts


def sc_timeline(L, rng, out, case):
    T = L.timeline
    numeric = rng.random() < 0.6
    items, opts = rand_timeline(L, rng, numeric)
    kind = rng.choice(["svg", "tex"])
    if kind == "svg":
        tl = G(out, "TimelineSVG", T.TimelineSVG, items, options=opts)
        if tl is not None:
            out.pop()
            G(out, "svg-export", tl.export)
    else:
        tl = G(out, "TimelineTex", T.TimelineTex, items, options=opts)
        if tl is not None:
            out.pop()
            G(out, "tex-export", tl.export)
    if tl is not None and tl.nodes is not None:
        out.append(("nodes", canon([(n.idealPos, n.currentPos, n.width, n.layerIndex, n.x, n.y, n.dx, n.dy, n.w, n.h) for n in tl.nodes])))


def extra(L, rng, out, case):
    return


EXTRA_CASES = 0

# ---EXTRA---

SCENARIOS = [
    ("node", sc_node, 1200),
    ("vpsc", sc_vpsc, 2500),
    ("removeOverlap", sc_removeOverlap, 2000),
    ("distributor", sc_distributor, 2000),
    ("force", sc_force, 1200),
    ("timeline", sc_timeline, 300),
]


def run_tree(root):
    L = load(root)
    results = []
    scen = list(SCENARIOS)
    if EXTRA_CASES:
        scen.append(("extra", extra, EXTRA_CASES))
    for idx, (name, fn, count) in enumerate(scen):
        for case in range(count):
            rng = random.Random(1000003 * (idx + 1) + case)
            out = []
            r = guarded(fn, L, rng, out, case)
            if r[0] != "ok":
                out.append(("SCENARIO-ABORT",) + r[1:])
            results.append(("%s#%d" % (name, case), out))
    return results


def first_diff(a, b, path=""):
    if type(a) != type(b):
        return "%s: %r != %r" % (path, a, b)
    if isinstance(a, (list, tuple)):
        for i, (x, y) in enumerate(zip(a, b)):
            if x != y:
                return first_diff(x, y, "%s[%d]" % (path, i))
        if len(a) != len(b):
            return "%s: length %d != %d" % (path, len(a), len(b))
        return None
    if a != b:
        return "%s: %r != %r" % (path, a, b)
    return None


def main():
    if len(sys.argv) != 3:
        print("usage: equiv.py <original-checkout> <refactored-checkout>")
        return 2
    ra = run_tree(sys.argv[1])
    rb = run_tree(sys.argv[2])
    n = 0
    aborted = 0
    if len(ra) != len(rb):
        print("DIFFERENT: number of cases %d != %d" % (len(ra), len(rb)))
        return 1
    for (la, oa), (lb, ob) in zip(ra, rb):
        if la != lb or oa != ob:
            print("DIFFERENT in case %s" % la)
            d = first_diff(oa, ob)
            print("  first difference at %s" % (d if d is None else d[:2000]))
            return 1
        aborted += sum(1 for e in oa if e[0] == "SCENARIO-ABORT")
        n += 1
    if aborted:
        print("note: %d scenario(s) aborted identically in both trees" % aborted)
    print("EQUIVALENT (%d cases)" % n)
    return 0


if __name__ == "__main__":
    sys.exit(main())
