#!/usr/bin/env python
# -*- coding: utf-8 -*-
"""
Differential test: python equiv.py <original-checkout> <refactored-checkout>

Imports the ``labella`` package from each of the two directories in turn and
runs the timeline classes (SVG and TikZ export), the renderer, the colour
helpers and the Unicode-to-TeX conversion on the same randomised and edge-case
inputs (same seeds) in both trees.  Results are compared exactly: floats via
float.hex, strings/bytes with ==, exceptions by type name and message,
observable object state after the calls, the order in which user supplied
callables are invoked and everything written to stdout.

Prints ``EQUIVALENT (<n> cases)`` and exits 0 when everything matches,
otherwise prints the first difference and exits 1.
"""

import contextlib
import datetime
import importlib
import inspect
import io
import os
import random
import subprocess
import sys
import tempfile

sys.dont_write_bytecode = True

MODS = [
    "labella",
    "labella.timeline",
    "labella.renderer",
    "labella.utils",
    "labella.tex",
    "labella.scale",
    "labella.node",
    "labella.force",
]

N_TIMELINE = 2600
N_RENDERER = 1500
N_UTILS = 3000
N_TEX = 2500
N_LATEX = 400
N_MISC = 600


# --------------------------------------------------------------------------
# loading
# --------------------------------------------------------------------------


def purge():
    for name in list(sys.modules):
        if name == "labella" or name.startswith("labella."):
            del sys.modules[name]


def load(root):
    root = os.path.realpath(root)
    purge()
    sys.path.insert(0, root)
    importlib.invalidate_caches()
    ns = {}
    try:
        for m in MODS:
            ns[m.split(".")[-1]] = importlib.import_module(m)
    finally:
        sys.path.remove(root)
    for name, mod in list(sys.modules.items()):
        if name == "labella" or name.startswith("labella."):
            f = os.path.realpath(mod.__file__)
            assert f.startswith(root + os.sep), (name, f, root)
    return ns


# --------------------------------------------------------------------------
# canonical form of values
# --------------------------------------------------------------------------


def canon(x, depth=0):
    if depth > 12:
        return ("deep", type(x).__name__)
    if x is None or isinstance(x, (bool, int, str, bytes)):
        return (type(x).__name__, x)
    if isinstance(x, float):
        return ("float", x.hex())
    if isinstance(x, (list, tuple)):
        return (type(x).__name__, [canon(v, depth + 1) for v in x])
    if isinstance(x, dict):
        return (
            "dict",
            [(canon(k, depth + 1), canon(v, depth + 1)) for k, v in x.items()],
        )
    if isinstance(x, (datetime.datetime, datetime.date, datetime.time)):
        return (type(x).__name__, x.isoformat())
    if isinstance(x, datetime.timedelta):
        return ("timedelta", repr(x))
    if isinstance(x, BaseException):
        return ("exc", type(x).__name__, str(x))
    cls = type(x).__name__
    if cls == "Item":
        return ("Item", canon(dict(vars(x)), depth + 1), str(x))
    if cls == "Node":
        d = dict(vars(x))
        d.pop("parent", None)
        d.pop("child", None)
        d.pop("overlaps", None)
        return (
            "Node",
            canon(d, depth + 1),
            len(x.getPathToRoot()),
            x.child is not None,
        )
    if cls in ("LinearScale", "TimeScale"):
        try:
            return (cls, canon(x.domain(), depth + 1), canon(x.range(), depth + 1))
        except Exception as e:  # pragma: no cover
            return (cls, canon(e))
    if cls == "Renderer":
        return ("Renderer", canon(x.options, depth + 1))
    if isinstance(x, Logger):
        return ("Logger", x.name)
    if callable(x):
        return ("callable", getattr(x, "__name__", cls))
    return ("obj", cls)


def guarded(fn, *args, **kwargs):
    try:
        return ("ok", canon(fn(*args, **kwargs)))
    except Exception as e:
        return ("exc", type(e).__name__, str(e))


# --------------------------------------------------------------------------
# random inputs
# --------------------------------------------------------------------------

HEXDIGITS = "0123456789abcdefABCDEF"

TEXT_POOL = [
    "a", "b", "Z", " ", "1", "&", "<", ">", '"', "'", "%", "\\", "{", "}",
    "_", "$", "#", "~", "^",
    "\u00e9", "\u00e8", "\u00fc", "\u00f1", "\u00e7", "\u00c5", "\u00f8",
    "\u00df", "\u0142", "\u0151", "\u0119", "\u016f", "\u010d", "\u1e0d",
    "\u1e07", "\u0101", "\u0117", "\u01d8", "\u1ea5",
    "\u0300", "\u0301", "\u0302", "\u0308", "\u030b", "\u0303", "\u0327",
    "\u0328", "\u0304", "\u0331", "\u0307", "\u0323", "\u030a", "\u0306",
    "\u030c", "\u0309", "\u031b", "\u0345", "\u20d7",
    "\ufb01", "\u00bd", "\u00a0", "\u2126", "\u212b", "\uac00", "\u4e2d",
    "\u0391", "\u0431", "\U0001f600", "\u2260", "\u0958", "\u1e9b",
]


def rand_text(rng, maxlen=8):
    n = rng.randint(0, maxlen)
    return "".join(rng.choice(TEXT_POOL) for _ in range(n))


def rand_unicode(rng, maxlen=10):
    n = rng.randint(0, maxlen)
    out = []
    for _ in range(n):
        r = rng.random()
        if r < 0.35:
            out.append(rng.choice(TEXT_POOL))
        elif r < 0.55:
            out.append(chr(rng.randint(0x20, 0x7E)))
        elif r < 0.75:
            out.append(chr(rng.randint(0xA0, 0x24F)))
        elif r < 0.85:
            out.append(chr(rng.randint(0x300, 0x36F)))
        elif r < 0.95:
            out.append(chr(rng.randint(0x1E00, 0x1EFF)))
        else:
            c = rng.randint(0, 0x10FFFF)
            if 0xD800 <= c <= 0xDFFF:
                c = 0x41
            out.append(chr(c))
    return "".join(out)


def rand_color(rng, bad_ok=True):
    r = rng.random()
    if r < 0.35:
        s = "".join(rng.choice(HEXDIGITS) for _ in range(6))
        return "#" + s
    if r < 0.6:
        s = "".join(rng.choice(HEXDIGITS) for _ in range(3))
        return "#" + s
    if r < 0.75:
        s = "".join(rng.choice(HEXDIGITS) for _ in range(rng.choice([3, 6])))
        return s
    if r < 0.9 or not bad_ok:
        return rng.choice(["#222", "#fff", "#000", "#1f77b4", "#FF7F0E"])
    return rng.choice(
        ["", "#", "red", "#12", "#12345", "#1234567", "#ggg", "##fff", None,
         17, "#12 456", "+1f"]
    )


def rand_num(rng):
    r = rng.random()
    if r < 0.3:
        return rng.randint(-50, 400)
    if r < 0.9:
        return rng.uniform(-100.0, 500.0)
    return rng.choice([0, 0.0, -0.0, 1e-9, 1e9, 0.5, 1 / 3.0])


class Logger(object):
    """A colour / text / time callable that records how it is called."""

    def __init__(self, name, log, fn):
        self.name = name
        self.log = log
        self.fn = fn
        self.__name__ = name

    def __call__(self, d):
        self.log.append((self.name, canon(d)))
        return self.fn(d)


COLOR_OPTS = [
    "dotColor", "labelBgColor", "labelTextColor", "linkColor", "borderColor",
]


def make_timeline_case(ns, rng, log):
    """Build (mode, dicts, options) from the generator; fresh per tree."""
    LinearScale = ns["scale"].LinearScale
    TimeScale = ns["scale"].TimeScale
    mode = rng.choice(["svg", "tex"])
    r = rng.random()
    if r < 0.97:
        direction = rng.choice(["left", "right", "up", "down"])
    else:
        direction = rng.choice(["diagonal", "", None, "UP"])
    use_default_direction = rng.random() < 0.05

    kind = rng.choice(["num", "num", "datetime", "date", "mixed"])
    r = rng.random()
    if r < 0.02:
        n = 0
    elif r < 0.85:
        n = rng.randint(1, 9)
    else:
        n = rng.randint(10, 28)

    base = datetime.datetime(
        rng.randint(1950, 2030), rng.randint(1, 12), rng.randint(1, 28),
        rng.randint(0, 23), rng.randint(0, 59), rng.randint(0, 59),
    )
    span = rng.choice([30, 3600, 86400, 86400 * 40, 86400 * 400, 86400 * 5000])
    numspan = rng.choice([1.0, 10.0, 100.0, 1e4, 1e-3])
    text_key = rng.choice(["text", "text", "text", "label"])
    dicts = []
    for i in range(n):
        d = {}
        if kind == "num":
            if rng.random() < 0.5:
                t = rng.uniform(-numspan, numspan)
            else:
                t = rng.randint(-100, 100)
        else:
            t = base + datetime.timedelta(seconds=rng.randint(0, span))
            if kind == "date" or (kind == "mixed" and rng.random() < 0.5):
                t = t.date()
        d["time"] = t
        r = rng.random()
        if r < 0.55:
            d[text_key] = rand_text(rng) or "x"
        elif r < 0.65:
            d[text_key] = ""
        elif r < 0.7:
            d[text_key] = None
        if text_key in d or rng.random() < 0.7:
            if rng.random() < 0.7:
                d["width"] = rng.randint(5, 140)
            else:
                d["width"] = rng.uniform(5.0, 140.0)
        if rng.random() < 0.3:
            d["color"] = rand_color(rng, bad_ok=False)
        d["idx"] = i
        dicts.append(d)
    if n > 1 and rng.random() < 0.15:
        # duplicate times
        dicts[-1]["time"] = dicts[0]["time"]

    options = {}
    if not use_default_direction:
        options["direction"] = direction
    if kind == "num":
        options["scale"] = LinearScale()
    elif rng.random() < 0.3:
        options["scale"] = TimeScale()
    if rng.random() < 0.4:
        options["margin"] = {
            "left": rng.randint(0, 60), "right": rng.randint(0, 60),
            "top": rng.randint(0, 60), "bottom": rng.randint(0, 60),
        }
        if rng.random() < 0.2:
            options["margin"]["left"] = rng.uniform(0, 40)
            options["margin"]["top"] = rng.uniform(0, 40)
    if rng.random() < 0.5:
        options["initialWidth"] = rng.choice(
            [rng.randint(100, 1200), rng.uniform(100, 1200)]
        )
    if rng.random() < 0.5:
        options["initialHeight"] = rng.choice(
            [rng.randint(100, 1200), rng.uniform(100, 1200)]
        )
    if rng.random() < 0.3:
        options["dotRadius"] = rng.choice([1, 2, 5, 2.5, 0])
    if rng.random() < 0.4:
        options["layerGap"] = rng.choice([0, 10, 30, 45.5, 120])
    if rng.random() < 0.3:
        options["labelPadding"] = {
            "left": rng.randint(0, 9), "right": rng.randint(0, 9),
            "top": rng.randint(0, 9), "bottom": rng.choice([0, 1, 2.5]),
        }
    if rng.random() < 0.2:
        options["textXOffset"] = rng.choice(["0.2em", "1px", ""])
        options["textYOffset"] = rng.choice(["0.8em", "10px"])
    if rng.random() < 0.3:
        options["showTicks"] = rng.choice([True, False, 0, 1])
    if rng.random() < 0.5:
        options["showBorder"] = rng.choice([True, True, False, 1, 0, None])
    for cname in COLOR_OPTS:
        r = rng.random()
        if r < 0.35:
            continue
        if r < 0.55:
            options[cname] = rand_color(rng, bad_ok=rng.random() < 0.1)
        elif r < 0.75:
            m = rng.randint(1, 5)
            if rng.random() < 0.03:
                m = 0
            options[cname] = [
                rand_color(rng, bad_ok=rng.random() < 0.05) for _ in range(m)
            ]
        elif r < 0.8:
            options[cname] = list(
                rng.choice([ns["utils"].COLOR_10, ns["utils"].COLOR_20])
            )
        else:
            palette = [rand_color(rng, bad_ok=False) for _ in range(3)]
            which = rng.choice(["idx", "color", "const"])

            def colfn(d, palette=palette, which=which):
                if which == "idx":
                    return palette[d["idx"] % 3]
                if which == "color":
                    return d.get("color", palette[0])
                return palette[1]

            options[cname] = Logger(cname, log, colfn)
    if n and rng.random() < 0.15:
        times = [d["time"] for d in dicts]
        if kind == "num":
            lo, hi = min(times), max(times)
            options["domain"] = [lo - rng.uniform(0, 5), hi + rng.uniform(0.5, 5)]
        else:
            ts = [
                t if isinstance(t, datetime.datetime)
                else datetime.datetime.combine(t, datetime.time())
                for t in times
            ]
            options["domain"] = [
                min(ts) - datetime.timedelta(days=rng.randint(0, 3)),
                max(ts) + datetime.timedelta(days=rng.randint(1, 3)),
            ]
    r = rng.random()
    if r < 0.12:
        options["timeFn"] = Logger("timeFn", log, lambda d: d["time"])
    r = rng.random()
    if text_key == "label":
        options["textFn"] = Logger("textFn", log, lambda d: d.get("label"))
    elif r < 0.15:
        options["textFn"] = None
    elif r < 0.3:
        options["textFn"] = Logger(
            "textFn", log, lambda d: d["text"] if "text" in d else None
        )
    r = rng.random()
    if r < 0.55:
        lab = {}
        if rng.random() < 0.7:
            lab["maxPos"] = rng.choice([50, 120, 200, 360, 560, 1000])
        if rng.random() < 0.3:
            lab["minPos"] = rng.choice([0, 10, None])
        if rng.random() < 0.4:
            lab["algorithm"] = rng.choice(
                ["overlap", "overlap", "simple", "none", "bogus"]
            )
        if rng.random() < 0.3:
            lab["nodeSpacing"] = rng.choice([0, 1, 3, 8])
        if rng.random() < 0.3:
            lab["density"] = rng.choice([0.3, 0.5, 0.75, 0.85, 1.0])
        if rng.random() < 0.2:
            lab["stubWidth"] = rng.choice([1, 2, 5])
        options["labella"] = lab
    if rng.random() < 0.5:
        lat = {}
        if rng.random() < 0.4:
            lat["fontsize"] = rng.choice(["10pt", "12pt"])
        if rng.random() < 0.4:
            lat["tickCross"] = rng.choice([True, False, 1])
        if rng.random() < 0.4:
            lat["reproducible"] = rng.choice([True, False])
        if rng.random() < 0.4:
            lat["preamble"] = rng.choice(
                ["", "\\usepackage{times}", "\\usepackage[T1]{fontenc}\n%x"]
            )
        for key in ["borderThickness", "axisThickness", "tickThickness",
                    "linkThickness"]:
            if rng.random() < 0.25:
                lat[key] = rng.choice(["thin", "ultra thick", "line width=2pt"])
        options["latex"] = lat
    r = rng.random()
    if r < 0.04:
        options = None
    return mode, dicts, options


def timeline_state(tl):
    out = []
    out.append(("direction", canon(tl.direction)))
    out.append(("options", canon(tl.options)))
    out.append(("items", canon(tl.items)))
    out.append(("renderer", canon(tl.renderer)))
    nodes = tl.nodes
    if nodes is None:
        out.append(("nodes", None))
    else:
        chains = []
        for nd in nodes:
            chains.append([canon(h) for h in nd.getPathFromRoot()])
        out.append(("nodes", chains))
    return out


def run_timeline_case(ns, seed):
    rng = random.Random(seed)
    log = []
    mode, dicts, options = make_timeline_case(ns, rng, log)
    flavour = rng.random()
    probe = rng.random()
    tlmod = ns["timeline"]
    cls = tlmod.TimelineSVG if mode == "svg" else tlmod.TimelineTex
    res = []
    try:
        tl = cls(dicts, options=options)
    except Exception as e:
        res.append(("init-exc", type(e).__name__, str(e)))
        res.append(("log", list(log)))
        res.append(("dicts", canon(dicts)))
        res.append(("optarg", canon(options)))
        return res
    res.append(("after-init", timeline_state(tl)))
    res.append(("dicts", canon(dicts)))
    res.append(("optarg", canon(options)))

    if probe < 0.25:
        # public helpers before export
        res.append(("dims", guarded(tl.getInnerDims)))
        for d in dicts[:3]:
            res.append(("textFn", guarded(tl.textFn, d)))
            res.append(("timePos", guarded(tl.timePos, d)))
            for cname in COLOR_OPTS:
                res.append((cname, guarded(getattr(tl, cname), d)))
                res.append((cname, guarded(getattr(tl, cname), d, 3)))
                res.append(
                    ("colorFunc", guarded(tl.colorFunc, cname, d, i=2))
                )
        res.append(("get_nodes", guarded(tl.get_nodes)))
        if mode == "svg":
            res.append(("translation", guarded(tl.getTranslation)))

    if flavour < 0.03:
        # export to a file
        with tempfile.TemporaryDirectory() as tmp:
            fname = os.path.join(tmp, "out." + mode)
            if mode == "svg":
                res.append(("export-file", guarded(tl.export, fname)))
            else:
                res.append(
                    ("export-file", guarded(tl.export, fname, build_pdf=False))
                )
            if os.path.exists(fname):
                with open(fname, "rb") as fid:
                    res.append(("file", fid.read()))
            else:
                res.append(("file", None))
            res.append(("listing", sorted(os.listdir(tmp))))
    elif flavour < 0.5:
        res.append(("export", guarded(tl.export)))
    else:
        res.append(("export", guarded(tl.export, filename=None)))
    res.append(("after-export", timeline_state(tl)))

    if probe > 0.7 and tl.nodes is not None:
        # individual pieces on the computed layout
        for nd in tl.nodes[:4]:
            res.append(("nodePos", guarded(tl.nodePos, nd, 10)))
            res.append(("path", guarded(tl.renderer.generatePath, nd)))
            res.append(("path-tikz", guarded(tl.renderer.generatePath, nd, True)))
            res.append(("waypoints", guarded(tl.renderer.getWayPoints, nd)))
        if mode == "tex":
            for meth in ["add_header_labels", "add_header_colors",
                         "add_header_text", "add_margin", "add_main",
                         "add_timeline", "add_axis", "add_links",
                         "add_labels", "add_dots", "add_footer",
                         "close_scope", "add_header"]:
                doc = []
                res.append((meth, guarded(getattr(tl, meth), doc), list(doc)))
        else:
            from xml.etree import ElementTree

            for meth in ["add_main", "add_axis", "add_timeline", "add_dots",
                         "add_links", "add_labels"]:
                root = ElementTree.Element("g")
                r = guarded(getattr(tl, meth), root)
                res.append((meth, r[0], ElementTree.tostring(root)))
    if flavour > 0.8:
        res.append(("export-again", guarded(tl.export)))
        res.append(("after-export-again", timeline_state(tl)))
    res.append(("log", list(log)))
    res.append(("dicts-end", canon(dicts)))
    return res


# --------------------------------------------------------------------------
# renderer
# --------------------------------------------------------------------------


def rand_point(rng):
    r = rng.random()
    if r < 0.85:
        return [rand_num(rng), rand_num(rng)]
    if r < 0.9:
        return (rand_num(rng), rand_num(rng))
    return rng.choice(
        [[], [1], [1, 2, 3], ["a", 2], [None, 1], None, 5, "ab",
         [float("inf"), float("nan")], [True, False]]
    )


def run_renderer_case(ns, seed):
    rng = random.Random(seed)
    rmod = ns["renderer"]
    Node = ns["node"].Node
    res = []
    # module level path helpers
    res.append(("lineTo", guarded(rmod.lineTo, rand_point(rng))))
    res.append(("moveTo", guarded(rmod.moveTo, rand_point(rng))))
    res.append(
        ("curveTo",
         guarded(rmod.curveTo, rand_point(rng), rand_point(rng), rand_point(rng)))
    )
    res.append(
        ("vCurve", guarded(rmod.vCurveBetween, rand_point(rng), rand_point(rng)))
    )
    res.append(
        ("hCurve", guarded(rmod.hCurveBetween, rand_point(rng), rand_point(rng)))
    )
    res.append(("defaults", canon(rmod.DEFAULT_OPTIONS)))

    r = rng.random()
    if r < 0.08:
        opts = rng.choice([None, {}, 0])
    else:
        opts = {}
        if rng.random() < 0.85:
            opts["direction"] = rng.choice(
                ["left", "right", "up", "down", "left", "right", "up", "down",
                 "sideways", None]
            )
        if rng.random() < 0.8:
            opts["nodeHeight"] = rng.choice(
                [rng.randint(0, 80), rng.uniform(0, 80)]
            )
        if rng.random() < 0.8:
            opts["layerGap"] = rng.choice(
                [rng.randint(0, 120), rng.uniform(0, 120)]
            )
        if rng.random() < 0.1:
            opts["extra"] = "x"
    try:
        rend = rmod.Renderer(opts)
    except Exception as e:
        res.append(("init-exc", type(e).__name__, str(e)))
        return res
    res.append(("options", canon(rend.options)))
    res.append(("opts-arg", canon(opts)))

    nodes = []
    for _ in range(rng.randint(0, 5)):
        nd = Node(rand_num(rng), rng.choice([rng.randint(1, 90), rng.uniform(1, 90)]))
        depth = rng.choice([0, 0, 1, 2, 3, 5])
        nd.layerIndex = depth
        nd.currentPos = rand_num(rng)
        cur = nd
        for lvl in range(depth - 1, -1, -1):
            cur = cur.createStub(rng.choice([1, 2, None]))
            cur.layerIndex = lvl
            cur.currentPos = rand_num(rng)
        nodes.append(nd)
    allnodes = []
    for nd in nodes:
        allnodes.extend(nd.getPathFromRoot())
    if rng.random() < 0.5:
        target = allnodes
    else:
        target = nodes
    r = guarded(rend.layout, target)
    res.append(("layout", r))
    res.append(("after-layout", [canon(n) for n in allnodes]))
    for nd in allnodes:
        res.append(("waypoints", guarded(rend.getWayPoints, nd)))
        res.append(("path", guarded(rend.generatePath, nd)))
        res.append(("path-t", guarded(rend.generatePath, nd, tikz=True)))
        res.append(("path-f", guarded(rend.generatePath, nd, False)))
    res.append(("after", [canon(n) for n in allnodes]))
    res.append(("bad-node", guarded(rend.generatePath, None)))
    res.append(("bad-layout", guarded(rend.layout, [None])))
    res.append(("empty-layout", guarded(rend.layout, [])))
    return res


# --------------------------------------------------------------------------
# utils
# --------------------------------------------------------------------------


def rand_code(rng):
    r = rng.random()
    if r < 0.75:
        return rand_color(rng)
    if r < 0.9:
        n = rng.randint(0, 9)
        s = "".join(rng.choice(HEXDIGITS + "#gz -+_x") for _ in range(n))
        return s
    return rng.choice(
        [None, 0, 255, 1.5, b"#fff", b"fff", ["f", "f", "f"], ("a", "b", "c"),
         ["#", "a", "b", "c"], [], "", "#", "0x1 0x 0x", "\u0661\u0662\u0663",
         "#\uff21\uff22\uff23", " 1 2 3", "1_0fff"]
    )


def run_utils_case(ns, seed):
    rng = random.Random(seed)
    u = ns["utils"]
    res = []
    code = rand_code(rng)
    res.append(("code", canon(code)))
    for name in ["hex2dec", "hex2rgb", "hex2rgbf", "hex2rgbstr", "hex2html"]:
        res.append((name, guarded(getattr(u, name), code)))
    r = rng.random()
    if r < 0.5:
        i = seed % 20000
    elif r < 0.8:
        i = rng.randint(-30, 10 ** rng.randint(1, 12))
    elif r < 0.9:
        i = rng.choice([-1, 0, 25, 26, 27, 701, 702, 703, 18277, 18278, -2,
                        -27, 2 ** 70])
    else:
        i = rng.choice([None, 1.0, 2.5, 25.0, 26.0, True, False, "3", [1],
                        float("nan"), -0.5, 1e3])
    res.append(("int2name", canon(i), guarded(u.int2name, i)))
    res.append(("c10", canon(u.COLOR_10), canon(u.COLOR_20)))
    # d3_functor lives in labella.timeline
    f = ns["timeline"].d3_functor
    v = rng.choice([1, "x", None, [1, 2], len, str.upper])
    g = f(v)
    res.append(("functor", callable(g), g is v, guarded(g, "abc")))
    return res


# --------------------------------------------------------------------------
# tex
# --------------------------------------------------------------------------


def run_tex_case(ns, seed):
    rng = random.Random(seed)
    t = ns["tex"]
    res = []
    r = rng.random()
    if r < 0.9:
        text = rand_unicode(rng)
    elif r < 0.95:
        text = rng.choice(
            ["", "\u0301", "\u0301\u0301", "a\u0301\u0327", "e\u0345\u0301",
             "\u00e9\u0301", "\u1e69", "\ufb01\u0301", "\u0344", "a\u0344"]
        )
    else:
        text = rng.choice(
            [None, 5, ["a", "\u0301"], ("\u00e9",), ["ab"], b"ab", [1], 1.5]
        )
    res.append(("text", canon(text)))
    res.append(("uni2tex", guarded(t.uni2tex, text)))
    pre = rng.choice(["", "", "\\usepackage{x}", rand_unicode(rng), None])
    fs = rng.choice(["11pt", "10pt", "12pt", "", 12])
    k = rng.random()
    if k < 0.3:
        res.append(("fontdoc", guarded(t.get_latex_fontdoc, text)))
    elif k < 0.6:
        res.append(
            ("fontdoc", guarded(t.get_latex_fontdoc, text, fontsize=fs, preamble=pre))
        )
    else:
        res.append(("fontdoc", guarded(t.get_latex_fontdoc, text, fs, pre)))
    return res


class FakeLatex(object):
    """Stand-in for subprocess.check_output: no LaTeX is needed."""

    def __init__(self, rng, log):
        self.rng = rng
        self.log = log
        self.mode = rng.choice(
            ["ok", "ok", "ok", "ok", "oserror", "called", "nolog", "nowidth"]
        )
        self.width = rng.choice(["12.5pt", "33.33334pt", "0.0pt", "7pt"])
        self.height = rng.choice(["6.94444pt", "8.0pt", "10pt"])

    def __call__(self, command, **kwargs):
        outdir = None
        shown = []
        for c in command:
            if isinstance(c, str) and c.startswith("--outdir="):
                outdir = c[len("--outdir="):]
        for c in command:
            if isinstance(c, str) and outdir and outdir in c:
                c = c.replace(outdir, "<TMP>")
            shown.append(c)
        self.log.append(("command", canon(shown), canon(sorted(kwargs))))
        self.log.append(("stderr", kwargs.get("stderr") == subprocess.STDOUT))
        fname = command[-1]
        if isinstance(fname, str) and os.path.exists(fname):
            with open(fname, "rb") as fid:
                self.log.append(("texfile", fid.read()))
        if self.mode == "oserror":
            raise OSError(2, "No such file or directory: 'latexmk'")
        if self.mode == "called":
            raise subprocess.CalledProcessError(
                12, ["latexmk"], output=b"! Undefined control sequence.\n"
            )
        if outdir and isinstance(fname, str):
            root = os.path.splitext(os.path.basename(fname))[0]
            if self.mode != "nolog":
                with open(os.path.join(outdir, root + ".log"), "w") as fid:
                    fid.write("This is pdfTeX\n")
                    if self.mode != "nowidth":
                        fid.write("LABELWIDTH: %s\n" % self.width)
                    fid.write("LABELHEIGHT: %s\n" % self.height)
                    fid.write("done\n")
            with open(os.path.join(outdir, root + ".pdf"), "wb") as fid:
                fid.write(b"%PDF-fake " + self.width.encode())
        return b"Latexmk: All targets are up-to-date\n"


def run_latex_case(ns, seed):
    rng = random.Random(seed)
    t = ns["tex"]
    tlmod = ns["timeline"]
    log = []
    res = []
    fake = FakeLatex(rng, log)
    which = rng.choice(
        ["compile", "dims", "build", "text_dimensions", "item", "timeline",
         "export"]
    )
    lopts = rng.choice([None, [], ["--pdf"], ["--xelatex", "-f"], ["-silent"]])
    silent = rng.choice([True, False])
    text = rand_text(rng) or "x"
    stdout = io.StringIO()
    orig = subprocess.check_output
    subprocess.check_output = fake
    try:
        with contextlib.redirect_stdout(stdout), \
                tempfile.TemporaryDirectory() as tmp:
            if which == "compile":
                fname = os.path.join(tmp, "doc.tex")
                with open(fname, "w") as fid:
                    fid.write("x")
                if rng.random() < 0.5:
                    r = guarded(t.compile_latex, fname, tmp, lopts, silent=silent)
                else:
                    r = guarded(t.compile_latex, fname, tmp, lopts)
                r = canon_replace(r, tmp)
                res.append(("compile", r, sorted(os.listdir(tmp))))
            elif which == "dims":
                if rng.random() < 0.5:
                    r = guarded(t.get_latex_dims, text, lopts, silent=silent)
                else:
                    r = guarded(t.get_latex_dims, text, lopts)
                res.append(("dims", scrub(r)))
            elif which == "build":
                out = rng.choice([None, "", os.path.join(tmp, "res.pdf")])
                if out is None and rng.random() < 0.5:
                    r = guarded(t.build_latex_doc, text, lopts)
                else:
                    r = guarded(
                        t.build_latex_doc, text, lopts, output_name=out,
                        silent=silent,
                    )
                res.append(("build", scrub(r), sorted(os.listdir(tmp))))
                if out and os.path.exists(out):
                    with open(out, "rb") as fid:
                        res.append(("pdf", fid.read()))
            elif which == "text_dimensions":
                k = rng.random()
                if k < 0.3:
                    r = guarded(t.text_dimensions, text)
                elif k < 0.6:
                    r = guarded(
                        t.text_dimensions, text, fontsize="12pt",
                        preamble="\\usepackage{x}", silent=silent,
                        latexmk_options=lopts,
                    )
                else:
                    r = guarded(t.text_dimensions, text, "10pt", "", silent, lopts)
                res.append(("text_dimensions", scrub(r)))
            elif which == "item":
                mode = rng.choice(["svg", "tex", "other"])
                kw = dict(
                    width=rng.choice([None, None, 30, 0]),
                    text=rng.choice([text, text, None, ""]),
                    data=rng.choice([None, {"a": 1}]),
                    output_mode=mode,
                    tex_fontsize=rng.choice(["11pt", "10pt"]),
                    tex_preamble=rng.choice(["", "\\usepackage{y}"]),
                    latexmk_options=lopts,
                )
                try:
                    it = tlmod.Item(rand_num(rng), **kw)
                    res.append(("item", canon(it), repr(it), str(it)))
                    res.append(("dims", scrub(guarded(it.get_text_dimensions))))
                except Exception as e:
                    res.append(("item-exc", type(e).__name__, scrub(str(e))))
            elif which == "timeline":
                # text without width: the width is measured through LaTeX
                dicts = []
                for i in range(rng.randint(1, 4)):
                    d = {"time": rand_num(rng), "idx": i}
                    if rng.random() < 0.7:
                        d["text"] = rand_text(rng) or "y"
                    if rng.random() < 0.3:
                        d["width"] = rng.randint(10, 80)
                    dicts.append(d)
                options = {
                    "scale": ns["scale"].LinearScale(),
                    "direction": rng.choice(["left", "right", "up", "down"]),
                    "latex": {"latexmkOptions": lopts or []},
                }
                cls = rng.choice([tlmod.TimelineSVG, tlmod.TimelineTex])
                try:
                    tl = cls(dicts, options=options)
                    res.append(("state", timeline_state(tl)))
                    res.append(("export", scrub(guarded(tl.export))))
                except Exception as e:
                    res.append(("tl-exc", type(e).__name__, scrub(str(e))))
            else:
                # TimelineTex.export with build_pdf=True
                dicts = [
                    {"time": rand_num(rng), "width": rng.randint(10, 60),
                     "text": rand_text(rng) or "z", "idx": i}
                    for i in range(rng.randint(1, 4))
                ]
                options = {
                    "scale": ns["scale"].LinearScale(),
                    "direction": rng.choice(["left", "right", "up", "down"]),
                    "latex": {"latexmkOptions": lopts or []},
                }
                tl = tlmod.TimelineTex(dicts, options=options)
                fname = os.path.join(tmp, "sub.dir.tex")
                if rng.random() < 0.5:
                    r = guarded(tl.export, fname)
                else:
                    r = guarded(tl.export, filename=fname, build_pdf=True)
                res.append(("export-pdf", scrub(r), sorted(os.listdir(tmp))))
                for f in sorted(os.listdir(tmp)):
                    with open(os.path.join(tmp, f), "rb") as fid:
                        res.append((f, fid.read()))
    finally:
        subprocess.check_output = orig
    res.append(("stdout", stdout.getvalue()))
    res.append(("log", log))
    return res


def scrub(r):
    """Remove the random temporary directory names from messages."""
    import re

    tmpdir = re.escape(tempfile.gettempdir())
    pat = re.compile(tmpdir + r"/tmp[A-Za-z0-9_]+")

    def walk(x):
        if isinstance(x, str):
            return pat.sub("<TMP>", x)
        if isinstance(x, (list, tuple)):
            return type(x)(walk(v) for v in x)
        return x

    return walk(r)


def canon_replace(r, tmp):
    def walk(x):
        if isinstance(x, str):
            return x.replace(tmp, "<TMP>")
        if isinstance(x, (list, tuple)):
            return type(x)(walk(v) for v in x)
        return x

    return walk(r)


# --------------------------------------------------------------------------
# misc: Item, Timeline helpers, edge cases
# --------------------------------------------------------------------------


def run_misc_case(ns, seed):
    rng = random.Random(seed)
    tlmod = ns["timeline"]
    res = []
    # Item without LaTeX
    kw = {}
    if rng.random() < 0.8:
        kw["width"] = rng.choice([10, 50.5, 0, None])
    if rng.random() < 0.6:
        kw["text"] = rng.choice([None, "", "abc"]) if kw.get("width", 1) is None \
            else rng.choice([None, "", "abc", rand_text(rng)])
    if rng.random() < 0.4:
        kw["data"] = {"k": rng.randint(0, 5)}
    if rng.random() < 0.4:
        kw["output_mode"] = rng.choice(["svg", "tex"])
    try:
        it = tlmod.Item(rand_num(rng), **kw)
        res.append(("item", canon(it), repr(it)))
    except Exception as e:
        res.append(("item-exc", type(e).__name__, str(e)))
    res.append(("defaults", canon(tlmod.DEFAULT_OPTIONS), tlmod.DEFAULT_WIDTH))
    # edge-case timelines
    LinearScale = ns["scale"].LinearScale
    edge = rng.choice(
        ["empty", "nowidth-notext", "one", "same-time", "options-shared",
         "missing-time", "bad-color-list", "none-dicts", "scale-none"]
    )
    cls = rng.choice([tlmod.TimelineSVG, tlmod.TimelineTex])
    direction = rng.choice(["left", "right", "up", "down"])
    opts = {"scale": LinearScale(), "direction": direction}
    if edge == "empty":
        dicts = []
    elif edge == "nowidth-notext":
        dicts = [{"time": rand_num(rng)} for _ in range(rng.randint(1, 5))]
    elif edge == "one":
        dicts = [{"time": rand_num(rng), "width": 30, "text": "only"}]
    elif edge == "same-time":
        dicts = [{"time": 5, "width": 30, "text": "t%d" % i} for i in range(4)]
    elif edge == "options-shared":
        dicts = [{"time": i * 3, "width": 20 + i, "text": "s"} for i in range(3)]
        opts["labella"] = {"maxPos": 100}
        opts["latex"] = {"tickCross": True}
    elif edge == "missing-time":
        dicts = [{"width": 30, "text": "nt"}]
    elif edge == "bad-color-list":
        dicts = [{"time": i, "width": 20} for i in range(3)]
        opts["dotColor"] = []
    elif edge == "none-dicts":
        dicts = None
    else:
        dicts = [{"time": rand_num(rng), "width": 25, "text": "q"}
                 for _ in range(3)]
        opts["scale"] = None
        opts["domain"] = None
    try:
        tl = cls(dicts, options=opts)
        res.append(("state", timeline_state(tl)))
        res.append(("export", guarded(tl.export)))
        res.append(("state2", timeline_state(tl)))
        res.append(("opts", canon(opts)))
        if edge == "options-shared":
            tl2 = cls(dicts, options=opts)
            res.append(("export-shared", guarded(tl2.export)))
            res.append(("opts2", canon(opts)))
    except Exception as e:
        res.append(("edge-exc", edge, type(e).__name__, str(e)))
    return res


# --------------------------------------------------------------------------
# API surface: everything importable before stays importable
# --------------------------------------------------------------------------


def sigof(fn):
    """Parameter names, kinds and defaults (annotations are not compared)."""
    out = []
    for prm in inspect.signature(fn).parameters.values():
        default = None
        if prm.default is not inspect.Parameter.empty:
            default = ("default", canon(prm.default))
        out.append((prm.name, str(prm.kind), default))
    return out


def surface(ns):
    out = {}
    for key, mod in ns.items():
        for name in dir(mod):
            if name.startswith("__"):
                continue
            obj = getattr(mod, name)
            full = "%s.%s" % (mod.__name__, name)
            if inspect.isclass(obj) and getattr(obj, "__module__", "").startswith(
                "labella"
            ):
                out[full] = "class"
                for an in dir(obj):
                    if an.startswith("__") and an not in ("__init__", "__call__"):
                        continue
                    attr = inspect.getattr_static(obj, an)
                    sig = ""
                    fn = attr
                    if isinstance(attr, (staticmethod, classmethod)):
                        fn = attr.__func__
                    if inspect.isfunction(fn):
                        sig = sigof(fn)
                    out[full + "." + an] = (type(attr).__name__, sig)
            elif inspect.isfunction(obj):
                out[full] = ("function", sigof(obj))
            elif inspect.ismodule(obj):
                out[full] = "module"
            else:
                out[full] = ("value", canon(obj))
    return out


# --------------------------------------------------------------------------
# driver
# --------------------------------------------------------------------------

FAMILIES = [
    ("timeline", run_timeline_case, N_TIMELINE),
    ("renderer", run_renderer_case, N_RENDERER),
    ("utils", run_utils_case, N_UTILS),
    ("tex", run_tex_case, N_TEX),
    ("latex", run_latex_case, N_LATEX),
    ("misc", run_misc_case, N_MISC),
]


def run_tree(root):
    ns = load(root)
    results = []
    for fam, fn, count in FAMILIES:
        for i in range(count):
            seed = "%s-%d" % (fam, i)
            hseed = sum(ord(c) * (k + 1) for k, c in enumerate(fam)) * 100003 + i
            try:
                r = fn(ns, hseed)
            except Exception as e:
                r = ("harness-exc", type(e).__name__, str(e))
                raise
            results.append((seed, r))
    surf = surface(ns)
    purge()
    return results, surf


def first_diff(a, b, path=""):
    if type(a) != type(b):
        return "%s: type %s vs %s: %r vs %r" % (
            path, type(a).__name__, type(b).__name__, a, b)
    if isinstance(a, (list, tuple)):
        for i, (x, y) in enumerate(zip(a, b)):
            d = first_diff(x, y, "%s[%d]" % (path, i))
            if d:
                return d
        if len(a) != len(b):
            return "%s: length %d vs %d" % (path, len(a), len(b))
        return None
    if a != b:
        return "%s: %r vs %r" % (path, a, b)
    return None


def main(argv):
    if len(argv) != 3:
        print(__doc__)
        return 2
    orig_root, new_root = argv[1], argv[2]
    res_a, surf_a = run_tree(orig_root)
    res_b, surf_b = run_tree(new_root)
    if len(res_a) != len(res_b):
        print("DIFFERENT number of cases: %d vs %d" % (len(res_a), len(res_b)))
        return 1
    for (sa, ra), (sb, rb) in zip(res_a, res_b):
        assert sa == sb
        if ra != rb:
            print("DIFFERENCE in case %s" % sa)
            print(first_diff(ra, rb))
            return 1
    n = len(res_a)
    for name, val in sorted(surf_a.items()):
        n += 1
        if name not in surf_b:
            print("DIFFERENCE: %s is no longer available" % name)
            return 1
        if surf_b[name] != val:
            print("DIFFERENCE: %s: %r vs %r" % (name, val, surf_b[name]))
            return 1
    print("EQUIVALENT (%d cases)" % n)
    return 0


if __name__ == "__main__":
    sys.exit(main(sys.argv))
