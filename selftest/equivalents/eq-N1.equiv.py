#!/usr/bin/env python
# -*- coding: utf-8 -*-
"""
Differential test for behaviour-preserving changes in the labella layout
engine (vpsc, removeOverlap, force, distributor, node).

Usage: python equiv.py <original-checkout> <refactored-checkout>

The labella package is imported from each checkout in turn, the same seeded
scenarios are run in both and every result is compared exactly (floats via
float.hex, exceptions via type name and message).
"""

import datetime
import importlib
import os
import random
import sys

SUBMODULES = [
    "labella",
    "labella.vpsc",
    "labella.node",
    "labella.distributor",
    "labella.removeOverlap",
    "labella.force",
    "labella.metrics",
    "labella.scale",
    "labella.timeline",
]

MOST_VIOLATED_LIMIT = 3000


# --------------------------------------------------------------------------
# loading
# --------------------------------------------------------------------------


def purge():
    for name in list(sys.modules):
        if name == "labella" or name.startswith("labella."):
            del sys.modules[name]
    importlib.invalidate_caches()


def load(path):
    root = os.path.realpath(path)
    purge()
    sys.path.insert(0, root)
    try:
        mods = {}
        for name in SUBMODULES:
            mods[name] = importlib.import_module(name)
        for name, mod in list(sys.modules.items()):
            if name == "labella" or name.startswith("labella."):
                fname = os.path.realpath(mod.__file__)
                assert fname.startswith(root + os.sep), (name, fname, root)
    finally:
        sys.path.remove(root)
    return mods


# --------------------------------------------------------------------------
# canonical form of results
# --------------------------------------------------------------------------


def canon(x):
    if x is None or isinstance(x, (bool, str, bytes)):
        return (type(x).__name__, x)
    if isinstance(x, int):
        return ("int", x)
    if isinstance(x, float):
        return ("float", x.hex())
    if isinstance(x, (list, tuple)):
        return (type(x).__name__, [canon(y) for y in x])
    if isinstance(x, dict):
        return ("dict", [(canon(k), canon(v)) for k, v in x.items()])
    if isinstance(x, (datetime.datetime, datetime.date)):
        return (type(x).__name__, x.isoformat())
    raise TypeError("cannot canonicalise %r" % (type(x),))


class StepLimit(Exception):
    pass


def attempt(f, *args, **kwargs):
    """Run f and return ("ok", value) or ("exc", type name, message)."""
    try:
        return ("ok", f(*args, **kwargs))
    except RecursionError as e:
        return ("exc", type(e).__name__, "")
    except Exception as e:
        return ("exc", type(e).__name__, str(e))


def status(r):
    """Only the outcome of attempt(): the exception or a bare "ok"."""
    return r if r[0] == "exc" else ("ok",)


def cattempt(conv, f, *args, **kwargs):
    r = attempt(f, *args, **kwargs)
    if r[0] == "ok":
        return ("ok", conv(r[1]))
    return r


# --------------------------------------------------------------------------
# node signatures
# --------------------------------------------------------------------------


class NodeBook(object):
    """Gives every node a stable name: (label of the real node, stub depth)."""

    def __init__(self, node_cls):
        self.node_cls = node_cls
        self.labels = {}
        self.keep = []

    def register(self, node, label):
        self.labels[id(node)] = label
        self.keep.append(node)

    def name(self, node):
        depth = 0
        cur = node
        seen = 0
        while id(cur) not in self.labels:
            child = getattr(cur, "child", None)
            if child is None or seen > 1000:
                return ("anon", depth)
            cur = child
            depth += 1
            seen += 1
        return (self.labels[id(cur)], depth)

    def value(self, x):
        if isinstance(x, self.node_cls):
            return ("node", self.name(x))
        if isinstance(x, (list, tuple)):
            return (type(x).__name__, [self.value(y) for y in x])
        if isinstance(x, set):
            return ("set", sorted(self.value(y) for y in x))
        if isinstance(x, dict):
            return (
                "dict",
                [(self.value(k), self.value(v)) for k, v in x.items()],
            )
        try:
            return canon(x)
        except TypeError:
            return ("obj", type(x).__name__)

    def sig(self, node):
        d = vars(node)
        out = []
        for k in sorted(d):
            v = d[k]
            if k == "overlaps":
                out.append((k, ("nodes", sorted(self.name(y) for y in v))))
            else:
                out.append((k, self.value(v)))
        return (self.name(node), out)

    def layers(self, layers):
        if layers is None:
            return None
        return [[self.sig(n) for n in layer] for layer in layers]


# --------------------------------------------------------------------------
# random material
# --------------------------------------------------------------------------


def rnd_pos(rng):
    k = rng.random()
    if k < 0.35:
        return rng.randint(-50, 1000)
    if k < 0.7:
        return rng.uniform(-100.0, 1000.0)
    if k < 0.8:
        return float(rng.randint(0, 20))
    if k < 0.9:
        return rng.choice([0, 0.0, 1, 100, 500, 999.5, -3.25, 1e6, 1e-3])
    return rng.uniform(0, 50)


def rnd_width(rng):
    k = rng.random()
    if k < 0.4:
        return rng.randint(1, 120)
    if k < 0.8:
        return rng.uniform(0.5, 150.0)
    if k < 0.9:
        return rng.choice([0, 1, 2, 50, 50.0, 33.3, 7])
    return rng.randint(1, 10)


# --------------------------------------------------------------------------
# vpsc
# --------------------------------------------------------------------------


def limited(solver):
    """Deterministic guard against endless solver loops."""
    orig = solver.mostViolated
    count = [0]

    def guard():
        count[0] += 1
        if count[0] > MOST_VIOLATED_LIMIT:
            raise StepLimit("limit")
        return orig()

    solver.mostViolated = guard
    return solver


def vpsc_state(vs, cs, solver):
    vi = {id(v): i for i, v in enumerate(vs)}
    ci = {id(c): i for i, c in enumerate(cs)}
    blocks = {}
    blist = []
    if solver.bs is not None:
        for j, b in enumerate(solver.bs._list):
            blocks[id(b)] = j

    def bname(b):
        return blocks.get(id(b), "detached")

    out = []
    for v in vs:
        d = vars(v)
        item = []
        for k in sorted(d):
            x = d[k]
            if k == "block":
                item.append((k, bname(x), canon(x.posn), canon(x.ps.scale)))
            elif k in ("cIn", "cOut"):
                item.append((k, [ci[id(c)] for c in x]))
            elif k == "node":
                item.append((k, x is None))
            else:
                item.append((k, canon(x)))
        item.append(("position", cattempt(canon, v.position)))
        item.append(("dfdv", cattempt(canon, v.dfdv)))
        item.append(("repr", repr(v), str(v)))
        out.append(item)
    for c in cs:
        d = vars(c)
        item = []
        for k in sorted(d):
            x = d[k]
            if k in ("left", "right"):
                item.append((k, vi[id(x)]))
            else:
                item.append((k, canon(x)))
        item.append(("slack", cattempt(canon, c.slack)))
        item.append(("repr", repr(c), str(c)))
        out.append(item)
    if solver.bs is not None:
        for b in solver.bs._list:
            d = vars(b)
            item = []
            for k in sorted(d):
                x = d[k]
                if k == "vars":
                    item.append((k, [vi[id(v)] for v in x]))
                elif k == "ps":
                    item.append((k, canon(sorted(vars(x).items()))))
                else:
                    item.append((k, canon(x)))
            item.append(("cost", cattempt(canon, b.cost)))
            blist.append(item)
        out.append(("blocks", blist))
        out.append(("bs.vs", [vi[id(v)] for v in solver.bs.vs]))
    else:
        out.append(("blocks", None))
    out.append(("inactive", [ci[id(c)] for c in solver.inactive]))
    out.append(("solver.vs", [vi[id(v)] for v in solver.vs]))
    out.append(("solver.cs", [ci[id(c)] for c in solver.cs]))
    out.append(
        ("solver.attrs", sorted(k for k in vars(solver) if k != "mostViolated"))
    )
    return out


def gen_vpsc_problem(rng):
    k = rng.random()
    if k < 0.7:
        n = rng.randint(1, 8)
    elif k < 0.95:
        n = rng.randint(5, 20)
    else:
        n = rng.randint(20, 40)
    use_scale = rng.random() < 0.2
    use_weight = rng.random() < 0.5
    variables = []
    for _ in range(n):
        pos = rnd_pos(rng)
        if rng.random() < 0.3 and variables:
            pos = rng.choice(variables)[0]
        weight = None
        if use_weight:
            weight = rng.choice(
                [None, 1, 2, 0.5, 1e10, rng.uniform(0.1, 10), 3]
            )
        scale = None
        if use_scale:
            scale = rng.choice([None, 1, 2, 0.5, 1.0, rng.uniform(0.2, 4)])
        variables.append((pos, weight, scale))
    mode = rng.choice(["chain", "chain", "dag", "dag", "cyclic", "none"])
    constraints = []
    eq_p = rng.choice([0, 0, 0, 0.1, 0.4])
    if mode == "chain":
        for i in range(1, n):
            constraints.append((i - 1, i, rng.choice([3, 2, rnd_width(rng)])))
        if rng.random() < 0.3 and n > 2:
            for _ in range(rng.randint(1, 3)):
                i = rng.randint(0, n - 2)
                j = rng.randint(i + 1, n - 1)
                constraints.append((i, j, rnd_width(rng)))
    elif mode == "dag" and n > 1:
        for _ in range(rng.randint(1, 2 * n)):
            i = rng.randint(0, n - 2)
            j = rng.randint(i + 1, n - 1)
            constraints.append((i, j, rng.choice([3, rnd_width(rng), 0, -5])))
    elif mode == "cyclic" and n > 1:
        for _ in range(rng.randint(1, 2 * n)):
            i = rng.randint(0, n - 1)
            j = rng.randint(0, n - 1)
            if i == j and rng.random() < 0.8:
                continue
            constraints.append((i, j, rng.choice([3, rnd_width(rng), 0])))
    cons = []
    for (i, j, g) in constraints:
        if rng.random() < eq_p:
            eq = True
        else:
            eq = rng.choice([None, None, False, "omit", "omit"])
        cons.append((i, j, g, eq))
    return variables, cons


def build_vpsc(vpsc, variables, cons):
    vs = []
    for (pos, weight, scale) in variables:
        if weight is None and scale is None:
            vs.append(vpsc.Variable(pos))
        elif scale is None:
            vs.append(vpsc.Variable(pos, weight))
        else:
            vs.append(vpsc.Variable(pos, weight=weight, scale=scale))
    cs = []
    for (i, j, g, eq) in cons:
        if eq == "omit":
            cs.append(vpsc.Constraint(vs[i], vs[j], g))
        else:
            cs.append(vpsc.Constraint(vs[i], vs[j], g, eq))
    return vs, cs


def run_vpsc_case(mods, seed):
    vpsc = mods["labella.vpsc"]
    rng = random.Random(seed)
    variables, cons = gen_vpsc_problem(rng)
    vs, cs = build_vpsc(vpsc, variables, cons)
    vi = {id(v): i for i, v in enumerate(vs)}
    ci = {id(c): i for i, c in enumerate(cs)}
    res = []
    solver = limited(vpsc.Solver(vs, cs))
    res.append(("init", vpsc_state(vs, cs, solver)))
    res.append(("cost-before", cattempt(canon, solver.cost)))
    op = rng.random()
    if op < 0.75:
        res.append(("solve", cattempt(canon, solver.solve)))
    elif op < 0.9:
        res.append(("satisfy", cattempt(canon, solver.satisfy)))
        res.append(("state", vpsc_state(vs, cs, solver)))
        res.append(("satisfy", cattempt(canon, solver.satisfy)))
    else:
        mv = attempt(solver.mostViolated)
        if mv[0] == "ok":
            mv = ("ok", None if mv[1] is None else ci[id(mv[1])])
        res.append(("mostViolated", mv))
    res.append(("state", vpsc_state(vs, cs, solver)))
    res.append(("cost", cattempt(canon, solver.cost)))

    if rng.random() < 0.4:
        ps = [rnd_pos(rng) for _ in vs]
        if rng.random() < 0.1:
            ps = ps[:-1]
        res.append(
            ("setDesired", cattempt(canon, solver.setDesiredPositions, ps))
        )
        res.append(("solve2", cattempt(canon, solver.solve)))
        res.append(("state", vpsc_state(vs, cs, solver)))

    if rng.random() < 0.15:
        ps = [rnd_pos(rng) for _ in vs]
        res.append(
            ("setStarting", cattempt(canon, solver.setStartingPositions, ps))
        )
        res.append(("state", vpsc_state(vs, cs, solver)))
        res.append(("solve3", cattempt(canon, solver.solve)))
        res.append(("state", vpsc_state(vs, cs, solver)))

    bs = solver.bs
    if bs is not None and rng.random() < 0.6:
        seen = []
        bs.forEach(lambda b: seen.append([vi[id(v)] for v in b.vars]))
        res.append(("forEach", seen))
        res.append(("bs.cost", cattempt(canon, bs.cost)))
        for b in list(bs._list):
            m = attempt(b.findMinLM)
            if m[0] == "ok":
                m = (
                    "ok",
                    None
                    if m[1] is None
                    else (ci[id(m[1])], canon(m[1].lm)),
                )
            res.append(("findMinLM", m))
            if len(b.vars) > 1:
                lv = rng.choice(b.vars)
                rv = rng.choice(b.vars)
                p = attempt(b.isActiveDirectedPathBetween, lv, rv)
                res.append(("path", p))
                visited = []
                f = attempt(
                    b.findPath,
                    lv,
                    None,
                    rv,
                    lambda c, n: visited.append((ci[id(c)], vi[id(n)])),
                )
                res.append(("findPath", f, visited))
                m = attempt(b.findMinLMBetween, lv, rv)
                if m[0] == "ok":
                    m = ("ok", None if m[1] is None else ci[id(m[1])])
                res.append(("findMinLMBetween", m))

                class Acc(object):
                    def __init__(self):
                        self.items = []

                    def push(self, x):
                        self.items.append(x)

                acc = Acc()
                t = attempt(
                    b.traverse, lambda c: ci[id(c)], acc, None, None
                )
                res.append(("traverse", t, acc.items))
                t = attempt(b.traverse, lambda c: ci[id(c)], [], lv, rv)
                res.append(("traverse-list", t))
        res.append(("state", vpsc_state(vs, cs, solver)))
        res.append(
            ("updateBlockPositions", cattempt(canon, bs.updateBlockPositions))
        )
        res.append(("state", vpsc_state(vs, cs, solver)))

        # structural operations on the block list
        if rng.random() < 0.5:
            for b in list(bs._list):
                if len(b.vars) > 1 and rng.random() < 0.7:
                    lv = rng.choice(b.vars)
                    rv = rng.choice(b.vars)
                    s = attempt(b.splitBetween, lv, rv)
                    if s[0] == "ok" and s[1] is not None:
                        d = s[1]
                        res.append(
                            (
                                "splitBetween",
                                sorted(d.keys()),
                                ci[id(d["constraint"])],
                                [vi[id(v)] for v in d["lb"].vars],
                                [vi[id(v)] for v in d["rb"].vars],
                                canon(d["lb"].posn),
                                canon(d["rb"].posn),
                            )
                        )
                        old = bs._list
                        bs.insert(d["lb"])
                        bs.insert(d["rb"])
                        bs.remove(b)
                        res.append(
                            (
                                "rebinding",
                                old is bs._list,
                                len(old),
                                len(bs._list),
                            )
                        )
                        solver.inactive.append(d["constraint"])
                    else:
                        res.append(("splitBetween", s[:1], s[1:] == (None,)))
            res.append(("state", vpsc_state(vs, cs, solver)))
            inactive = []
            sp = attempt(bs.split, inactive)
            res.append(
                ("bs.split", sp[0], sp[1:], [ci[id(c)] for c in inactive])
            )
            res.append(("state", vpsc_state(vs, cs, solver)))
            res.append(("solve4", cattempt(canon, solver.solve)))
            res.append(("state", vpsc_state(vs, cs, solver)))
        elif cs and rng.random() < 0.5:
            c = rng.choice(cs)
            if c.left.block is not c.right.block:
                old = bs._list
                res.append(("merge", cattempt(canon, bs.merge, c)))
                res.append(("rebinding", old is bs._list, len(old)))
            else:
                sp = attempt(vpsc.Block.split, c)
                if sp[0] == "ok":
                    sp = (
                        "ok",
                        type(sp[1]).__name__,
                        [[vi[id(v)] for v in b.vars] for b in sp[1]],
                    )
                res.append(("Block.split", sp))
            res.append(("state", vpsc_state(vs, cs, solver)))

    # PositionStats on its own
    if rng.random() < 0.2:
        ps = vpsc.PositionStats(rng.choice([1, 2, 0.5, rng.uniform(0.1, 3)]))
        for v in vs:
            ps.addVariable(v)
        res.append(
            (
                "PositionStats",
                canon(sorted(vars(ps).items())),
                cattempt(canon, ps.getPosn),
            )
        )
    return res


def vpsc_constants(mods):
    vpsc = mods["labella.vpsc"]
    names = sorted(n for n in dir(vpsc) if not n.startswith("__"))
    required = [
        "PositionStats",
        "Constraint",
        "Variable",
        "Block",
        "Blocks",
        "Solver",
        "maxsize",
    ]
    return (
        [n in names for n in required],
        canon(vpsc.Solver.LAGRANGIAN_TOLERANCE),
        canon(vpsc.Solver.ZERO_UPPERBOUND),
        [
            (c, getattr(vpsc, c).__mro__[1:] == (object,))
            for c in required[:-1]
        ],
        [
            sorted(
                k for k in vars(getattr(vpsc, c)) if not k.startswith("_")
            )
            for c in required[:-1]
        ],
    )


# --------------------------------------------------------------------------
# node
# --------------------------------------------------------------------------


def run_node_case(mods, seed):
    Node = mods["labella.node"].Node
    rng = random.Random(seed)
    book = NodeBook(Node)
    res = []

    def mk(label):
        width = rnd_width(rng)
        if rng.random() < 0.02:
            width = None
        k = rng.random()
        if k < 0.5:
            n = Node(rnd_pos(rng), width)
        elif k < 0.8:
            n = Node(rnd_pos(rng), width, label)
        else:
            n = Node(rnd_pos(rng), width, data=label)
        if rng.random() < 0.6:
            n.currentPos = rnd_pos(rng)
        book.register(n, label)
        return n

    a = mk("a")
    b = mk("b")
    nodes = [a, b]
    # stubs
    cur = a
    for _ in range(rng.choice([0, 0, 1, 2, 3])):
        w = rng.choice([1, 2, 1.5, 1, 0.5, 3, 1, 2, None, "omit"])
        if w == "omit":
            s = attempt(cur.createStub)
        else:
            s = attempt(cur.createStub, w)
        if s[0] != "ok":
            res.append(("createStub", s))
            break
        cur = s[1]
        nodes.append(cur)
        if rng.random() < 0.5:
            cur.currentPos = rnd_pos(rng)
    buf = rng.choice([None, 0, 1, 2, 3.5, -1, "omit"])
    pos = rnd_pos(rng)
    for n in nodes:
        for m in nodes:
            res.append(("distanceFrom", cattempt(canon, n.distanceFrom, m)))
            if buf == "omit":
                res.append(
                    ("overlapWithNode", cattempt(canon, n.overlapWithNode, m))
                )
                res.append(
                    ("positionBefore", cattempt(canon, n.positionBefore, m))
                )
                res.append(
                    ("positionAfter", cattempt(canon, n.positionAfter, m))
                )
            else:
                res.append(
                    (
                        "overlapWithNode",
                        cattempt(canon, n.overlapWithNode, m, buf),
                    )
                )
                res.append(
                    (
                        "positionBefore",
                        cattempt(canon, n.positionBefore, m, buf),
                    )
                )
                res.append(
                    (
                        "positionAfter",
                        cattempt(canon, n.positionAfter, m, buf=buf),
                    )
                )
        for name in [
            "displacement",
            "currentRight",
            "currentLeft",
            "idealRight",
            "idealLeft",
            "isStub",
            "getPathToRootLength",
            "getLayerIndex",
        ]:
            res.append((name, cattempt(canon, getattr(n, name))))
        res.append(
            ("overlapWithPoint", cattempt(canon, n.overlapWithPoint, pos))
        )
        res.append(
            (
                "overlapWithPoint-edge",
                cattempt(
                    canon,
                    n.overlapWithPoint,
                    n.currentPos
                    + (n.width / 2 if n.width is not None else 0),
                ),
            )
        )
        res.append(("getPathToRoot", cattempt(book.value, n.getPathToRoot)))
        res.append(
            ("getPathFromRoot", cattempt(book.value, n.getPathFromRoot))
        )
        res.append(("getRoot", cattempt(book.value, n.getRoot)))
        res.append(("repr", repr(n), str(n)))
        c = n.clone()
        res.append(("clone", c is not n, sorted(book.sig(c)[1])))
        res.append(("sig", book.sig(n)))
    # mutators
    for n in nodes:
        if rng.random() < 0.5:
            r = n.moveToIdealPosition()
            res.append(("moveToIdealPosition", r is None, book.sig(n)))
        if rng.random() < 0.5:
            r = n.removeStub()
            res.append(("removeStub", r is n))
    for n in nodes:
        res.append(("sig", book.sig(n)))
        res.append(("isStub", n.isStub(), type(n.isStub()).__name__))
    res.append(
        (
            "class",
            Node.__mro__[1:] == (object,),
            all(
                hasattr(Node, m)
                for m in [
                    "distanceFrom",
                    "moveToIdealPosition",
                    "displacement",
                    "overlapWithNode",
                    "overlapWithPoint",
                    "positionBefore",
                    "positionAfter",
                    "currentRight",
                    "currentLeft",
                    "idealRight",
                    "idealLeft",
                    "removeStub",
                    "createStub",
                    "isStub",
                    "getPathToRoot",
                    "getPathFromRoot",
                    "getPathToRootLength",
                    "getRoot",
                    "getLayerIndex",
                    "clone",
                ]
            ),
        )
    )
    return res


# --------------------------------------------------------------------------
# distributor / removeOverlap / force
# --------------------------------------------------------------------------


def gen_nodes(mods, rng, book, nmax=40):
    Node = mods["labella.node"].Node
    k = rng.random()
    if k < 0.05:
        n = 0
    elif k < 0.5:
        n = rng.randint(1, 8)
    else:
        n = rng.randint(5, nmax)
    span = rng.choice([50, 200, 1000, 1000, 5000])
    intw = rng.random() < 0.5
    intp = rng.random() < 0.4
    nodes = []
    for i in range(n):
        if intp:
            p = rng.randint(0, span)
        else:
            p = rng.uniform(0, span)
        if rng.random() < 0.15 and nodes:
            p = rng.choice(nodes).idealPos
        if intw:
            w = rng.choice([50, 50, rng.randint(1, 100)])
        else:
            w = rng.uniform(1, 100)
        node = Node(p, w, i)
        book.register(node, i)
        nodes.append(node)
    return nodes


def gen_layout_options(rng, for_force):
    opts = {}
    if rng.random() < 0.5:
        opts["algorithm"] = rng.choice(
            ["overlap", "overlap", "simple", "none", "roundRobin", "bogus"]
        )
    if rng.random() < 0.5:
        opts["density"] = rng.choice([0.75, 0.85, 0.5, 1, rng.uniform(0.2, 1)])
    if rng.random() < 0.5:
        opts["nodeSpacing"] = rng.choice([3, 0, 1, 5, 2.5, rng.uniform(0, 8)])
    if rng.random() < 0.3:
        opts["stubWidth"] = rng.choice([1, 2, 0.5, 3])
    if rng.random() < 0.3:
        opts["lineSpacing"] = rng.choice([2, 0, 1.5, 4])
    if for_force:
        if rng.random() < 0.5:
            opts["minPos"] = rng.choice([0, None, 10, 30, -20, 12.5])
        if rng.random() < 0.6:
            opts["maxPos"] = rng.choice(
                [None, 100, 400, 904, 1000, 250.5, rng.randint(50, 2000)]
            )
        if rng.random() < 0.2:
            opts["layerWidth"] = rng.choice([None, 100, 500, 1000])
    else:
        if rng.random() < 0.7:
            opts["layerWidth"] = rng.choice(
                [None, 0, 100, 300, 1000, 450.5, rng.randint(50, 2000)]
            )
    return opts


def run_distributor_case(mods, seed):
    dist = mods["labella.distributor"]
    Node = mods["labella.node"].Node
    rng = random.Random(seed)
    book = NodeBook(Node)
    nodes = gen_nodes(mods, rng, book)
    opts = gen_layout_options(rng, False)
    res = []
    k = rng.random()
    if k < 0.2 and not opts:
        d = dist.Distributor()
    elif k < 0.3:
        d = dist.Distributor(None)
    elif k < 0.6:
        d = dist.Distributor(options=dict(opts))
    else:
        d = dist.Distributor(dict(opts))
    if rng.random() < 0.05:
        del d.options["algorithm"]
    res.append(("options", canon(d.options)))
    res.append(
        ("computeRequiredWidth", cattempt(canon, d.computeRequiredWidth, nodes))
    )
    res.append(("maxWidthPerLayer", cattempt(canon, d.maxWidthPerLayer)))
    res.append(("needToSplit", cattempt(canon, d.needToSplit, nodes)))
    res.append(
        (
            "estimateRequiredLayers",
            cattempt(canon, d.estimateRequiredLayers, nodes),
        )
    )
    op = rng.random()
    arg = nodes
    if rng.random() < 0.03:
        arg = None
    order_before = [book.name(n) for n in nodes]
    if op < 0.6:
        res.append(("distribute", cattempt(book.layers, d.distribute, arg)))
    elif op < 0.75:
        srt = sorted(nodes, key=lambda x: x.idealPos)
        res.append(
            ("algorithm_simple", cattempt(book.layers, d.algorithm_simple, srt))
        )
    elif op < 0.9:
        srt = sorted(nodes, key=lambda x: x.idealPos)
        res.append(
            (
                "algorithm_overlap",
                cattempt(book.layers, d.algorithm_overlap, srt),
            )
        )
    elif op < 0.95:
        res.append(
            (
                "algorithm_roundRobin",
                cattempt(book.layers, d.algorithm_roundRobin, nodes),
            )
        )
    else:
        res.append(
            ("countIdealOverlaps", cattempt(canon, d.countIdealOverlaps, nodes))
        )
    res.append(("order", order_before == [book.name(n) for n in nodes]))
    res.append(("nodes", [book.sig(n) for n in nodes]))
    res.append(("options-after", canon(d.options)))
    return res


def run_remove_overlap_case(mods, seed):
    ro = mods["labella.removeOverlap"]
    Node = mods["labella.node"].Node
    rng = random.Random(seed)
    book = NodeBook(Node)
    nodes = gen_nodes(mods, rng, book, nmax=25)
    # turn some nodes into stubs / give some a parent
    layer = []
    for n in nodes:
        k = rng.random()
        if k < 0.15:
            s = n.createStub(rng.choice([1, 2, 0.5]))
            s.currentPos = rnd_pos(rng)
            layer.append(n)  # node with parent
        elif k < 0.3:
            s = n.createStub(rng.choice([1, 2, 0.5]))
            layer.append(s)  # the stub itself
        else:
            layer.append(n)
    k = rng.random()
    if k < 0.2:
        opts = None
    elif k < 0.3:
        opts = {}
    else:
        opts = {}
        if rng.random() < 0.5:
            opts["lineSpacing"] = rng.choice([2, 0, 1.5, 4])
        if rng.random() < 0.5:
            opts["nodeSpacing"] = rng.choice([3, 0, 1, 5, 2.5])
        if rng.random() < 0.5:
            opts["minPos"] = rng.choice([0, None, 10, 30, -20, 12.5])
        if rng.random() < 0.6:
            opts["maxPos"] = rng.choice(
                [None, 100, 400, 904, 1000, 250.5, rng.randint(50, 2000)]
            )
        if rng.random() < 0.1:
            opts["unrelated"] = 5
    res = []
    opts_copy = None if opts is None else dict(opts)
    r = attempt(ro.removeOverlap, layer, opts)
    if r[0] == "ok":
        res.append(("same-list", r[1] is layer))
    else:
        res.append(r)
    res.append(("options-untouched", opts == opts_copy))
    res.append(("layer", [book.sig(n) for n in layer]))
    res.append(("nodes", [book.sig(n) for n in nodes]))
    res.append(("defaults", canon(ro.DEFAULT_OPTIONS)))
    res.append(("last", canon(ro.last([1, 2, 3])), attempt(ro.last, [])))
    n0 = Node(3.5, 2)
    n0.targetPos = 7
    v = ro.nodeToVariable(n0)
    v2 = attempt(ro.nodeToVariable, Node(1, 1))
    res.append(
        (
            "nodeToVariable",
            v.node is n0,
            canon(v.desiredPosition) if hasattr(v, "desiredPosition") else 0,
            v2[:2],
        )
    )
    return res


def run_force_case(mods, seed):
    force_mod = mods["labella.force"]
    metrics = mods["labella.metrics"]
    Node = mods["labella.node"].Node
    rng = random.Random(seed)
    book = NodeBook(Node)
    nodes = gen_nodes(mods, rng, book, nmax=30)
    opts = gen_layout_options(rng, True)
    res = []
    k = rng.random()
    if k < 0.15 and not opts:
        f = force_mod.Force()
    elif k < 0.5:
        f = force_mod.Force(dict(opts))
    elif k < 0.8:
        f = force_mod.Force(options=dict(opts))
    else:
        f = force_mod.Force()
        res.append(("set_options", f.set_options(dict(opts)) is None))
    if rng.random() < 0.1:
        res.append(("set_options-none", f.set_options() is None))
    res.append(("options", canon(f.options)))
    res.append(("dist-options", canon(f.distributor.options)))
    res.append(("nodes-empty", book.value(f.nodes())))
    res.append(("force-attr", canon(f.force)))
    r = f.nodes(nodes)
    res.append(("nodes-set", r is None, f.nodes() is nodes or not nodes))
    res.append(("layers-before", f.getLayers() is None))
    runs = rng.choice([1, 1, 1, 2])
    for _ in range(runs):
        c = attempt(f.compute)
        res.append(("compute", c[0], c[1:] if c[0] != "ok" else c[1] is None))
        layers = f.getLayers()
        res.append(("layers", book.layers(layers)))
        res.append(("layers-identity", layers is f.layers))
    res.append(("nodes", [book.sig(n) for n in nodes]))
    res.append(("nodes-get", book.value(f.nodes())))
    if f.layers is not None:
        names = [m for m in dir(metrics) if not m.startswith("_")]
        for name in names:
            res.append((name, cattempt(book.value, f.metric, name)))
        res.append(("metrics", cattempt(book.value, f.metrics)))
        res.append(("metric-bogus", cattempt(book.value, f.metric, "bogus")))
    res.append(("nodes-reset", book.value(f.nodes([])), book.layers(f.layers)))
    res.append(("defaults", canon(force_mod.DEFAULT_OPTIONS)))
    res.append(("options-after", canon(f.options)))
    res.append(("dist-options-after", canon(f.distributor.options)))
    return res


# --------------------------------------------------------------------------
# timelines
# --------------------------------------------------------------------------

WORDS = ["alpha", "beta", "gamma", "delta", "epsilon", "zeta", "eta", "x"]


def gen_timeline(rng):
    numeric = rng.random() < 0.5
    n = rng.randint(1, 25)
    items = []
    base = datetime.datetime(2000 + rng.randint(0, 20), rng.randint(1, 12), 1)
    for i in range(n):
        if numeric:
            t = rng.choice([rng.randint(0, 500), rng.uniform(0, 500)])
        else:
            t = base + datetime.timedelta(
                days=rng.randint(0, rng.choice([30, 400, 4000])),
                hours=rng.randint(0, 23),
            )
        d = {"time": t, "width": rng.choice([50, 30, rng.randint(10, 120)])}
        if rng.random() < 0.7:
            d["text"] = " ".join(
                rng.choice(WORDS) for _ in range(rng.randint(1, 3))
            )
        items.append(d)
    options = {
        "direction": rng.choice(["right", "left", "up", "down"]),
        "initialWidth": rng.choice([400, 600, 804, 1000]),
        "initialHeight": rng.choice([400, 300, 250, 800]),
    }
    if rng.random() < 0.5:
        options["layerGap"] = rng.choice([60, 40, 20])
    if rng.random() < 0.3:
        options["showTicks"] = False
    if rng.random() < 0.3:
        options["showBorder"] = True
    lab = {}
    if rng.random() < 0.6:
        lab["maxPos"] = rng.choice([None, 300, 764, 960, 500.5])
    if rng.random() < 0.3:
        lab["minPos"] = rng.choice([0, None, 10])
    if rng.random() < 0.4:
        lab["algorithm"] = rng.choice(["overlap", "simple", "none"])
    if rng.random() < 0.3:
        lab["density"] = rng.choice([0.5, 0.75, 0.85, 1])
    if rng.random() < 0.3:
        lab["nodeSpacing"] = rng.choice([3, 1, 6])
    if rng.random() < 0.2:
        lab["stubWidth"] = rng.choice([1, 2])
    if lab or rng.random() < 0.5:
        options["labella"] = lab
    return numeric, items, options


def run_timeline_case(mods, seed):
    tl = mods["labella.timeline"]
    scale = mods["labella.scale"]
    rng = random.Random(seed)
    numeric, items, options = gen_timeline(rng)
    res = []
    for cls_name in ("TimelineSVG", "TimelineTex"):
        cls = getattr(tl, cls_name)
        its = [dict(d) for d in items]
        opts = dict(options)
        if "labella" in opts:
            opts["labella"] = dict(opts["labella"])
        if numeric:
            opts["scale"] = scale.LinearScale()

        def go():
            t = cls(its, options=opts)
            out = t.export()
            return out

        r = attempt(go)
        if r[0] == "ok":
            out = r[1]
            if isinstance(out, bytes):
                out = out.decode("utf-8")
            r = ("ok", out)
        res.append((cls_name, r))
    return res


# --------------------------------------------------------------------------
# driver
# --------------------------------------------------------------------------

SUITES = [
    ("vpsc", run_vpsc_case, 3000),
    ("node", run_node_case, 1500),
    ("distributor", run_distributor_case, 1500),
    ("removeOverlap", run_remove_overlap_case, 1500),
    ("force", run_force_case, 1200),
    ("timeline", run_timeline_case, 300),
]


def edge_cases(mods):
    """Hand-written corner cases."""
    vpsc = mods["labella.vpsc"]
    Node = mods["labella.node"].Node
    dist = mods["labella.distributor"]
    ro = mods["labella.removeOverlap"]
    force_mod = mods["labella.force"]
    book = NodeBook(Node)
    res = []
    res.append(("vpsc-constants", vpsc_constants(mods)))
    # empty problem
    s = vpsc.Solver([], [])
    res.append(("empty-solve", cattempt(canon, s.solve)))
    res.append(("empty-cost", cattempt(canon, s.cost)))
    s2 = vpsc.Solver([], [])
    res.append(("cost-unsolved", cattempt(canon, s2.cost)))
    res.append(("starting", cattempt(canon, s2.setStartingPositions, [])))
    res.append(("mostViolated-empty", cattempt(canon, s2.mostViolated)))
    # one variable
    v = vpsc.Variable(5)
    s = vpsc.Solver([v], [])
    res.append(("one", cattempt(canon, s.solve), canon(v.position())))
    res.append(("one-repr", repr(v), str(v)))
    # unbound variable
    res.append(("unbound", cattempt(canon, vpsc.Variable(1).position)))
    # two equal variables with equality constraint
    a, b = vpsc.Variable(1.0), vpsc.Variable(1.0)
    c = vpsc.Constraint(a, b, 2, True)
    s = vpsc.Solver([a, b], [c])
    res.append(
        (
            "equality",
            cattempt(canon, s.solve),
            canon(a.position()),
            canon(b.position()),
            repr(c),
        )
    )
    # unsatisfiable cycle
    a, b = vpsc.Variable(0), vpsc.Variable(0)
    c1 = vpsc.Constraint(a, b, 1)
    c2 = vpsc.Constraint(b, a, 1)
    s = limited(vpsc.Solver([a, b], [c1, c2]))
    res.append(
        (
            "cycle",
            cattempt(canon, s.solve),
            c1.unsatisfiable,
            c2.unsatisfiable,
            canon(c1.slack()),
            canon(c2.slack()),
        )
    )
    # Blocks bookkeeping
    vs = [vpsc.Variable(i) for i in range(4)]
    bs = vpsc.Blocks(vs)
    old = bs._list
    first = bs._list[0]
    bs.remove(first)
    res.append(
        (
            "blocks-remove",
            old is bs._list,
            len(old),
            len(bs._list),
            [b.blockInd for b in bs._list],
            [b.blockInd for b in old],
        )
    )
    bs.insert(first)
    res.append(("blocks-insert", [b.blockInd for b in bs._list]))
    res.append(("blocks-remove-empty", cattempt(canon, vpsc.Blocks([]).remove, 1)))
    # nodes
    n = Node(1, None)
    res.append(("none-width", cattempt(canon, n.currentLeft)))
    res.append(("none-width", cattempt(canon, n.currentRight)))
    res.append(("none-width", cattempt(canon, n.idealLeft)))
    res.append(("none-width", cattempt(canon, n.idealRight)))
    res.append(("none-width", cattempt(canon, n.distanceFrom, n)))
    res.append(("none-width", cattempt(canon, n.overlapWithPoint, 1)))
    res.append(("none-width", cattempt(canon, n.positionBefore, Node(1, 2))))
    res.append(("none-width", cattempt(canon, Node(1, 2).positionAfter, n)))
    res.append(("str-width", cattempt(canon, Node(1, "a").currentLeft)))
    res.append(("str-pos", cattempt(canon, Node("a", 2).currentRight)))
    res.append(("str-pos", cattempt(canon, Node("a", 2).idealLeft)))
    m = Node(1, 2)
    del m.width
    res.append(("no-width", cattempt(canon, m.currentLeft)))
    res.append(("no-width", cattempt(canon, m.currentRight)))
    m = Node(1, 2)
    del m.currentPos
    res.append(("no-pos", cattempt(canon, m.currentLeft)))
    res.append(("no-pos", cattempt(canon, m.currentRight)))
    m = Node(1, 2)
    m.child = 0
    res.append(("isStub-falsy", m.isStub(), type(m.isStub()).__name__))
    m.child = [1]
    res.append(("isStub-truthy", m.isStub(), type(m.isStub()).__name__))

    class Weird(object):
        def __bool__(self):
            raise ValueError("no truth")

    m.child = Weird()
    res.append(("isStub-raises", cattempt(canon, m.isStub)))

    class Sized(object):
        def __len__(self):
            return 0

    m.child = Sized()
    res.append(("isStub-sized", cattempt(canon, m.isStub)))
    # distributor corner cases
    d = dist.Distributor()
    res.append(("dist-empty", cattempt(canon, d.distribute, [])))
    res.append(("dist-none", cattempt(canon, d.distribute, None)))
    res.append(("simple-empty", cattempt(canon, d.algorithm_simple, [])))
    res.append(("overlap-empty", cattempt(canon, d.algorithm_overlap, [])))
    res.append(("rr-empty", cattempt(canon, d.algorithm_roundRobin, [])))
    res.append(("width-empty", cattempt(canon, d.computeRequiredWidth, [])))
    res.append(("layers-empty", cattempt(canon, d.estimateRequiredLayers, [])))
    d.options["layerWidth"] = 0
    res.append(("layers-zero", cattempt(canon, d.estimateRequiredLayers, [])))
    d.options["layerWidth"] = 10
    d.options["density"] = 0
    res.append(
        ("density-zero", cattempt(canon, d.estimateRequiredLayers, [Node(1, 2)]))
    )
    res.append(("simple-zero", cattempt(canon, d.algorithm_simple, [Node(1, 2)])))
    d.options["density"] = "x"
    res.append(("density-str", cattempt(canon, d.algorithm_simple, [Node(1, 2)])))
    # removeOverlap corner cases
    res.append(("ro-empty", cattempt(canon, ro.removeOverlap, [], None)))
    res.append(("ro-empty-tuple", cattempt(canon, ro.removeOverlap, (), {})))
    res.append(("ro-none", cattempt(canon, ro.removeOverlap, None, None)))
    one = [Node(5, 10)]
    res.append(
        (
            "ro-one",
            attempt(ro.removeOverlap, one, {"minPos": None, "maxPos": None})[0],
            canon(one[0].currentPos),
        )
    )
    one = [Node(5, 10)]
    res.append(
        (
            "ro-one-walls",
            attempt(ro.removeOverlap, one, {"minPos": 0, "maxPos": 8})[0],
            canon(one[0].currentPos),
        )
    )
    two = [Node(5, 10), Node(7, 10)]
    res.append(
        (
            "ro-bad-option",
            status(attempt(ro.removeOverlap, two, {"nodeSpacing": "x"})),
        )
    )
    two = [Node(5, 10), Node(6, None)]
    res.append(("ro-none-width", status(attempt(ro.removeOverlap, two, None))))
    res.append(
        ("ro-bad-options", status(attempt(ro.removeOverlap, [Node(1, 1)], 5)))
    )
    # force corner cases
    f = force_mod.Force()
    res.append(("force-compute-empty", cattempt(canon, f.compute), f.layers))
    res.append(("force-metrics-empty", cattempt(book.value, f.metrics)))
    res.append(("force-nodes-none", f.nodes(None) == [], f.nodes(0) == []))
    res.append(("force-nodes-tuple", f.nodes((1,)), f.nodes(), f.layers))
    f = force_mod.Force()
    res.append(("force-metric-before", cattempt(book.value, f.metric, "overflow")))
    res.append(("force-bad-options", status(attempt(force_mod.Force, 5))))
    return res


def run_tree(path):
    mods = load(path)
    results = []
    try:
        results.append(("edge", 0, attempt(edge_cases, mods)))
        for name, fn, count in SUITES:
            for i in range(count):
                results.append((name, i, attempt(fn, mods, 7919 * i + 13)))
    finally:
        purge()
    return results


def first_difference(a, b, path=""):
    if type(a) != type(b):
        return "%s: %r != %r" % (path, a, b)
    if isinstance(a, (list, tuple)):
        if len(a) != len(b):
            for i, (x, y) in enumerate(zip(a, b)):
                if x != y:
                    return first_difference(x, y, "%s[%d]" % (path, i))
            return "%s: length %d != %d" % (path, len(a), len(b))
        for i, (x, y) in enumerate(zip(a, b)):
            if x != y:
                return first_difference(x, y, "%s[%d]" % (path, i))
        return None
    if a != b:
        return "%s: %r != %r" % (path, a, b)
    return None


def main(argv):
    if len(argv) != 3:
        print("usage: equiv.py <original-checkout> <refactored-checkout>")
        return 2
    sys.setrecursionlimit(3000)
    orig = run_tree(argv[1])
    new = run_tree(argv[2])
    if len(orig) != len(new):
        print("DIFFERENT: number of cases %d != %d" % (len(orig), len(new)))
        return 1
    for (n1, i1, r1), (n2, i2, r2) in zip(orig, new):
        if (n1, i1) != (n2, i2) or r1 != r2:
            print("DIFFERENT in %s case %d" % (n1, i1))
            print(first_difference(r1, r2, "result"))
            return 1
    # a harness-level failure (not a library exception) must not go unnoticed
    broken = [
        (n, i, r)
        for (n, i, r) in orig
        if r[0] != "ok"
    ]
    if broken:
        print("HARNESS ERROR in %s case %d: %r" % broken[0])
        return 1
    print("EQUIVALENT (%d cases)" % len(orig))
    return 0


if __name__ == "__main__":
    sys.exit(main(sys.argv))
