#!/usr/bin/env python
"""Differential equivalence test.

Usage: python equiv.py <original-checkout> <refactored-checkout>

Both trees are imported in-process (one after the other, purging
``sys.modules`` in between), the same deterministic battery of calls is run
against each, and the canonicalised outcomes (return value, exception type,
mutated arguments / receiver state) are compared one by one.
"""

import importlib
import os
import random
import sys
import types
from datetime import datetime, timedelta


def _purge():
    for key in [
        k for k in sys.modules if k == "labella" or k.startswith("labella.")
    ]:
        del sys.modules[key]


def load(root):
    root = os.path.abspath(root)
    _purge()
    sys.path.insert(0, root)
    try:
        scale = importlib.import_module("labella.scale")
        d3t = importlib.import_module("labella.d3_time")
    finally:
        sys.path.pop(0)
    for mod in (scale, d3t):
        assert os.path.abspath(mod.__file__).startswith(root + os.sep), (
            mod.__file__,
            root,
        )
    _purge()
    return types.SimpleNamespace(scale=scale, d3t=d3t, root=root)


class Canon(object):
    """Turn results into comparable, tree-independent plain data."""

    def __init__(self, ns):
        self.ns = ns
        self.names = {}
        for name, obj in ns.d3t.d3_time.items():
            if isinstance(obj, ns.d3t.d3_time_interval):
                self.names[id(obj)] = "interval:" + name
        self.names[id(ns.scale.d3_time_scaleMilliseconds)] = "interval:ms"

    def __call__(self, obj):
        ns = self.ns
        if id(obj) in self.names:
            return self.names[id(obj)]
        if obj is None or isinstance(obj, (bool, str)):
            return repr(obj)
        if isinstance(obj, (int, float)):
            return type(obj).__name__ + ":" + repr(obj)
        if isinstance(obj, (datetime, timedelta)):
            return type(obj).__name__ + ":" + repr(obj)
        if isinstance(obj, (list, tuple)):
            return [type(obj).__name__] + [self(x) for x in obj]
        if isinstance(obj, dict):
            return ["dict"] + [
                [self(k), self(v)] for k, v in sorted(obj.items(), key=repr)
            ]
        if isinstance(obj, types.GeneratorType):
            return ["generator"] + [self(x) for x in obj]
        if isinstance(obj, ns.scale.TimeScale):
            return [
                "TimeScale",
                self(obj._linear),
                "methods-default"
                if obj._methods is ns.scale.d3_time_scaleLocalMethods
                else self(obj._methods),
            ]
        if isinstance(obj, ns.scale.LinearScale):
            return [
                "LinearScale",
                self(obj._domain),
                self(obj._range),
                self(obj._clamp),
            ]
        if isinstance(obj, ns.d3t.d3_time_interval):
            return "interval:<anonymous>"
        if isinstance(obj, ns.scale.d3TimeScaleMilliseconds):
            return "interval:<anonymous ms>"
        if callable(obj):
            return "callable:" + getattr(obj, "__name__", type(obj).__name__)
        return "object:" + type(obj).__name__


def run_case(canon, thunk):
    try:
        return ["ok", canon(thunk())]
    except RecursionError:
        return ["exc", "RecursionError"]
    except Exception as err:  # noqa: BLE001 - we compare the type
        return ["exc", type(err).__name__]


def rand_dt(rng, lo_year=1900, hi_year=2100):
    lo = datetime(lo_year, 1, 1)
    hi = datetime(hi_year, 12, 31, 23, 59, 59)
    span = int((hi - lo).total_seconds())
    dt = lo + timedelta(seconds=rng.randrange(span))
    kind = rng.randrange(5)
    if kind == 0:
        return dt.replace(hour=0, minute=0, second=0)
    if kind == 1:
        return dt.replace(day=1, hour=0, minute=0, second=0)
    if kind == 2:
        return dt + timedelta(microseconds=rng.randrange(1000000))
    if kind == 3:
        return dt + timedelta(milliseconds=rng.randrange(1000))
    return dt


EDGE_DATES = [
    datetime(1970, 1, 1),
    datetime(1969, 12, 31, 23, 59, 59, 999000),
    datetime(2000, 2, 29),
    datetime(2016, 2, 29, 12),
    datetime(2011, 12, 31, 23, 59, 59),
    datetime(2012, 1, 1),
    datetime(2012, 1, 1, 0, 0, 0, 1),
    datetime(2012, 1, 1, 0, 0, 0, 1000),
    datetime(2015, 1, 31),
    datetime(2015, 3, 29, 2, 30),
    datetime(2017, 1, 1),  # a Sunday
    datetime(2017, 1, 7, 23, 59, 59, 999999),
    datetime(2018, 12, 30),
    datetime(1, 1, 1),
    datetime(1, 1, 2, 3, 4, 5),
    datetime(9999, 12, 31, 23, 59, 59),
    datetime(9999, 6, 15),
    datetime(1900, 1, 1),
]

INTERVAL_NAMES = ["second", "minute", "hour", "day", "week", "month", "year"]


def build_cases(ns):
    scale, d3t = ns.scale, ns.d3t
    d3_time = d3t.d3_time
    steps = list(scale.d3_time_scaleSteps)
    cases = []
    rng = random.Random(424242)

    # ------------------------------------------------------------------
    # TimeScale.tickMethod
    # ------------------------------------------------------------------
    targets = []
    for s in steps:
        targets.extend([s, s - 1, s + 1, s * 0.999999, s * 1.000001, s / 2.0])
    for a, b in zip(steps, steps[1:]):
        gm = (a * b) ** 0.5
        targets.extend([gm, gm * (1 - 1e-12), gm * (1 + 1e-12), (a + b) / 2.0])
    targets.extend([0.0, 1e-9, 0.5, 1.0, 999.0, 31536e6 * 5, 31536e6 * 1000,
                    1e20, -1.0, -5e6])
    for _ in range(60):
        targets.append(10 ** rng.uniform(-2, 14))

    def tm_case(extent_factory, count, methods="default"):
        def thunk():
            if methods == "default":
                ts = scale.TimeScale()
            elif methods == "names":
                ts = scale.TimeScale(methods=["m%d" % i for i in range(18)])
            else:
                ts = scale.TimeScale(methods=methods)
            extent = extent_factory()
            try:
                res = ts.tickMethod(extent, count)
            except Exception as err:  # noqa: BLE001
                return {"raised": type(err).__name__, "extent": extent}
            return {"ret": res, "extent": extent}

        return thunk

    n = 0
    for t in targets:
        for count in (10, 3):
            origin = rng.choice([0.0, 1.3e12, -2.2e12, 946684800000.0])
            lo, hi = origin, origin + t * count
            cases.append(
                ("tickMethod#%d target=%r count=%r" % (n, t, count),
                 tm_case(lambda lo=lo, hi=hi: [lo, hi], count))
            )
            n += 1
    odd_counts = [0, -4, 2.5, 1e-3, float("inf"), float("nan"), True, None,
                  "7", 10 ** 30]
    odd_extents = [
        lambda: [0, 0],
        lambda: [5.0, 5.0],
        lambda: [0, 86400000],  # ints
        lambda: (0.0, 3.6e6),  # tuple
        lambda: [9e11, 1e11],  # reversed -> negative span
        lambda: [0.0, 1e15, 7.0],  # three entries, year branch maps all
        lambda: [0.0, 1e15, "x"],  # year branch: TypeError inside the map
        lambda: [0.0, 40.0, "x"],  # ms branch
        lambda: [1.0],  # IndexError
        lambda: [],
        lambda: ["a", "b"],
        lambda: [datetime(2000, 1, 1), datetime(2001, 1, 1)],
        lambda: [float("nan"), 1.0],
        lambda: [0.0, float("inf")],
        lambda: None,
    ]
    for ei, ef in enumerate(odd_extents):
        for count in [10] + odd_counts:
            cases.append(
                ("tickMethod-odd extent=%d count=%r" % (ei, count),
                 tm_case(ef, count))
            )
    for t in (0.5, 2e3, 4e7, 1e9, 5e9, 1e13):
        for methods in ("names", [], [[d3_time["day"], 1]] * 5, None):
            cases.append(
                ("tickMethod-methods target=%r methods=%r"
                 % (t, methods if isinstance(methods, str) or methods is None
                    else len(methods)),
                 tm_case(lambda t=t: [0.0, t * 10], 10, methods))
            )

    # ------------------------------------------------------------------
    # TimeScale.domain (getter + setter), then invert / __call__
    # ------------------------------------------------------------------
    def dom_case(arg_factory):
        def thunk():
            ts = scale.TimeScale()
            ts.range([0, 500])
            before = ts.domain()
            arg = arg_factory()
            try:
                res = ts.domain(arg)
            except Exception as err:  # noqa: BLE001
                return {"raised": type(err).__name__, "before": before,
                        "scale": ts,
                        "arg": arg if isinstance(arg, (list, tuple)) else None}
            out = {"before": before, "ret_is_self": res is ts, "ret": res,
                   "scale": ts,
                   "arg": arg if isinstance(arg, (list, tuple)) else None,
                   "getter": ts.domain(),
                   "getter_fresh": ts.domain() is not ts.domain(),
                   "linear_domain": ts._linear.domain()}
            for probe in (datetime(2005, 6, 7, 8, 9, 10, 11), EDGE_DATES[0]):
                try:
                    out["call%r" % (probe,)] = ts(probe)
                except Exception as err:  # noqa: BLE001
                    out["call%r" % (probe,)] = type(err).__name__
            for y in (0, 250.5, -10, 1e6):
                try:
                    out["inv%r" % (y,)] = ts.invert(y)
                except Exception as err:  # noqa: BLE001
                    out["inv%r" % (y,)] = type(err).__name__
            return out

        return thunk

    dom_args = []
    for i in range(40):
        a, b = rand_dt(rng), rand_dt(rng)
        dom_args.append(lambda a=a, b=b: [a, b])
    for d in EDGE_DATES:
        dom_args.append(lambda d=d: [d, d])
        dom_args.append(lambda d=d: (d, datetime(2020, 2, 2)))
    dom_args.extend([
        lambda: [],
        lambda: [datetime(2000, 1, 1)],
        lambda: [datetime(2000, 1, 1), datetime(2001, 1, 1), datetime(2003, 1, 1)],
        lambda: iter([datetime(2000, 1, 1), datetime(2001, 1, 1)]),
        lambda: (d for d in [datetime(1999, 1, 1), datetime(1998, 1, 1)]),
        lambda: [1, 2],
        lambda: [datetime(2000, 1, 1), None],
        lambda: ["2000-01-01", "2001-01-01"],
        lambda: 5,
        lambda: "ab",
        lambda: [datetime(2000, 1, 1).date(), datetime(2001, 1, 1).date()],
        lambda: None,
    ])
    for i, af in enumerate(dom_args):
        cases.append(("domain#%d" % i, dom_case(af)))

    # getter on a scale whose linear part carries odd values
    def getter_case(values):
        def thunk():
            ts = scale.TimeScale(scale.LinearScale(domain=list(values)))
            return ts.domain()

        return thunk

    for i, values in enumerate([[0, 1], [0.0, 1e12], [-1e12, 5], [1e18, 2],
                                [None, 1], [], [1.5], ["a"], [0, 1, 2, 3]]):
        cases.append(("domain-getter#%d" % i, getter_case(values)))

    # ------------------------------------------------------------------
    # d3_bisect (used by tickMethod)
    # ------------------------------------------------------------------
    arrays = [[], [1], [1, 1, 1], [1, 2, 3, 4, 5], steps,
              [0.5, 0.5, 2.0, 2.0, 9.0], [-3, -1, 0, 4]]
    for ai, arr in enumerate(arrays):
        for x in (-10, 0, 0.5, 1, 1.5, 2, 3, 5, 9, 1e3, 6e4, 1e12,
                  float("nan")):
            cases.append(
                ("bisect arr=%d x=%r" % (ai, x),
                 lambda arr=arr, x=x: scale.d3_bisect(list(arr), x))
            )
        cases.append(
            ("bisect-lohi arr=%d" % ai,
             lambda arr=arr: [scale.d3_bisect(list(arr), 2, 1, 3),
                              scale.d3_bisect(list(arr), 2, 0, 0)])
        )
    return cases


def main(argv):
    if len(argv) != 3:
        print("usage: equiv.py <original-checkout> <refactored-checkout>")
        return 2
    outcomes = []
    for root in argv[1:3]:
        ns = load(root)
        canon = Canon(ns)
        results = []
        for label, thunk in build_cases(ns):
            results.append((label, run_case(canon, thunk)))
        outcomes.append(results)
    old, new = outcomes
    diffs = []
    if [l for l, _ in old] != [l for l, _ in new]:
        diffs.append("case lists differ (%d vs %d)" % (len(old), len(new)))
    else:
        for (label, a), (_, b) in zip(old, new):
            if a != b:
                diffs.append("%s\n    original:   %r\n    refactored: %r"
                             % (label, a, b))
    n_ok = sum(1 for _, r in old if r[0] == "ok")
    n_exc = len(old) - n_ok
    if len(old) < 200:
        diffs.append("too few cases: %d" % len(old))
    if diffs:
        print("DIFFERENT (%d of %d cases)" % (len(diffs), len(old)))
        for d in diffs[:40]:
            print("  " + d)
        return 1
    print("EQUIVALENT (%d cases: %d returned, %d raised)"
          % (len(old), n_ok, n_exc))
    return 0


if __name__ == "__main__":
    sys.exit(main(sys.argv))
