#!/usr/bin/env python
"""Differential equivalence test.

Usage: python equiv.py <original-checkout> <refactored-checkout>

Both trees are imported in-process (one after the other, purging
``sys.modules`` in between), the same deterministic battery of calls is run
against each, and the canonicalised outcomes (return value, exception type,
mutated arguments / receiver state) are compared one by one.
"""

import importlib
import os
import random
import sys
import types
from datetime import datetime, timedelta


def _purge():
    for key in [
        k for k in sys.modules if k == "labella" or k.startswith("labella.")
    ]:
        del sys.modules[key]


def load(root):
    root = os.path.abspath(root)
    _purge()
    sys.path.insert(0, root)
    try:
        scale = importlib.import_module("labella.scale")
        d3t = importlib.import_module("labella.d3_time")
    finally:
        sys.path.pop(0)
    for mod in (scale, d3t):
        assert os.path.abspath(mod.__file__).startswith(root + os.sep), (
            mod.__file__,
            root,
        )
    _purge()
    return types.SimpleNamespace(scale=scale, d3t=d3t, root=root)


class Canon(object):
    """Turn results into comparable, tree-independent plain data."""

    def __init__(self, ns):
        self.ns = ns
        self.names = {}
        for name, obj in ns.d3t.d3_time.items():
            if isinstance(obj, ns.d3t.d3_time_interval):
                self.names[id(obj)] = "interval:" + name
        self.names[id(ns.scale.d3_time_scaleMilliseconds)] = "interval:ms"

    def __call__(self, obj):
        ns = self.ns
        if id(obj) in self.names:
            return self.names[id(obj)]
        if obj is None or isinstance(obj, (bool, str)):
            return repr(obj)
        if isinstance(obj, (int, float)):
            return type(obj).__name__ + ":" + repr(obj)
        if isinstance(obj, (datetime, timedelta)):
            return type(obj).__name__ + ":" + repr(obj)
        if isinstance(obj, (list, tuple)):
            return [type(obj).__name__] + [self(x) for x in obj]
        if isinstance(obj, dict):
            return ["dict"] + [
                [self(k), self(v)] for k, v in sorted(obj.items(), key=repr)
            ]
        if isinstance(obj, types.GeneratorType):
            return ["generator"] + [self(x) for x in obj]
        if isinstance(obj, ns.scale.TimeScale):
            return [
                "TimeScale",
                self(obj._linear),
                "methods-default"
                if obj._methods is ns.scale.d3_time_scaleLocalMethods
                else self(obj._methods),
            ]
        if isinstance(obj, ns.scale.LinearScale):
            return [
                "LinearScale",
                self(obj._domain),
                self(obj._range),
                self(obj._clamp),
            ]
        if isinstance(obj, ns.d3t.d3_time_interval):
            return "interval:<anonymous>"
        if isinstance(obj, ns.scale.d3TimeScaleMilliseconds):
            return "interval:<anonymous ms>"
        if callable(obj):
            return "callable:" + getattr(obj, "__name__", type(obj).__name__)
        return "object:" + type(obj).__name__


def run_case(canon, thunk):
    try:
        return ["ok", canon(thunk())]
    except RecursionError:
        return ["exc", "RecursionError"]
    except Exception as err:  # noqa: BLE001 - we compare the type
        return ["exc", type(err).__name__]


def rand_dt(rng, lo_year=1900, hi_year=2100):
    lo = datetime(lo_year, 1, 1)
    hi = datetime(hi_year, 12, 31, 23, 59, 59)
    span = int((hi - lo).total_seconds())
    dt = lo + timedelta(seconds=rng.randrange(span))
    kind = rng.randrange(5)
    if kind == 0:
        return dt.replace(hour=0, minute=0, second=0)
    if kind == 1:
        return dt.replace(day=1, hour=0, minute=0, second=0)
    if kind == 2:
        return dt + timedelta(microseconds=rng.randrange(1000000))
    if kind == 3:
        return dt + timedelta(milliseconds=rng.randrange(1000))
    return dt


EDGE_DATES = [
    datetime(1970, 1, 1),
    datetime(1969, 12, 31, 23, 59, 59, 999000),
    datetime(2000, 2, 29),
    datetime(2016, 2, 29, 12),
    datetime(2011, 12, 31, 23, 59, 59),
    datetime(2012, 1, 1),
    datetime(2012, 1, 1, 0, 0, 0, 1),
    datetime(2012, 1, 1, 0, 0, 0, 1000),
    datetime(2015, 1, 31),
    datetime(2015, 3, 29, 2, 30),
    datetime(2017, 1, 1),  # a Sunday
    datetime(2017, 1, 7, 23, 59, 59, 999999),
    datetime(2018, 12, 30),
    datetime(1, 1, 1),
    datetime(1, 1, 2, 3, 4, 5),
    datetime(9999, 12, 31, 23, 59, 59),
    datetime(9999, 6, 15),
    datetime(1900, 1, 1),
]

INTERVAL_NAMES = ["second", "minute", "hour", "day", "week", "month", "year"]


def build_cases(ns):
    d3t = ns.d3t
    d3_time = d3t.d3_time
    cases = []
    rng = random.Random(55555)
    dates = list(EDGE_DATES) + [rand_dt(rng, 1800, 2200) for _ in range(40)]

    def guarded(fn):
        def thunk():
            try:
                return {"ret": fn()}
            except Exception as err:  # noqa: BLE001
                return {"raised": type(err).__name__}

        return thunk

    # ---- week / day helpers, exhaustively over whole years ---------------
    # 1995..2024 covers all 14 calendar shapes (Jan 1st weekday x leap)
    for year in list(range(1995, 2025)) + [1, 2, 1600, 1900, 9998, 9999]:
        def whole_year(year=year):
            out = []
            d = datetime(year, 1, 1, 13, 14, 15, 161718)
            while d.year == year:
                out.append([
                    d3t.d3_time_week_local(d),
                    d3t.d3_time_week_number(d),
                    d3t.day_of_year(d),
                    d3_time["dayOfYear"](d),
                    d3_time["week"].floor(d),
                    d3_time["week"]._number(d),
                ])
                try:
                    d = d + timedelta(days=1)
                except OverflowError:
                    break
            return out
        cases.append(("whole-year %d" % year, guarded(whole_year)))

    for date in dates:
        cases.append(("week_local %r" % (date,),
                      guarded(lambda date=date: d3t.d3_time_week_local(date))))
        cases.append(("week_number %r" % (date,),
                      guarded(lambda date=date: d3t.d3_time_week_number(date))))
        cases.append(("dayOfYear %r" % (date,),
                      guarded(lambda date=date: [d3_time["dayOfYear"](date),
                                                 d3t.day_of_year(date)])))
    bad_dates = [None, 5, "2012-01-01", datetime(2012, 3, 4).date(),
                 datetime(2017, 1, 1).date(), 3.5, [], timedelta(days=1)]
    for bad in bad_dates:
        for fname in ("d3_time_week_local", "d3_time_week_number",
                      "day_of_year", "d3_time_month_local",
                      "d3_time_year_local", "d3_time_hour_local"):
            cases.append(
                ("%s bad=%r" % (fname, bad),
                 guarded(lambda fname=fname, bad=bad: getattr(d3t, fname)(bad)))
            )
        cases.append(("dayOfYear bad=%r" % (bad,),
                      guarded(lambda bad=bad: d3_time["dayOfYear"](bad))))

    # ---- d3_time_month_offset / d3_time_day_offset -------------------------
    offsets = [0, 1, 2, 3, 11, 12, 13, 24, 25, 37, 120, -1, -5, -12, 1.0,
               2.5, True, None, "1", 12 * 8000]
    for di, date in enumerate(dates):
        for j in range(4):
            off = offsets[(di * 4 + j) % len(offsets)]
            cases.append(
                ("month_offset %r %r" % (date, off),
                 guarded(lambda date=date, off=off:
                         d3t.d3_time_month_offset(date, off)))
            )
            cases.append(
                ("day_offset %r %r" % (date, off),
                 guarded(lambda date=date, off=off:
                         d3t.d3_time_day_offset(date, off)))
            )
    # every month x small offsets, incl. end-of-month days and Feb 29
    for month in range(1, 13):
        for day in (1, 28, 29, 30, 31):
            try:
                d = datetime(2016, month, day, 6)
            except ValueError:
                continue
            for off in (0, 1, 2, 11, 12, 13, 14, 48):
                cases.append(
                    ("month_offset-grid %d-%d +%d" % (month, day, off),
                     guarded(lambda d=d, off=off:
                             d3t.d3_time_month_offset(d, off)))
                )
    for bad in bad_dates:
        cases.append(("month_offset bad=%r" % (bad,),
                      guarded(lambda bad=bad: d3t.d3_time_month_offset(bad, 1))))
        cases.append(("day_offset bad=%r" % (bad,),
                      guarded(lambda bad=bad: d3t.d3_time_day_offset(bad, 1))))

    # ---- the registry entries themselves (what used to be lambdas) --------
    for name in ("hour", "day", "week", "month", "year"):
        iv = d3_time[name]
        for di, date in enumerate(dates):
            off = offsets[(di + 1) % len(offsets)]
            def probe(iv=iv, date=date, off=off):
                out = {}
                for key, fn in (
                    ("local", lambda: iv._local(date)),
                    ("step", lambda: iv._step(date, off)),
                    ("number", lambda: iv._number(date)),
                    ("floor", lambda: iv.floor(date)),
                    ("ceil", lambda: iv.ceil(date)),
                    ("round", lambda: iv.round(date)),
                    ("offset", lambda: iv.offset(date, off)),
                    ("call", lambda: iv(date)),
                ):
                    try:
                        out[key] = fn()
                    except Exception as err:  # noqa: BLE001
                        out[key] = "raised " + type(err).__name__
                return out
            cases.append(("registry %s %r off=%r" % (name, date, off), probe))
        for bad in bad_dates:
            cases.append(
                ("registry-bad %s %r" % (name, bad),
                 guarded(lambda iv=iv, bad=bad: [iv.floor(bad)]))
            )
            cases.append(
                ("registry-bad-step %s %r" % (name, bad),
                 guarded(lambda iv=iv, bad=bad: [iv.offset(bad, 1)]))
            )

    # ranges that go through the week number / month offset / day offset
    starts = dates[18:40]
    for di, t0 in enumerate(starts):
        for name, unit, mults in (
            ("week", timedelta(days=7), (5, 30)),
            ("month", timedelta(days=31), (4, 30)),
            ("day", timedelta(days=1), (3, 45)),
            ("year", timedelta(days=366), (3, 12)),
            ("hour", timedelta(hours=1), (5, 50)),
        ):
            for mult in mults:
                dt = [1, 2, 3, 4][(di + mult) % 4]
                cases.append(
                    ("range %s %r x%d dt=%d" % (name, t0, mult, dt),
                     guarded(lambda name=name, t0=t0, unit=unit, mult=mult,
                             dt=dt: d3_time[name].range(t0, t0 + unit * mult,
                                                        dt)))
                )
                cases.append(
                    ("range-alias %s %r x%d dt=%d" % (name, t0, mult, dt),
                     guarded(lambda name=name, t0=t0, unit=unit, mult=mult,
                             dt=dt: d3_time[name + "s"](t0, t0 + unit * mult,
                                                        dt)))
                )

    # keys of the registry are unchanged
    cases.append(("registry-keys", lambda: sorted(d3_time.keys())))
    cases.append(("registry-types",
                  lambda: [[k, type(v).__name__] for k, v in
                           sorted(d3_time.items())]))
    return cases


def main(argv):
    if len(argv) != 3:
        print("usage: equiv.py <original-checkout> <refactored-checkout>")
        return 2
    outcomes = []
    for root in argv[1:3]:
        ns = load(root)
        canon = Canon(ns)
        results = []
        for label, thunk in build_cases(ns):
            results.append((label, run_case(canon, thunk)))
        outcomes.append(results)
    old, new = outcomes
    diffs = []
    if [l for l, _ in old] != [l for l, _ in new]:
        diffs.append("case lists differ (%d vs %d)" % (len(old), len(new)))
    else:
        for (label, a), (_, b) in zip(old, new):
            if a != b:
                diffs.append("%s\n    original:   %r\n    refactored: %r"
                             % (label, a, b))
    n_ok = sum(1 for _, r in old if r[0] == "ok")
    n_exc = len(old) - n_ok
    if len(old) < 200:
        diffs.append("too few cases: %d" % len(old))
    if diffs:
        print("DIFFERENT (%d of %d cases)" % (len(diffs), len(old)))
        for d in diffs[:40]:
            print("  " + d)
        return 1
    print("EQUIVALENT (%d cases: %d returned, %d raised)"
          % (len(old), n_ok, n_exc))
    return 0


if __name__ == "__main__":
    sys.exit(main(sys.argv))
