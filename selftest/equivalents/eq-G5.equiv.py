#!/usr/bin/env python
"""Differential equivalence test (see meta.json for the refactoring).

Usage: python equiv.py <original-checkout> <refactored-checkout>
"""
import datetime
import importlib
import math
import sys
import types


def load_tree(path):
    """Import the labella package found in `path`; return {modname: module}.

    The package uses absolute imports, so both trees are imported under the
    real name one after the other and sys.modules is purged in between.
    """
    def purge():
        for k in list(sys.modules):
            if k == "labella" or k.startswith("labella."):
                del sys.modules[k]

    purge()
    sys.path.insert(0, path)
    try:
        importlib.invalidate_caches()
        for name in ("labella.utils", "labella.tex", "labella.timeline",
                     "labella.scale", "labella.node"):
            importlib.import_module(name)
        mods = {k: v for k, v in sys.modules.items()
                if k == "labella" or k.startswith("labella.")}
    finally:
        sys.path.remove(path)
        purge()
    for m in mods.values():
        f = getattr(m, "__file__", None)
        assert f is None or f.startswith(path.rstrip("/") + "/"), (f, path)
    return mods


def canon(x, depth=0):
    """Turn a value into a comparable, tree-independent structure."""
    if depth > 8:
        return "<deep>"
    if isinstance(x, bool) or x is None or isinstance(x, (int, str, bytes)):
        return (type(x).__name__, x)
    if isinstance(x, float):
        return ("float", "nan" if math.isnan(x) else x.hex())
    if isinstance(x, (datetime.datetime, datetime.date, datetime.time)):
        return (type(x).__name__, x.isoformat())
    if isinstance(x, tuple):
        return ("tuple", [canon(v, depth + 1) for v in x])
    if isinstance(x, list):
        return ("list", [canon(v, depth + 1) for v in x])
    if isinstance(x, (dict, types.MappingProxyType)):
        return ("dict", [(canon(k, depth + 1), canon(v, depth + 1))
                         for k, v in x.items()])
    if isinstance(x, BaseException):
        return ("EXC", type(x).__name__, str(x))
    name = type(x).__name__
    if name in ("Item", "Node", "LinearScale", "TimeScale", "Renderer"):
        d = {}
        for k, v in vars(x).items():
            if isinstance(v, (types.FunctionType, types.BuiltinFunctionType,
                              types.MethodType)):
                continue
            if name == "Node" and k in ("parent", "child", "overlap"):
                # avoid cycles through the stub links
                v = None if v is None else "<node>"
            d[k] = v
        return (name, canon(d, depth + 1))
    if callable(x):
        return ("callable", getattr(x, "__name__", "?"))
    return ("obj", name)


def attempt(fn, *args, **kwargs):
    try:
        return ("OK", canon(fn(*args, **kwargs)))
    except Exception as e:  # noqa
        return canon(e)


def compare(res_a, res_b):
    ok = True
    if len(res_a) != len(res_b):
        print("DIFFERENT: number of results %d vs %d" % (len(res_a), len(res_b)))
        return False
    ndiff = 0
    for (la, ra), (lb, rb) in zip(res_a, res_b):
        if la != lb or ra != rb:
            ok = False
            ndiff += 1
            if ndiff <= 20:
                print("DIFFERENT at %s\n   original : %r\n   refactored: %r"
                      % (la, ra, rb))
    return ok



import copy

DIRECTIONS = ["right", "left", "up", "down"]
COLOR_KEYS = ["dotColor", "labelBgColor", "labelTextColor", "linkColor",
              "borderColor"]
PALETTE = ["#1f77b4", "#aec7e8", "#ff7f0e", "#fff", "#222", "#2ca02c", "abc",
           "98DF8A"]


class LCG(object):
    def __init__(self, seed):
        self.state = seed

    def next(self, n):
        self.state = (self.state * 6364136223846793005
                      + 1442695040888963407) % 2 ** 64
        return (self.state >> 33) % n


def install_fakes(mods, log):
    """Replace the LaTeX based text measurement by a deterministic fake."""
    tl = mods["labella.timeline"]

    def fake_text_dimensions(text, fontsize="11pt", preamble="", silent=True,
                             latexmk_options=None):
        log.append(("text_dimensions", canon(text), canon(fontsize),
                    canon(preamble), canon(latexmk_options)))
        return (len(text) * 5.3 + 1.7 + (2.5 if fontsize == "12pt" else 0.0),
                7.25 + (len(text) % 3))

    tl.text_dimensions = fake_text_dimensions


def make_time(kind, rng, k):
    base = datetime.datetime(2015, 3, 1, 8, 30)
    # few distinct values -> ties are frequent
    off = rng.next(6) * 37 + (0 if rng.next(3) else k)
    if kind == "datetime":
        return base + datetime.timedelta(days=off, hours=rng.next(3))
    if kind == "date":
        return (base + datetime.timedelta(days=off)).date()
    if kind == "time":
        return datetime.time(rng.next(24), rng.next(4) * 15)
    if kind == "mixed":
        sub = ("datetime", "date", "datetime", "date", "time")[rng.next(5)]
        return make_time(sub, rng, k)
    if kind == "float":
        return float(off) * 1.25 - 40.0
    if kind == "int":
        return off - 50
    raise AssertionError(kind)


def make_dicts(rng, kind, n):
    dicts = []
    for k in range(n):
        d = {"time": make_time(kind, rng, k)}
        r = rng.next(8)
        if r == 0:
            d["text"] = "label %d" % k
        elif r == 1:
            d["text"] = "x" * (1 + rng.next(12))
            d["width"] = 10 + rng.next(60)
        elif r == 2:
            d["text"] = ""
        elif r == 3:
            d["width"] = 5 + rng.next(80)
        elif r == 4:
            d["text"] = "é" * (1 + rng.next(4))
            d["width"] = None
        elif r == 5:
            d["text"] = None
            d["width"] = 12.5
        elif r == 6 and rng.next(8) == 0:
            d["width"] = None  # unmeasurable item: later arithmetic fails
        d["extra"] = [k]
        dicts.append(d)
    return dicts


def make_options(rng, mods, kind, scen):
    scale_mod = mods["labella.scale"]
    choice = scen % 12
    if choice == 0:
        opts = None
    elif choice == 1:
        opts = {}
    else:
        opts = {"direction": DIRECTIONS[rng.next(4)]}
        if rng.next(2):
            opts["latex"] = {"fontsize": ["9pt", "12pt", "11pt"][rng.next(3)],
                             "preamble": ["", "\\usepackage{x}"][rng.next(2)]}
            if rng.next(2):
                opts["latex"]["latexmkOptions"] = ["--xelatex"]
                opts["latex"]["tickCross"] = True
        if rng.next(2):
            opts["margin"] = {"left": rng.next(40), "right": rng.next(40),
                              "top": rng.next(40) + 0.5, "bottom": rng.next(40)}
        if rng.next(2):
            opts["labelPadding"] = {"left": rng.next(5), "right": rng.next(5),
                                    "top": rng.next(5), "bottom": 1.5}
        if rng.next(2):
            opts["initialWidth"] = 300 + rng.next(500)
            opts["initialHeight"] = 200.5 + rng.next(500)
        if rng.next(3) == 0:
            opts["showBorder"] = True
        if rng.next(3) == 0:
            opts["showTicks"] = False
        if rng.next(3) == 0:
            opts["layerGap"] = 20 + rng.next(60)
        if rng.next(3) == 0:
            opts["labella"] = {"maxPos": 600, "algorithm": "overlap"}
        for key in COLOR_KEYS:
            r = rng.next(5)
            if r == 0:
                opts[key] = [PALETTE[rng.next(len(PALETTE))]
                             for _ in range(1 + rng.next(4))]
            elif r == 1:
                col = PALETTE[rng.next(len(PALETTE))]
                opts[key] = (lambda c: (lambda d: c if len(d) % 2 else "#0f0"))(col)
            elif r == 2:
                opts[key] = PALETTE[rng.next(len(PALETTE))]
        r = rng.next(4)
        if r == 0:
            opts["textFn"] = None
        elif r == 1:
            opts["textFn"] = lambda d: (d.get("text") or "")[:5]
        if rng.next(4) == 0:
            opts["timeFn"] = lambda d: d["time"]
    if kind in ("float", "int"):
        if opts is None:
            opts = {}
        opts["scale"] = scale_mod.LinearScale()
        if scen % 5 == 0:
            opts["domain"] = [-100, 300.5]
    elif opts is not None and scen % 7 == 0 and kind in ("datetime", "date"):
        opts["domain"] = [datetime.datetime(2015, 1, 1),
                          datetime.datetime(2016, 6, 1)]
    elif opts is not None and scen % 7 == 1:
        opts["scale"] = scale_mod.TimeScale()
    return opts


def scale_state(scale):
    return [attempt(scale.domain), attempt(scale.range)]


def timeline_state(tl):
    out = []
    for name in ("items", "direction", "nodes", "renderer"):
        out.append((name, canon(getattr(tl, name, "<unset>"))))
    out.append(("options", canon(getattr(tl, "options", "<unset>"))))
    opts = getattr(tl, "options", None)
    if isinstance(opts, dict) and opts.get("scale") is not None:
        out.append(("scale", scale_state(opts["scale"])))
    return out


class MyDate(datetime.date):
    pass


class MyDateTime(datetime.datetime):
    pass


class FakeNode(object):
    def __init__(self, x, y, dx, dy, w, h):
        self.x, self.y, self.dx, self.dy, self.w, self.h = x, y, dx, dy, w, h


def exercise(mods, tl, res, label, rng):
    """Call the methods of interest on a constructed timeline."""
    tmod = mods["labella.timeline"]
    res.append((label + " getInnerDims", attempt(tl.getInnerDims)))
    res.append((label + " get_nodes", attempt(tl.get_nodes)))
    res.append((label + " get_nodes again", attempt(tl.get_nodes)))
    nodes = None
    try:
        nodes, renderer = tl.compute()
        res.append((label + " compute", ("OK", canon(nodes), canon(renderer))))
    except Exception as e:  # noqa
        res.append((label + " compute", canon(e)))
    if nodes:
        saved = tl.direction
        for direc in DIRECTIONS + ["diagonal", None, "Right", 3]:
            tl.direction = direc
            for k, nd in enumerate(nodes):
                res.append(("%s nodePos[%r][%d]" % (label, direc, k),
                            attempt(tl.nodePos, nd, 10 + k)))
        tl.direction = saved
    for key in COLOR_KEYS:
        for i in range(0, 7):
            d = {"time": i, "text": "t" * i}
            res.append(("%s colorFunc(%s,%d)" % (label, key, i),
                        attempt(tl.colorFunc, key, d, i)))
            res.append(("%s %s(%d)" % (label, key, i),
                        attempt(getattr(tl, key), d, i=i)))
        res.append(("%s colorFunc(%s) default i" % (label, key),
                    attempt(tl.colorFunc, key, {"a": 1})))
    if hasattr(tl, "export"):
        res.append((label + " export", attempt(tl.export)))
        res.append((label + " export again", attempt(tl.export)))
    res.append((label + " state", timeline_state(tl)))
    res.append((label + " DEFAULT_OPTIONS", canon(tmod.DEFAULT_OPTIONS)))


def scenario(mods, scen, res, log):
    tmod = mods["labella.timeline"]
    rng = LCG(1000 + scen)
    kinds = ["datetime", "date", "float", "mixed", "datetime", "int", "time",
             "datetime", "date"]
    kind = kinds[scen % len(kinds)]
    n = (1, 2, 3, 5, 8, 4, 1, 6, 7, 0)[scen % 10]
    cls = (tmod.TimelineSVG, tmod.TimelineTex, tmod.Timeline)[scen % 3]
    dicts = make_dicts(rng, kind, n)
    opts = make_options(rng, mods, kind, scen)
    label = "S%03d[%s,%s,n=%d]" % (scen, cls.__name__, kind, n)
    del log[:]
    try:
        if scen % 12 == 0 and cls is not tmod.Timeline:
            tl = cls(dicts)
        elif cls is tmod.Timeline:
            tl = cls(dicts, opts, ["svg", "tex"][scen % 2]) if scen % 4 \
                else cls(dicts, options=opts)
        else:
            tl = cls(dicts, options=opts)
        res.append((label + " init", "OK"))
    except Exception as e:  # noqa
        res.append((label + " init", canon(e)))
        tl = None
    # caller-visible mutation of the arguments
    res.append((label + " dicts-after", canon(dicts)))
    res.append((label + " options-after", canon(opts)))
    res.append((label + " text_dimensions calls", list(log)))
    if opts and opts.get("scale") is not None:
        res.append((label + " caller scale", scale_state(opts["scale"])))
    res.append((label + " DEFAULT scale",
                scale_state(tmod.DEFAULT_OPTIONS["scale"])))
    if tl is None:
        return
    res.append((label + " state0", timeline_state(tl)))
    exercise(mods, tl, res, label, rng)

    # direct calls of the helpers on the constructed object
    more = make_dicts(rng, kind, 1 + scen % 4)
    before = copy.deepcopy(more)
    for mode in ("svg", "tex", "other"):
        res.append(("%s parse_items(%s)" % (label, mode),
                    attempt(tl.parse_items, more, output_mode=mode)))
    res.append((label + " parse_items()", attempt(tl.parse_items, more)))
    res.append((label + " parse_items dicts", (canon(before), canon(more))))
    res.append((label + " parse_items([])", attempt(tl.parse_items, [])))
    res.append((label + " parse_items(iter)", attempt(tl.parse_items, iter(more))))
    bad = [[{"text": "no time"}], [{"time": None}], [{"time": "2015"}],
           [{"time": 3, "text": 5}], [None], None, [[]], 5,
           [{"time": datetime.date(2020, 2, 29), "text": "", "width": 0}],
           [{"time": datetime.time(1, 2), "width": None, "text": "w"}],
           ({"time": datetime.datetime(2020, 1, 1)},),
           [{"time": MyDate(2021, 5, 6), "text": "sub"}],
           [{"time": MyDateTime(2021, 5, 6, 7), "width": 3}],
           [types.MappingProxyType({"time": datetime.datetime(2020, 1, 1)})],
           [types.MappingProxyType({"time": datetime.date(2020, 1, 1)})],
           [types.MappingProxyType({"time": datetime.time(3, 4)})],
           [types.MappingProxyType({"time": 1.5, "text": "ro", "width": 4})],
           [{"time": datetime.date(2020, 1, 1)}, {"time": "x"}, {}],
           [{"time": datetime.datetime(2020, 1, 1, tzinfo=datetime.timezone.utc)}],
           [{"time": datetime.time(3, 4, tzinfo=datetime.timezone.utc)}]]
    for k, b in enumerate(bad):
        res.append(("%s parse_items bad%d" % (label, k),
                    attempt(tl.parse_items, b)))
        res.append(("%s parse_items bad%d after" % (label, k), canon(b)))
    res.append((label + " init_axis(dicts)", attempt(tl.init_axis, dicts)))
    res.append((label + " scale after init_axis",
                scale_state(tl.options["scale"])))
    res.append((label + " init_axis(more)", attempt(tl.init_axis, more)))
    res.append((label + " scale after init_axis(more)",
                scale_state(tl.options["scale"])))
    res.append((label + " init_axis([])", attempt(tl.init_axis, [])))
    for direc in DIRECTIONS + ["sideways"]:
        tl.options["direction"] = direc
        res.append(("%s init_axis dir=%s" % (label, direc),
                    attempt(tl.init_axis, dicts)))
        res.append(("%s scale dir=%s" % (label, direc),
                    scale_state(tl.options["scale"])))
        res.append(("%s get_nodes dir=%s" % (label, direc),
                    attempt(tl.get_nodes)))
        tl.direction = direc
        res.append(("%s compute dir=%s" % (label, direc),
                    attempt(tl.compute)))
    # degraded states: every lookup that the methods perform can fail
    for key in ("domain", "labelPadding", "margin", "initialWidth",
                "initialHeight", "direction", "layerGap", "labella", "timeFn",
                "scale", "dotColor"):
        saved = dict(tl.options)
        saved_sub = copy.copy(tl.options.get(key))
        if scen % 2 and isinstance(tl.options.get(key), dict) and tl.options[key]:
            sub = dict(tl.options[key])
            sub.pop(sorted(sub)[scen % len(sub)])
            tl.options[key] = sub
        elif scen % 3 == 0:
            tl.options[key] = None
        else:
            del tl.options[key]
        for meth, args in (("getInnerDims", ()), ("get_nodes", ()),
                           ("compute", ()), ("init_axis", (dicts,)),
                           ("colorFunc", ("dotColor", {}, 1)),
                           ("parse_items", (more,))):
            res.append(("%s without %s: %s" % (label, key, meth),
                        attempt(getattr(tl, meth), *args)))
        tl.options.clear()
        tl.options.update(saved)
        tl.options[key] = saved_sub
    saved_items = tl.items
    tl.items = []
    res.append((label + " no items get_nodes", attempt(tl.get_nodes)))
    res.append((label + " no items compute", attempt(tl.compute)))
    tl.items = saved_items
    tl.options["dotColor"] = []
    res.append((label + " empty colour list", attempt(tl.colorFunc, "dotColor", {}, 2)))
    tl.options["dotColor"] = ("#111", "#222")
    res.append((label + " tuple colour", attempt(tl.colorFunc, "dotColor", {}, 1)))
    tl.options["dotColor"] = ["#111", "#222", "#333"]
    for i in (-4, -1, 0, 2, 3, 7, 2.5, None, "1"):
        res.append(("%s colour index %r" % (label, i),
                    attempt(tl.colorFunc, "dotColor", {}, i)))
    res.append((label + " unknown colour", attempt(tl.colorFunc, "nope", {})))
    res.append((label + " final state", timeline_state(tl)))


def run_extra(mods, res):
    """Direct unit level calls that do not need a full scenario."""
    tmod = mods["labella.timeline"]
    log = []
    install_fakes(mods, log)
    # Item: every branch of the constructor / get_text_dimensions
    k = 0
    for width in (None, 0, 50, 12.5):
        for text in (None, "", "a", "hello world"):
            for mode in ("svg", "tex", "pdf"):
                for kw in ({}, {"tex_fontsize": "9pt", "tex_preamble": "P",
                                "latexmk_options": ["-x"]}):
                    del log[:]
                    k += 1
                    res.append(("Item#%d" % k, attempt(
                        tmod.Item, k, width=width, text=text, data={"k": k},
                        output_mode=mode, **kw)))
                    res.append(("Item#%d calls" % k, list(log)))
    it = tmod.Item(1, text="abc", data=[1])
    res.append(("Item str", (str(it), repr(it))))
    res.append(("Item positional", attempt(tmod.Item, 1, 2, "t", {}, "svg")))
    res.append(("Item no args", attempt(tmod.Item)))
    # nodePos on synthetic nodes: negative values, ties, zero, None
    tl = tmod.Timeline([{"time": datetime.datetime(2020, 1, 1)}])
    vals = [0, 1, -1, 2.5, -7.25, 1e9, 3, None]
    rng = LCG(77)
    for k in range(120):
        nd = FakeNode(*[vals[rng.next(len(vals))] for _ in range(6)])
        for direc in DIRECTIONS + ["none"]:
            tl.direction = direc
            res.append(("nodePos synth %d %s" % (k, direc),
                        attempt(tl.nodePos, nd, k)))
    res.append(("nodePos bad node", attempt(tl.nodePos, object(), 1)))
    # constructor argument handling
    for k, (dicts, opts) in enumerate([
            ([], None), (None, None), ([{}], None), ([{"time": 1}], None),
            ([{"time": datetime.datetime(2020, 1, 1)}], {"latex": None}),
            ([{"time": datetime.datetime(2020, 1, 1)}], {"latex": {"x": 1}}),
            ([{"time": datetime.datetime(2020, 1, 1)}], {"labella": None}),
            ([{"time": datetime.datetime(2020, 1, 1)}], {"labella": {"a": 1}}),
            ([{"time": datetime.datetime(2020, 1, 1)}], {"scale": None}),
            ([{"time": datetime.datetime(2020, 1, 1)}], {"direction": "zig"}),
            ([{"time": datetime.datetime(2020, 1, 1)}], []),
            ([{"time": datetime.datetime(2020, 1, 1)}], "opts"),
            ([{"time": datetime.datetime(2020, 1, 1)}], {"margin": {}}),
            ([{"time": datetime.date(2020, 1, 1)},
              {"time": datetime.date(2020, 1, 1)}], {"domain": []}),
    ]):
        for cls in (tmod.Timeline, tmod.TimelineSVG, tmod.TimelineTex):
            label = "ctor%d %s" % (k, cls.__name__)
            try:
                obj = cls(dicts, opts)
                res.append((label, ("OK", timeline_state(obj))))
                res.append((label + " compute", attempt(obj.compute)))
            except Exception as e:  # noqa
                res.append((label, canon(e)))
            res.append((label + " args", (canon(dicts), canon(opts))))
    # the same options dict reused for two timelines
    shared = {"direction": "up", "latex": {"fontsize": "10pt"}}
    a = tmod.TimelineTex([{"time": datetime.datetime(2020, 1, 1), "text": "a"}], shared)
    b = tmod.TimelineSVG([{"time": datetime.datetime(2021, 1, 1), "text": "bb"}], shared)
    res.append(("shared options", (canon(shared), timeline_state(a),
                                   timeline_state(b))))
    res.append(("shared export", (attempt(a.export), attempt(b.export))))


def run(mods):
    res = []
    log = []
    install_fakes(mods, log)
    try:
        for scen in range(NUM_SCENARIOS):
            scenario(mods, scen, res, log)
        run_extra(mods, res)
    except Exception as e:  # noqa - a crash of the driver is a difference
        import traceback
        res.append(("DRIVER CRASH", traceback.format_exc()))
    return res


NUM_SCENARIOS = 252


if __name__ == "__main__":
    # datetime.time inputs are combined with date.today(); if the date
    # changes between the two runs just try again.
    today = datetime.date.today()
    if len(sys.argv) != 3:
        print(__doc__)
        sys.exit(2)
    for _ in range(2):
        orig = run(load_tree(sys.argv[1]))
        new = run(load_tree(sys.argv[2]))
        if datetime.date.today() == today:
            break
        today = datetime.date.today()
    if compare(orig, new):
        print("EQUIVALENT (%d cases)" % len(orig))
        sys.exit(0)
    print("DIFFERENT")
    sys.exit(1)
