#!/usr/bin/env python
"""Differential test for behaviour-preserving rewrites in labella/scale.py and
labella/d3_time.py.

Usage: python equiv.py <original-checkout> <refactored-checkout>

Imports the ``labella`` package from each checkout in turn, runs the public
behaviour of LinearScale, TimeScale, every calendar interval in
``d3_time.d3_time`` and the module level helpers on several thousand seeded
random and edge-case inputs and compares the outcomes exactly (floats through
``float.hex``, exceptions by type and message, object state after each call).
"""

import collections
import itertools
import os
import random
import sys
import types

from datetime import date as date_cls
from datetime import datetime, timedelta

SEED = 20261002


# --------------------------------------------------------------------------
# loading


def purge():
    for name in list(sys.modules):
        if name == "labella" or name.startswith("labella."):
            del sys.modules[name]


def load(root):
    root = os.path.realpath(root)
    purge()
    sys.path.insert(0, root)
    try:
        import labella  # noqa: F401
        import labella.scale as scale
        import labella.d3_time as d3t
    finally:
        sys.path.remove(root)
    for mod in (sys.modules["labella"], scale, d3t):
        path = os.path.realpath(mod.__file__)
        assert path.startswith(root + os.sep), (path, root)
    return scale, d3t


# --------------------------------------------------------------------------
# canonical form of results


class Ctx:
    def __init__(self, scale, d3t):
        self.scale = scale
        self.d3t = d3t
        self.names = {}
        for key, val in d3t.d3_time.items():
            if isinstance(val, d3t.d3_time_interval):
                self.names[id(val)] = "interval:" + key
        self.names[id(scale.d3_time_scaleMilliseconds)] = "interval:ms"
        for name in (
            "d3_interpolate",
            "d3_interpolateNumber",
            "d3_identity",
            "mytimeformat",
            "d3_uninterpolateNumber",
            "d3_uninterpolateClamp",
        ):
            self.names[id(getattr(scale, name))] = "fn:" + name
        self.names[id(scale.d3_time_scaleLocalMethods)] = "localMethods"

    def canon(self, v, depth=0):
        if depth > 12:
            return ("deep",)
        if v is None:
            return ("none",)
        t = type(v)
        if t is float:
            return ("float", v.hex())
        if t is bool:
            return ("bool", v)
        if t is int:
            return ("int", v)
        if t is str:
            return ("str", v)
        if id(v) in self.names:
            return ("named", self.names[id(v)])
        if t is datetime:
            return ("datetime", v.isoformat(), v.microsecond, repr(v.tzinfo))
        if t is date_cls:
            return ("date", v.isoformat())
        if t is timedelta:
            return ("timedelta", v.days, v.seconds, v.microseconds)
        if t in (list, tuple):
            return (t.__name__, [self.canon(x, depth + 1) for x in v])
        if t is dict:
            return (
                "dict",
                [(k, self.canon(v[k], depth + 1)) for k in v],
            )
        if isinstance(v, self.scale.LinearScale):
            return ("LinearScale", self.linear_state(v))
        if isinstance(v, self.scale.TimeScale):
            return ("TimeScale", self.time_state(v))
        if isinstance(v, (types.GeneratorType, map, filter, range)) or (
            hasattr(v, "__next__") and hasattr(v, "__iter__")
        ):
            items = list(itertools.islice(v, 20000))
            return (
                "iter:" + t.__name__,
                [self.canon(x, depth + 1) for x in items],
            )
        if callable(v):
            return ("callable", t.__name__)
        return ("other", t.__name__, repr(v))

    def attempt(self, fn, *args, **kwargs):
        try:
            res = fn(*args, **kwargs)
            return ("ok", self.canon(res))
        except RecursionError:
            raise
        except Exception as e:  # noqa: BLE001
            return ("exc", type(e).__name__, str(e))

    # object state -------------------------------------------------------

    def linear_state(self, s):
        out = [
            self.canon(s._domain),
            self.canon(s._range),
            self.canon(s._clamp),
            self.canon(s._interpolate),
            self.canon(sorted(vars(s))),
        ]
        probes = [0, 0.5, 1, -3.25, 17.0, 1e9, -1e-9]
        try:
            d0, d1 = s._domain[0], s._domain[-1]
            probes += [d0, d1, d0 + (d1 - d0) * 0.3, d0 - (d1 - d0) * 0.1]
        except Exception:  # noqa: BLE001
            pass
        for p in probes:
            out.append(self.attempt(s, p))
            out.append(self.attempt(s.scale, p))
            out.append(self.attempt(s.invert, p))
        return out

    def time_state(self, s):
        out = [
            self.canon(s._methods),
            self.canon(s._format),
            self.canon(sorted(vars(s))),
            ("LinearScale", self.linear_state(s._linear)),
            self.attempt(s.domain),
            self.attempt(s.range),
            self.attempt(s.clamp),
        ]
        return out


# --------------------------------------------------------------------------
# input generators (independent of the library)


def rand_float(rng):
    kind = rng.randrange(10)
    if kind == 0:
        return float(rng.randint(-20, 20))
    if kind == 1:
        return rng.uniform(-1, 1)
    if kind == 2:
        return rng.uniform(-1e-6, 1e-6)
    if kind == 3:
        return rng.uniform(-1e9, 1e9)
    if kind == 4:
        return rng.choice([0.0, -0.0, 1.0, 10.0, 100.0, 0.1, 0.5, 2.5, 1e-3])
    if kind == 5:
        return round(rng.uniform(-1000, 1000), rng.randrange(4))
    if kind == 6:
        return rng.uniform(0, 1) * 10 ** rng.randint(-12, 12)
    return rng.uniform(-500, 500)


def rand_domain(rng):
    a = rand_float(rng)
    kind = rng.randrange(12)
    if kind == 0:
        b = a
    elif kind == 1:
        b = a + 10 ** rng.randint(-8, 8)
    elif kind == 2:
        b = a - 10 ** rng.randint(-8, 8)
    else:
        b = rand_float(rng)
    dom = [a, b]
    if rng.randrange(6) == 0:
        dom = [int(a), int(b)]
    if rng.randrange(15) == 0:
        dom.insert(1, rand_float(rng))
    return dom


UNITS_MS = [
    1,
    7,
    50,
    1e3,
    5e3,
    15e3,
    3e4,
    6e4,
    3e5,
    9e5,
    18e5,
    36e5,
    108e5,
    216e5,
    432e5,
    864e5,
    1728e5,
    6048e5,
    2592e6,
    7776e6,
    31536e6,
    5 * 31536e6,
    30 * 31536e6,
    120 * 31536e6,
]

LO = datetime(1900, 1, 1)
HI = datetime(2199, 12, 31, 23, 59, 59, 999000)


def rand_datetime(rng):
    kind = rng.randrange(8)
    year = rng.randint(1900, 2199)
    if kind == 0:
        return datetime(year, 1, 1)
    if kind == 1:
        return datetime(year, rng.randint(1, 12), 1)
    if kind == 2:
        return datetime(
            year, rng.randint(1, 12), rng.randint(1, 28), rng.randint(0, 23)
        )
    if kind == 3:
        return datetime(year, 12, 31, 23, 59, 59, rng.choice([0, 999000, 999999]))
    if kind == 4:
        y = rng.choice([1904, 1960, 1996, 2000, 2024, 2096, 2104])
        return datetime(y, 2, 29, rng.randint(0, 23), rng.randint(0, 59))
    total = (HI - LO).total_seconds()
    d = LO + timedelta(seconds=rng.uniform(0, total))
    if kind == 5:
        return d.replace(microsecond=0)
    if kind == 6:
        return d.replace(microsecond=(d.microsecond // 1000) * 1000)
    return d


def clip(d):
    return min(max(d, LO), HI)


def rand_time_domain(rng):
    a = rand_datetime(rng)
    unit = rng.choice(UNITS_MS)
    span = unit * rng.choice([0, 1, 1, 2, 3, 7, 10, 12, 25, 60, 100]) * rng.choice(
        [1, 1, 1, rng.uniform(0.3, 3)]
    )
    span = min(span, 300 * 31536e6)
    b = clip(a + timedelta(milliseconds=span))
    dom = [a, b]
    if rng.randrange(2):
        dom.reverse()
    if rng.randrange(20) == 0:
        dom.insert(1, rand_datetime(rng))
    return dom


# --------------------------------------------------------------------------
# the cases


def linear_cases(ctx, rng, emit, n):
    S = ctx.scale
    ms = [None, 10, 1, 2, 3, 5, 7, 20, 50, 0, -4, 2.5, 1000]
    for case in range(n):
        dom = rand_domain(rng)
        rg = [rand_float(rng), rand_float(rng)]
        clamp = rng.choice([False, True, False, 0, 1])
        how = rng.randrange(3)
        tag = "linear#%d" % case
        if how == 0:
            s = S.LinearScale(list(dom), list(rg), None, clamp)
        elif how == 1:
            s = S.LinearScale()
            emit(tag + ":domain", ctx.attempt(s.domain, list(dom)))
            emit(tag + ":range", ctx.attempt(s.range, list(rg)))
            emit(tag + ":clamp", ctx.attempt(s.clamp, clamp))
        else:
            s = S.LinearScale(domain=list(dom), clamp=clamp)
            emit(tag + ":range", ctx.attempt(s.range, list(rg)))
        emit(tag + ":state0", ctx.canon(s))
        emit(tag + ":getters", ctx.canon([s.domain(), s.range(), s.clamp()]))
        emit(tag + ":interp", ctx.attempt(s.interpolate))
        for p in [rand_float(rng) for _ in range(3)]:
            emit(tag + ":call", ctx.attempt(s, p))
            emit(tag + ":inv", ctx.attempt(s.invert, p))
        for m in rng.sample(ms, 4) + [None]:
            t = ctx.attempt(s.ticks, m)
            emit(tag + ":ticks(%r)" % (m,), t)
            if rng.randrange(2):
                tf = ctx.attempt(s.tickFormat, m)
            else:
                tf = ctx.attempt(s.tickFormat, m, rng.choice([None, "d", ".2f"]))
            emit(tag + ":tickFormat(%r)" % (m,), tf)
            try:
                f = s.tickFormat(m)
                ticks = list(itertools.islice(s.ticks(m), 200))
            except Exception:  # noqa: BLE001
                f, ticks = None, []
            if f is not None:
                labels = [ctx.attempt(f, x) for x in ticks]
                labels.append(ctx.attempt(f, rand_float(rng)))
                labels.append(ctx.attempt(f, 3))
                labels.append(ctx.attempt(f, "x"))
                emit(tag + ":labels(%r)" % (m,), labels)
        c = s.copy()
        emit(tag + ":copy", ctx.canon(c))
        m = rng.choice(ms)
        emit(tag + ":nice(%r)" % (m,), ctx.attempt(s.nice, m))
        emit(tag + ":after-nice", ctx.canon(s))
        emit(tag + ":copy-after", ctx.canon(c))
        emit(tag + ":nice()", ctx.attempt(s.nice))
        emit(tag + ":ticks-after", ctx.attempt(s.ticks))
        emit(tag + ":clamp-toggle", ctx.attempt(s.clamp, not s.clamp()))
        emit(tag + ":interp-set", ctx.attempt(s.interpolate, S.d3_interpolateNumber))
        emit(tag + ":rangeRound", ctx.attempt(s.rangeRound, [0, 1]))
    # bad inputs
    for bad in ([], [1], ["a", "b"], None, [None, 1], "12", [1, float("nan")],
                [float("inf"), 0], [0, float("inf")]):
        s = S.LinearScale()
        emit("linear-bad-domain %r" % (bad,), ctx.attempt(s.domain, bad))
        emit("linear-bad-domain-state %r" % (bad,), ctx.canon(s))
        emit("linear-bad-ticks %r" % (bad,), ctx.attempt(s.ticks))
        emit("linear-bad-nice %r" % (bad,), ctx.attempt(s.nice))
        emit("linear-bad-fmt %r" % (bad,), ctx.attempt(s.tickFormat))
        emit("linear-bad-ctor %r" % (bad,), ctx.attempt(S.LinearScale, bad))


def time_cases(ctx, rng, emit, n):
    S = ctx.scale
    T = ctx.d3t.d3_time
    counts = [None, 10, 2, 3, 5, 7, 20, 40, 1, 0, -3, 4.5, "5", "abc"]
    inames = ["second", "minute", "hour", "day", "week", "month", "year"]
    for case in range(n):
        dom = rand_time_domain(rng)
        tag = "time#%d" % case
        s = S.TimeScale()
        emit(tag + ":domain", ctx.attempt(s.domain, list(dom)))
        rg = [rand_float(rng), rand_float(rng)]
        emit(tag + ":range", ctx.attempt(s.range, rg))
        if rng.randrange(3) == 0:
            emit(tag + ":clamp", ctx.attempt(s.clamp, True))
        emit(tag + ":state0", ctx.canon(s))
        for d in [rand_datetime(rng), dom[0], dom[-1]]:
            emit(tag + ":call", ctx.attempt(s, d))
        for y in [rand_float(rng), rg[0], rg[1]]:
            emit(tag + ":inv", ctx.attempt(s.invert, y))
        fmt = s.tickFormat()
        emit(tag + ":fmt", ctx.canon(fmt))
        span_ms = abs((dom[-1] - dom[0]).total_seconds()) * 1000.0
        for cnt in rng.sample(counts, 4) + [None]:
            r = ctx.attempt(s.ticks, cnt)
            emit(tag + ":ticks(%r)" % (cnt,), r)
            try:
                ticks = s.ticks(cnt)
            except Exception:  # noqa: BLE001
                ticks = []
            emit(
                tag + ":labels(%r)" % (cnt,),
                [ctx.attempt(fmt, t) for t in ticks[:300]],
            )
        # explicit interval object: tickMethod is still consulted
        iname = rng.choice(inames)
        emit(
            tag + ":ticks(interval)",
            ctx.attempt(s.ticks, T[iname], rng.choice([None, 1, 2])),
        )
        emit(tag + ":ticks(skip)", ctx.attempt(s.ticks, None, 3))
        # tickMethod directly
        ext = sorted([S.dt2milli(dom[0]), S.dt2milli(dom[-1])])
        for cnt in (10, rng.choice([1, 2, 3, 5, 7, 20, 100, 0.5, 1e6])):
            emit(tag + ":tickMethod(%r)" % (cnt,), ctx.attempt(s.tickMethod, ext, cnt))
        c = s.copy()
        emit(tag + ":copy", ctx.canon(c))
        # nice
        choice = rng.randrange(4)
        if choice == 0:
            emit(tag + ":nice()", ctx.attempt(s.nice))
        elif choice == 1:
            cnt = rng.choice(counts)
            emit(tag + ":nice(%r)" % (cnt,), ctx.attempt(s.nice, cnt))
        else:
            # explicit interval; keep the amount of stepping bounded
            ok = [
                nm
                for nm, unit in zip(
                    inames, [1e3, 6e4, 36e5, 864e5, 6048e5, 2592e6, 31536e6]
                )
                if span_ms / unit < 1e7
            ] or ["year"]
            iname = rng.choice(ok)
            skip = rng.choice([0, 1, 1, 2, 3, 5, 10])
            if choice == 2:
                emit(
                    tag + ":nice(%s,%r)" % (iname, skip),
                    ctx.attempt(s.nice, T[iname], skip),
                )
            else:
                emit(tag + ":nice(%s)" % iname, ctx.attempt(s.nice, T[iname]))
        emit(tag + ":after-nice", ctx.canon(s))
        emit(tag + ":copy-after", ctx.canon(c))
        emit(tag + ":ticks-after", ctx.attempt(s.ticks))
        emit(tag + ":nice-again", ctx.attempt(s.nice))
        emit(tag + ":after-nice2", ctx.canon(s))
        emit(tag + ":interp", ctx.attempt(s.interpolate))
        emit(tag + ":rangeRound", ctx.attempt(s.rangeRound, [0, 1]))
    # constructor variants and bad input
    lin = S.LinearScale([0.0, 1000.0], [5, 50])
    s = S.TimeScale(lin, S.d3_time_scaleLocalMethods[:], S.d3_identity)
    emit("time-ctor", ctx.canon(s))
    emit("time-ctor-ticks", ctx.attempt(s.ticks))
    emit("time-ctor-nice", ctx.attempt(s.nice))
    emit("time-ctor-after", ctx.canon(s))
    for bad in ([], [datetime(2000, 1, 1)], [1, 2], None, "ab",
                [datetime(2000, 1, 1), None]):
        s = S.TimeScale()
        emit("time-bad %r" % (bad,), ctx.attempt(s.domain, bad))
        emit("time-bad-state %r" % (bad,), ctx.canon(s))
        emit("time-bad-ticks %r" % (bad,), ctx.attempt(s.ticks))
        emit("time-bad-nice %r" % (bad,), ctx.attempt(s.nice))
    # method tables with falsy entries: the passed interval/skip stay in force
    holes = [[] for _ in S.d3_time_scaleLocalMethods]
    for case in range(40):
        s = S.TimeScale(methods=rng.choice([holes, [None] * 18, [()] * 18]))
        s.domain(rand_time_domain(rng))
        iname = rng.choice(inames)
        skip = rng.choice([None, 0, 1, 2, 0.5])
        tag = "time-holes#%d" % case
        emit(tag + ":ticks", ctx.attempt(s.ticks, rng.choice([None, 5, 10]), skip))
        emit(tag + ":ticks2", ctx.attempt(s.ticks, 10, 2))
        emit(tag + ":nice", ctx.attempt(s.nice, rng.choice([None, 5]), skip))
        emit(tag + ":state", ctx.canon(s))
    s = S.TimeScale()  # default domain: epoch .. epoch + 1 ms
    emit("time-default-ticks", ctx.attempt(s.ticks))
    emit("time-default-nice", ctx.attempt(s.nice))
    emit("time-default-state", ctx.canon(s))


STEP_OF = {
    "second": timedelta(seconds=1),
    "minute": timedelta(minutes=1),
    "hour": timedelta(hours=1),
    "day": timedelta(days=1),
    "week": timedelta(days=7),
    "month": timedelta(days=30.5),
    "year": timedelta(days=365.25),
}


def interval_cases(ctx, rng, emit, n):
    T = ctx.d3t.d3_time
    names = [k for k, v in T.items() if isinstance(v, ctx.d3t.d3_time_interval)]
    emit("interval-names", ctx.canon(sorted(T)))
    ks = [0, 1, 1, 2, 3, 5, 11, 12, 13, 24, 30, 100, -1, -2, -13, 1.5, 2.0, -0.5,
          True, None, "1"]
    dts = [1, 1, 2, 2, 3, 4, 5, 6, 7, 10, 12, 15, 30, 0, -1, 0.5, 1.5, 2.0, None]
    for name in names:
        iv = T[name]
        rangefn = T[name + "s"]
        for case in range(n):
            tag = "%s#%d" % (name, case)
            d = rand_datetime(rng)
            emit(tag + ":floor", ctx.attempt(iv.floor, d))
            emit(tag + ":call", ctx.attempt(iv, d))
            emit(tag + ":ceil", ctx.attempt(iv.ceil, d))
            emit(tag + ":round", ctx.attempt(iv.round, d))
            k = rng.choice(ks)
            emit(tag + ":offset(%r)" % (k,), ctx.attempt(iv.offset, d, k))
            emit(tag + ":number", ctx.attempt(iv._number, d))
            length = rng.choice([0, 1, 2, 5, 13, 40, 150]) * rng.uniform(0.5, 1.5)
            t1 = clip(d + STEP_OF[name] * length)
            dt = rng.choice(dts)
            r = ctx.attempt(iv.range, d, t1, dt)
            emit(tag + ":range(%r)" % (dt,), r)
            emit(tag + ":ranges(%r)" % (dt,), ctx.attempt(rangefn, d, t1, dt))
            emit(tag + ":range-rev", ctx.attempt(iv.range, t1, d, 1))
            # results are fresh objects, never the inputs
            try:
                res = iv.range(d, t1, 1)
                emit(tag + ":fresh", ("bool", any(x is d or x is t1 for x in res)))
            except Exception:  # noqa: BLE001
                pass
        # edge cases
        edges = [
            datetime(1999, 12, 31, 23, 59, 59, 999000),
            datetime(2000, 1, 1),
            datetime(2000, 1, 1, 0, 0, 0, 1000),
            datetime(2000, 2, 29),
            datetime(2001, 1, 31, 12),
            datetime(2096, 2, 29, 3),
            datetime(1970, 1, 1),
            datetime(1969, 12, 31, 23, 59, 59, 999999),
            datetime(1900, 1, 1),
            datetime(2199, 12, 31, 23, 59, 59, 999999),
            datetime(2017, 1, 1),  # a Sunday
            datetime(2017, 1, 7, 23, 59),
            datetime(9999, 12, 31, 23),
            datetime(1, 1, 1),
            date_cls(2001, 5, 17),
            date_cls(9999, 12, 31),
            None,
            5,
            "2000-01-01",
        ]
        for e in edges:
            tag = "%s-edge %r" % (name, e)
            for meth in ("floor", "ceil", "round"):
                emit(tag + ":" + meth, ctx.attempt(getattr(iv, meth), e))
            for k in (1, -1, 12, 14, 100, 0.5, None):
                emit(tag + ":offset(%r)" % (k,), ctx.attempt(iv.offset, e, k))
            if isinstance(e, datetime) and 1 < e.year < 9990:
                t1 = e + STEP_OF[name] * 9
                for dt in (1, 2, 3, 0, None):
                    emit(tag + ":range(%r)" % (dt,), ctx.attempt(iv.range, e, t1, dt))
            emit(tag + ":range-bad", ctx.attempt(iv.range, e, None, 1))
            emit(tag + ":range-self", ctx.attempt(iv.range, e, e, 2))
    for case in range(n):
        d = rand_datetime(rng)
        emit("dayOfYear#%d" % case, ctx.attempt(T["dayOfYear"], d))
        emit("daysThisMonth#%d" % case, ctx.attempt(ctx.d3t.daysThisMonth, d))
        emit("week_number#%d" % case, ctx.attempt(ctx.d3t.d3_time_week_number, d))
        k = rng.choice(ks)
        emit(
            "month_offset#%d(%r)" % (case, k),
            ctx.attempt(ctx.d3t.d3_time_month_offset, d, k),
        )
        emit(
            "day_offset#%d(%r)" % (case, k),
            ctx.attempt(ctx.d3t.d3_time_day_offset, d, k),
        )
    # a custom interval built through the public constructor
    custom = ctx.d3t.d3_time_interval(
        lambda x: x - (x % 5), lambda x, k: x + 5 * k, lambda x: x // 5
    )
    emit("custom-vars", ctx.canon(sorted(vars(custom))))
    for x in range(-7, 30, 3):
        emit("custom-floor %d" % x, ctx.attempt(custom._local, x))
        emit("custom-number %d" % x, ctx.attempt(custom._number, x))
        emit("custom-offset %d" % x, ctx.attempt(custom.offset, x, 2))
        emit("custom-step %d" % x, ctx.attempt(custom._step, x, 3))


class FakeNice:
    def __init__(self, lo, hi):
        self.lo = lo
        self.hi = hi

    def floor(self, x):
        return x - self.lo

    def ceil(self, x):
        return x + self.hi


class DictWithMethods(dict):
    def floor(self, x):
        return x - 100

    def ceil(self, x):
        return x + 100


class OnlyFloor:
    def floor(self, x):
        return x - 1


def helper_cases(ctx, rng, emit, n):
    S = ctx.scale
    for case in range(n):
        tag = "helper#%d" % case
        dom = rand_domain(rng)
        m = rng.choice([None, 10, 1, 2, 3, 5, 7, 20, 50, 0, -4, 2.5])
        emit(tag + ":extent", ctx.attempt(S.d3_scaleExtent, list(dom)))
        emit(tag + ":tickRange", ctx.attempt(S.d3_scale_linearTickRange, list(dom), m))
        emit(tag + ":tickRange1", ctx.attempt(S.d3_scale_linearTickRange, tuple(dom)))
        emit(tag + ":ticks", ctx.attempt(S.d3_scale_linearTicks, list(dom), m))
        f = ctx.attempt(S.d3_scale_linearTickFormat, list(dom), m)
        emit(tag + ":tickFormat", f)
        if f[0] == "ok":
            fn = S.d3_scale_linearTickFormat(list(dom), m)
            emit(
                tag + ":tickFormat-out",
                [ctx.attempt(fn, x) for x in (rand_float(rng), 0, -0.0, 12345678.9,
                                              1e21, float("nan"), float("inf"),
                                              7, True, None, "s")],
            )
        v = rng.choice([rand_float(rng), abs(rand_float(rng)), 0, 0.0, 1, 10, 0.1,
                        1e-3, 100, None])
        emit(tag + ":precision(%r)" % (v,), ctx.attempt(S.d3_scale_linearPrecision, v))
        d = list(dom)
        emit(tag + ":linearNice", ctx.attempt(S.d3_scale_linearNice, d, m))
        emit(tag + ":linearNice-dom", ctx.canon(d))
        # niceStep / nice
        step = rng.choice([0, 0.0, None, 1, 2, 5, 10, 0.1, 0.25, 1e-3, 100.0,
                           abs(rand_float(rng))])
        ns = ctx.attempt(S.d3_scale_niceStep, step)
        emit(tag + ":niceStep(%r)" % (step,), ns)
        if ns[0] == "ok":
            nd = S.d3_scale_niceStep(step)
            emit(tag + ":niceStep-keys", ctx.canon(list(nd)))
            for x in (rand_float(rng), rand_float(rng), 0, 7, -0.0):
                emit(tag + ":niceStep-floor", ctx.attempt(nd["floor"], x))
                emit(tag + ":niceStep-ceil", ctx.attempt(nd["ceil"], x))
            d = list(dom)
            r = ctx.attempt(S.d3_scale_nice, d, nd)
            emit(tag + ":nice-dict", r)
            emit(tag + ":nice-dict-dom", ctx.canon(d))
            try:
                d = list(dom)
                emit(tag + ":nice-same", ("bool", S.d3_scale_nice(d, nd) is d))
            except Exception:  # noqa: BLE001
                pass
        d = list(dom)
        obj = FakeNice(rand_float(rng), rand_float(rng))
        emit(tag + ":nice-obj", ctx.attempt(S.d3_scale_nice, d, obj))
        emit(tag + ":nice-obj-dom", ctx.canon(d))
        # drange
        a = rand_float(rng)
        stp = rng.choice([1, 2, 0.1, 0.25, 1e-3, 3.7, 10, abs(rand_float(rng)) + 1e-3])
        cnt = rng.choice([0, 1, 3, 10, 57, 300]) + rng.random()
        b = a + stp * cnt
        emit(tag + ":drange", ctx.attempt(S.drange, a, b, stp))
        emit(tag + ":drange-int", ctx.attempt(S.drange, int(a), int(a) + 17, rng.choice([1, 2, 3, 0.5])))
        emit(tag + ":drange-default", ctx.attempt(S.drange, a, a + 5))
        emit(tag + ":drange-neg", ctx.attempt(S.drange, a, a - 5, stp))
        g = S.drange(a, b, stp)
        emit(tag + ":drange-type", ("str", type(g).__name__))
        # bisect
        x = rng.choice([rand_float(rng) * 1e6, rng.choice(S.d3_time_scaleSteps),
                        0, -1, 1e12])
        emit(tag + ":bisect", ctx.attempt(S.d3_bisect, S.d3_time_scaleSteps, x))
        emit(tag + ":ascending", ctx.attempt(S.d3_ascending, rand_float(rng), x))
        # mytimeformat
        dd = rand_datetime(rng)
        emit(tag + ":mytimeformat", ctx.attempt(S.mytimeformat, dd))
        emit(tag + ":dt2milli", ctx.attempt(S.dt2milli, dd))
        emit(tag + ":milli2dt", ctx.attempt(S.milli2dt, rand_float(rng) * 1e6))
        # milliseconds pseudo interval
        msi = S.d3_time_scaleMilliseconds
        stepms = rng.choice([1, 2, 5, 10, 20, 50, 100, 200, 500, 0.5, 2.5, 0])
        e1 = dd + timedelta(milliseconds=rng.uniform(0, 40) * (stepms or 1))
        emit(tag + ":ms-range", ctx.attempt(msi.range, dd, e1, stepms))
        emit(tag + ":ms-floor", ctx.attempt(msi.floor, dd))
        emit(tag + ":ms-ceil", ctx.attempt(msi.ceil, dd))
        # extent helper used by the timelines
        data = [{"t": rand_float(rng)} for _ in range(rng.randrange(0, 6))]
        emit(tag + ":d3_extent", ctx.attempt(S.d3_extent, data, lambda r: r["t"]))
        emit(tag + ":d3_extent-iter", ctx.attempt(S.d3_extent, iter(data), lambda r: r["t"]))
    # fixed edge cases ----------------------------------------------------
    for dom in ([], [1], [3, 1], [1, 1], [0.0, 0.0], ["a", "b"], [None, 1],
                [float("nan"), 1.0], [1.0, float("nan")], [0, float("inf")],
                [1, 2, 3], (5, 9), [2, 1, 7], None):
        for m in (None, 10, 0, -1, "x"):
            tag = "edge %r m=%r" % (dom, m)
            mk = (lambda: list(dom)) if isinstance(dom, list) else (lambda: dom)
            emit(tag + ":tickRange", ctx.attempt(S.d3_scale_linearTickRange, mk(), m))
            emit(tag + ":ticks", ctx.attempt(S.d3_scale_linearTicks, mk(), m))
            emit(tag + ":fmt", ctx.attempt(S.d3_scale_linearTickFormat, mk(), m))
            d = mk()
            emit(tag + ":linearNice", ctx.attempt(S.d3_scale_linearNice, d, m))
            emit(tag + ":linearNice-dom", ctx.canon(d))
        for nice in ({"floor": lambda x: x - 1, "ceil": lambda x: x + 1},
                     {"floor": lambda x: x - 1}, {}, {"ceil": lambda x: x + 1},
                     FakeNice(1, 2), OnlyFloor(), None, 5, "floor",
                     collections.OrderedDict(
                         floor=lambda x: x - 2, ceil=lambda x: x + 2),
                     types.MappingProxyType(
                         {"floor": lambda x: x - 2, "ceil": lambda x: x + 2}),
                     DictWithMethods(floor=lambda x: x - 3, ceil=lambda x: x + 3),
                     {"floor": None, "ceil": None}):
            d = list(dom) if isinstance(dom, list) else dom
            tag = "edge-nice %r %s" % (dom, type(nice).__name__ + str(
                sorted(nice) if isinstance(nice, dict) else ""))
            emit(tag, ctx.attempt(S.d3_scale_nice, d, nice))
            emit(tag + ":dom", ctx.canon(d))
    for args in ((0, 1, 0.25), (0, 0, 0), (5, 1, 1), (0, 3), (0.0, 1.0, 0.1),
                 (1, 4, 1), (True, 3, 1), (10**20, 10**20 + 5, 2),
                 (0, 10, 2.5), (float("nan"), 1, 1), (0, float("nan"), 1),
                 (float("-inf"), 0, 1)):
        emit("drange%r" % (args,), ctx.attempt(lambda: list(itertools.islice(S.drange(*args), 50))))
    # domains sitting exactly on the 0.15 / 0.35 / 0.75 step thresholds
    for scale_ in (1, 10, 100, 0.5, 1000.0):
        for m in (3, 7, 15, 6, 14, 30):
            for span in (20, 40, 200, 2):
                for lo in (0, -span, 3):
                    dom = [lo * scale_, (lo + span) * scale_]
                    tag = "threshold %r m=%r" % (dom, m)
                    emit(tag, ctx.attempt(S.d3_scale_linearTickRange, dom, m))
                    ls = S.LinearScale(list(dom))
                    emit(tag + ":ticks", ctx.attempt(ls.ticks, m))
                    emit(tag + ":nice", ctx.attempt(ls.nice, m))
                    emit(tag + ":state", ctx.canon(ls))
    # lazy generator protocol of drange / ticks
    g = S.drange(0.0, 1.0, 0.3)
    emit("drange-next", ctx.canon([next(g), next(g)]))
    emit("drange-rest", ctx.canon(g))
    emit("drange-done", ctx.attempt(next, g))
    # d3_time_formatMulti
    fm = S.d3_time_formatMulti(
        [
            [lambda d: "s" + str(d.second), lambda d: d.second],
            [lambda d: "m" + str(d.minute), lambda d: d.minute],
            [lambda d: "h" + str(d.hour), lambda d: d.hour],
        ]
    )
    for _ in range(40):
        d = rand_datetime(rng)
        emit("formatMulti", ctx.attempt(fm, d))
    emit("formatMulti-none", ctx.attempt(fm, datetime(2000, 1, 1)))
    # time_nice_floor / ceil
    T = ctx.d3t.d3_time
    for _ in range(n // 4):
        d = rand_datetime(rng)
        nm = rng.choice(["second", "minute", "hour", "day", "month", "year"])
        iv = T[nm]
        skip = rng.choice([2, 3, 5])
        skipped = lambda x, iv=iv, skip=skip: not len(  # noqa: E731
            iv.range(x, x + timedelta(milliseconds=1), skip)
        )
        emit("time_nice_floor", ctx.attempt(S.time_nice_floor, d, skipped, iv))
        emit("time_nice_ceil", ctx.attempt(S.time_nice_ceil, d, skipped, iv))
    # tickMethod with explicit extents
    ts = S.TimeScale()
    for _ in range(n):
        a = S.dt2milli(rand_datetime(rng))
        span = rng.choice(UNITS_MS) * rng.uniform(0.2, 30)
        cnt = rng.choice([1, 2, 3, 5, 7, 10, 10, 20, 100, 0.5, 3.3])
        emit("tickMethod", ctx.attempt(ts.tickMethod, [a, a + span], cnt))
    for step in S.d3_time_scaleSteps:
        for f in (0.999999, 1, 1.000001, 2.2, 3.1):
            emit("tickMethod-step", ctx.attempt(ts.tickMethod, [0.0, step * f * 10], 10))
    for ext, cnt in (([0.0, 0.0], 10), ([0.0, 1.0], 0), ([5.0, 1.0], 10),
                     ([0.0], 10), ([], 10), (None, 10), ([0.0, 1e15], 10),
                     ([0.0, 1e15], 3), ([0, 10], 10), (["a", "b"], 10),
                     ([0.0, 4e11], None), ([0.0, float("inf")], 10),
                     ([0.0, float("nan")], 10)):
        emit("tickMethod-edge %r %r" % (ext, cnt), ctx.attempt(ts.tickMethod, ext, cnt))
    short = S.TimeScale(methods=S.d3_time_scaleLocalMethods[:5])
    for ext in ([0.0, 1e4], [0.0, 3e5], [0.0, 1e9], [0.0, 1e13]):
        emit("tickMethod-short %r" % (ext,), ctx.attempt(short.tickMethod, ext, 10))
    empty = S.TimeScale(methods=[])
    for ext in ([0.0, 1.0], [0.0, 1e9], [0.0, 1e13]):
        emit("tickMethod-empty %r" % (ext,), ctx.attempt(empty.tickMethod, ext, 10))


def run_all(root):
    scale, d3t = load(root)
    ctx = Ctx(scale, d3t)
    out = []

    def emit(label, value):
        out.append((label, value))

    linear_cases(ctx, random.Random(SEED + 1), emit, 350)
    time_cases(ctx, random.Random(SEED + 2), emit, 450)
    interval_cases(ctx, random.Random(SEED + 3), emit, 120)
    helper_cases(ctx, random.Random(SEED + 4), emit, 400)
    purge()
    return out


def main(argv):
    if len(argv) != 3:
        print(__doc__)
        return 2
    a = run_all(argv[1])
    b = run_all(argv[2])
    if len(a) != len(b):
        print("DIFFERENT number of cases: %d vs %d" % (len(a), len(b)))
        return 1
    for (la, va), (lb, vb) in zip(a, b):
        if la != lb or va != vb:
            print("DIFFERENCE at case %r / %r" % (la, lb))
            print("  original  : %r" % (va,))
            print("  refactored: %r" % (vb,))
            return 1
    print("EQUIVALENT (%d cases)" % len(a))
    return 0


if __name__ == "__main__":
    sys.exit(main(sys.argv))
