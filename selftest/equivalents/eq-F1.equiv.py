#!/usr/bin/env python
"""Differential test for the Renderer.layout refactoring.

usage: equiv.py <original-checkout> <refactored-checkout>
"""
import itertools
import os
import random
import subprocess
import sys


def outcome(fn):
    try:
        return ("OK", fn())
    except Exception as exc:  # noqa
        return ("EXC", type(exc).__name__)


def worker(tree):
    sys.path.insert(0, tree)
    import labella.renderer as R
    from labella.node import Node

    assert os.path.realpath(R.__file__).startswith(os.path.realpath(tree))

    class Bare(object):
        """node-like object with a selectable set of attributes"""

        def __init__(self, **kw):
            self.__dict__.update(kw)

        def getLayerIndex(self):
            return self.layerIndex

    def snap(n):
        return sorted(
            (k, repr(v))
            for k, v in n.__dict__.items()
            if k in ("x", "y", "dx", "dy", "currentPos", "width",
                     "layerIndex", "idealPos")
        )

    rng = random.Random(20240607)
    directions = ["left", "right", "up", "down", "diagonal", "", None, "LEFT"]
    heights = [10, 0, -4, 7.5, 1e-3, 12345678.9]
    gaps = [60, 0, -3, 2.25, 1e6]
    cases = []
    # systematic grid
    for d, h, g in itertools.product(directions, heights[:4], gaps[:4]):
        cases.append(({"direction": d, "nodeHeight": h, "layerGap": g}, None))
    # random
    for _ in range(200):
        cases.append(
            (
                {
                    "direction": rng.choice(directions),
                    "nodeHeight": rng.choice(heights + [rng.uniform(-50, 50)]),
                    "layerGap": rng.choice(gaps + [rng.uniform(-50, 50)]),
                },
                rng.randint(0, 12),
            )
        )
    count = 0
    for idx, (opts, n) in enumerate(cases):
        if n is None:
            n = idx % 5
        nodes = []
        for j in range(n):
            nd = Node(
                rng.choice([0, -1, 3.5, rng.uniform(-1e3, 1e3), 17]),
                rng.choice([0, 1, 50, -2, rng.uniform(0, 90)]),
            )
            nd.currentPos = rng.choice([nd.idealPos, rng.uniform(-500, 500)])
            nd.layerIndex = rng.choice([0, 0, 1, 2, 5, -1])
            nodes.append(nd)
        rend = R.Renderer(dict(opts))
        res = outcome(lambda: rend.layout(nodes))
        same = res[0] == "OK" and res[1] is nodes
        print("L", idx, sorted(opts.items(), key=repr), res[0],
              res[1] if res[0] == "EXC" else same,
              [snap(x) for x in nodes], sorted(rend.options.items(), key=repr))
        count += 1

    # option defaults / falsy options / partially given options
    for idx, o in enumerate([None, {}, {"direction": "up"},
                             {"nodeHeight": 3}, {"layerGap": 1, "extra": 2}]):
        nodes = [Node(float(i), 10 + i) for i in range(3)]
        for i, nd in enumerate(nodes):
            nd.layerIndex = i
        rend = R.Renderer(o)
        res = outcome(lambda: rend.layout(nodes))
        print("D", idx, res[0], [snap(x) for x in nodes])
        count += 1

    # containers other than list, incl. generators and empty ones
    for idx, d in enumerate(directions):
        rend = R.Renderer({"direction": d})
        base = [Node(float(i) - 2, 5 * i) for i in range(4)]
        for mk in (tuple, iter, lambda b: (x for x in b), lambda b: []):
            arg = mk(base)
            res = outcome(lambda: rend.layout(arg))
            print("C", idx, res[0], res[1] is arg if res[0] == "OK" else res[1],
                  [snap(x) for x in base])
            count += 1

    # exception paths: missing attributes / options; partial mutation
    attrsets = [
        dict(layerIndex=1, currentPos=2.0, width=3),
        dict(layerIndex=1, currentPos=2.0),
        dict(layerIndex=1, width=3),
        dict(currentPos=2.0, width=3),
        dict(layerIndex="a", currentPos=2.0, width=3),
        dict(layerIndex=None, currentPos=2.0, width=3),
        dict(layerIndex=2, currentPos=None, width="w"),
    ]
    for idx, (d, attrs) in enumerate(itertools.product(directions[:5], attrsets)):
        good = Bare(layerIndex=0, currentPos=1.5, width=9)
        bad = Bare(**attrs)
        tail = Bare(layerIndex=3, currentPos=-1.5, width=4)
        rend = R.Renderer({"direction": d})
        res = outcome(lambda: rend.layout([good, bad, tail]))
        print("E", idx, res[0], res[1] if res[0] == "EXC" else "-",
              snap(good), snap(bad), snap(tail))
        count += 1
    for idx, missing in enumerate(["direction", "layerGap", "nodeHeight"]):
        for d in directions[:5]:
            rend = R.Renderer({"direction": d})
            del rend.options[missing]
            nd = Bare(layerIndex=1, currentPos=2.0, width=3)
            res = outcome(lambda: rend.layout([nd]))
            print("K", idx, d, res[0], res[1] if res[0] == "EXC" else "-", snap(nd))
            count += 1
    for idx, (h, g) in enumerate([("a", 1), (1, "a"), (None, 2), ([1], [2])]):
        for d in directions[:5]:
            rend = R.Renderer({"direction": d, "nodeHeight": h, "layerGap": g})
            nd = Bare(layerIndex=2, currentPos=2.0, width=3)
            res = outcome(lambda: rend.layout([nd]))
            print("T", idx, d, res[0], res[1] if res[0] == "EXC" else "-", snap(nd))
            count += 1
    print("COUNT", count)


def main():
    if len(sys.argv) == 3 and sys.argv[1] == "--worker":
        worker(sys.argv[2])
        return 0
    orig, new = sys.argv[1], sys.argv[2]
    outs = []
    for tree in (orig, new):
        env = dict(os.environ, PYTHONPATH=tree, PYTHONHASHSEED="0")
        p = subprocess.run(
            [sys.executable, os.path.abspath(__file__), "--worker", tree],
            env=env, stdout=subprocess.PIPE, stderr=subprocess.PIPE,
            universal_newlines=True, cwd="/tmp",
        )
        if p.returncode != 0:
            print("DIFFERENT (worker crashed for %s)\n%s" % (tree, p.stderr))
            return 1
        outs.append(p.stdout.splitlines())
    a, b = outs
    diffs = [(x, y) for x, y in zip(a, b) if x != y]
    if len(a) != len(b) or diffs or len(a) < 200:
        print("DIFFERENT")
        print("lines: %d vs %d" % (len(a), len(b)))
        for x, y in diffs[:10]:
            print("- " + x)
            print("+ " + y)
        return 1
    print("EQUIVALENT (%d cases compared)" % (len(a) - 1))
    return 0


if __name__ == "__main__":
    sys.exit(main())
