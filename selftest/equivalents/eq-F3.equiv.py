#!/usr/bin/env python
"""Differential test for the TimelineTex.add_links refactoring.

usage: equiv.py <original-checkout> <refactored-checkout>
"""
import itertools
import os
import random
import subprocess
import sys


def outcome(fn):
    try:
        return ("OK", fn())
    except Exception as exc:  # noqa
        return ("EXC", type(exc).__name__)


def make_items(rng, n, kind):
    """deterministic item dicts; kind selects the time type"""
    import datetime

    items = []
    for j in range(n):
        if kind == "date":
            t = datetime.date(1990 + rng.randint(0, 30), rng.randint(1, 12),
                              rng.randint(1, 28))
        elif kind == "datetime":
            t = datetime.datetime(2001, 1 + rng.randint(0, 11),
                                  rng.randint(1, 28), rng.randint(0, 23))
        elif kind == "ties":
            t = datetime.date(2000 + (j % 2), 1, 1)
        else:
            t = rng.choice([0.0, -5.0, 3.25, rng.uniform(-100, 100), float(j)])
        d = {"time": t}
        r = rng.random()
        if r < 0.5:
            d["text"] = rng.choice(["a", "Label %d" % j, "\u00e9t\u00e9", "x y z"])
            if rng.random() < 0.7:
                d["width"] = rng.choice([10, 35, 60.5, 120])
        elif r < 0.8:
            d["width"] = rng.choice([5, 50, 80])
        items.append(d)
    return items


def make_options(rng, T, kind, direction):
    from labella.scale import LinearScale

    o = {
        "direction": direction,
        "initialWidth": rng.choice([400, 150, 804]),
        "initialHeight": rng.choice([400, 120, 250]),
        "showBorder": rng.random() < 0.5,
        "showTicks": rng.random() < 0.8,
        "layerGap": rng.choice([60, 20, 33.5]),
        "dotRadius": rng.choice([3, 1.5, 0]),
        "margin": {"left": rng.choice([20, 40.5, 0]), "right": 20,
                   "top": rng.choice([20, 3]), "bottom": 20},
        "linkColor": rng.choice(["#222", "#abcdef", ["#f00", "#0f0", "#00f"],
                                 lambda d: "#123456"]),
        "dotColor": rng.choice(["#222", ["#1f77b4", "#aec7e8"], "fff"]),
        "labelBgColor": rng.choice(["#222", ["#ff7f0e", "#ffbb78", "#2ca02c"]]),
        "labelTextColor": rng.choice(["#fff", "#000"]),
        "borderColor": rng.choice(["#000", ["#111", "#eee"]]),
        "labella": rng.choice([{}, {"maxPos": 150}, {"maxPos": 60, "nodeSpacing": 1},
                               {"algorithm": "none"}]),
        "latex": {"linkThickness": rng.choice(["very thick", "thin", ""]),
                  "tickCross": rng.random() < 0.5,
                  "reproducible": rng.random() < 0.5},
    }
    if kind in ("float",):
        o["scale"] = LinearScale()
    if rng.random() < 0.2:
        o["textFn"] = None
    return o


class Doc(list):
    """list subclass, to check that only append/extend on the caller's
    object are used"""


def worker(tree):
    sys.path.insert(0, tree)
    import labella.timeline as T
    from labella.node import Node

    assert os.path.realpath(T.__file__).startswith(os.path.realpath(tree))
    # no LaTeX available/needed: deterministic stand-in for the text measurer
    T.text_dimensions = lambda text, **kw: (6.5 * len(text) + 0.25, 9.0)

    rng = random.Random(31337)
    directions = ["up", "down", "left", "right"]
    kinds = ["date", "datetime", "float", "ties"]
    count = 0

    # 1. real pipelines
    for idx in range(160):
        d = directions[idx % 4]
        kind = kinds[(idx // 4) % 4]
        n = [1, 2, 3, 7, 15][idx % 5]
        items = make_items(rng, n, kind)
        opts = make_options(rng, T, kind, d)

        def run():
            tl = T.TimelineTex(items, opts)
            tl.nodes, tl.renderer = tl.compute()
            doc = Doc(["sentinel"])
            r = tl.add_links(doc)
            return (r, list(doc), max(x.getLayerIndex() for x in tl.nodes))

        print("R", idx, d, kind, n, outcome(run))
        count += 1

        def run_export():
            return T.TimelineTex(items, opts).export()

        print("X", idx, outcome(run_export))
        count += 1

    # 2. synthetic step lists through a fake renderer
    class FakeRenderer(object):
        def __init__(self, table):
            self.table = table
            self.calls = []

        def generatePath(self, node, tikz=False):
            self.calls.append((node.tag, tikz))
            return self.table[node.tag]

    class Tag(object):
        def __init__(self, tag):
            self.tag = tag

    pool = ["M 1 2", "M 0.00000000 -3.5", "C 1 2 3 4 5 6", "C a b c d e f",
            "L 7 8", "L -1.5 2.5 9", "Z", "", " ", "C 1 2", "L 1", "M", "M 1",
            "Q 1 2 3 4", "C  1 2 3 4 5 6", "L\t1 2", "M 5 6 7", "Ca 1 2 3 4 5",
            "Lx", "Mx 1"]
    odd = [None, 5, b"M 1 2", ["M", "1"], ("L 1 2",)]
    from labella.scale import LinearScale

    tl = T.TimelineTex([{"time": 1.0, "width": 10}],
                       {"scale": LinearScale(), "direction": "up"})
    for idx in range(400):
        nn = rng.choice([0, 1, 1, 2, 3, 5])
        table = {}
        for k in range(nn):
            m = rng.choice([0, 1, 2, 3, 4, 6, 9])
            steps = [rng.choice(pool) for _ in range(m)]
            r = rng.random()
            if r < 0.08:
                steps.insert(rng.randint(0, len(steps)), rng.choice(odd))
            elif r < 0.12:
                steps = rng.choice([None, 7, "MCL", "M 1 2", (), iter(["M 3 4", "L 5 6"])])
            elif r < 0.16:
                steps = tuple(steps)
            table[k] = steps
        tl.nodes = [Tag(k) for k in range(nn)]
        tl.renderer = FakeRenderer(table)
        tl.options["latex"]["linkThickness"] = rng.choice(
            ["very thick", "", "thin, dashed", "%s", 3, None])
        doc = Doc(rng.choice([[], ["pre"], ["a", ""]]))
        res = outcome(lambda: tl.add_links(doc))
        print("F", idx, res, list(doc), tl.renderer.calls)
        count += 1

    # 3. unusual receivers / state
    for idx, (nodes, doc) in enumerate([
        (None, []), ([], []), ((), []), ([Tag(0)], None), ([Tag(0)], ()),
        ([Tag(0)], Doc()), (iter([Tag(0), Tag(1)]), []), ([Tag(3)], []),
    ]):
        tl.nodes = nodes
        tl.renderer = FakeRenderer({0: ["M 1 2", "C 1 2 3 4 5 6", "L 7 8"],
                                    1: ["L 1 2", "L 3 4", "M 9 9", "L 5 6"]})
        tl.options["latex"]["linkThickness"] = "thick"
        res = outcome(lambda: tl.add_links(doc))
        print("U", idx, res, repr(doc), tl.renderer.calls)
        count += 1
    tl.nodes = [Tag(0)]
    tl.renderer = None
    doc = []
    print("U-r", outcome(lambda: tl.add_links(doc)), doc)
    tl.renderer = FakeRenderer({0: ["M 1 2", "L 3 4"]})
    del tl.options["latex"]["linkThickness"]
    doc = []
    print("U-k", outcome(lambda: tl.add_links(doc)), doc)
    count += 2
    print("COUNT", count)


def main():
    if len(sys.argv) == 3 and sys.argv[1] == "--worker":
        worker(sys.argv[2])
        return 0
    orig, new = sys.argv[1], sys.argv[2]
    outs = []
    for tree in (orig, new):
        env = dict(os.environ, PYTHONPATH=tree, PYTHONHASHSEED="0")
        p = subprocess.run(
            [sys.executable, os.path.abspath(__file__), "--worker", tree],
            env=env, stdout=subprocess.PIPE, stderr=subprocess.PIPE,
            universal_newlines=True, cwd="/tmp",
        )
        if p.returncode != 0:
            print("DIFFERENT (worker crashed for %s)\n%s" % (tree, p.stderr))
            return 1
        outs.append(p.stdout.splitlines())
    a, b = outs
    diffs = [(x, y) for x, y in zip(a, b) if x != y]
    if len(a) != len(b) or diffs or len(a) < 200:
        print("DIFFERENT")
        print("lines: %d vs %d" % (len(a), len(b)))
        for x, y in diffs[:10]:
            print("- " + x)
            print("+ " + y)
        return 1
    print("EQUIVALENT (%d cases compared)" % (len(a) - 1))
    return 0


if __name__ == "__main__":
    sys.exit(main())
