#!/usr/bin/env python
"""Differential equivalence test (group D, labella/scale.py).

Usage: python equiv.py <original-checkout> <refactored-checkout>

Each tree is exercised in its own subprocess (so that the package
``labella`` is imported from exactly that tree); the printed traces are
compared line by line.
"""
import math
import os
import random
import subprocess
import sys

NAN = float("nan")
INF = float("inf")


def outcome(thunk):
    """repr of the result, or the exception type name."""
    try:
        return "ok " + repr(thunk())
    except Exception as exc:  # noqa: BLE001
        return "exc " + type(exc).__name__


def load(tree):
    tree = os.path.abspath(tree)
    sys.path.insert(0, tree)
    import labella.scale as mod

    assert os.path.abspath(mod.__file__).startswith(tree + os.sep), mod.__file__
    return mod


def main():
    if len(sys.argv) == 3 and sys.argv[1] == "--worker":
        mod = load(sys.argv[2])
        n = 0
        for label, thunk in cases(mod):
            n += 1
            print("%04d %s => %s" % (n, label, outcome(thunk)))
        return 0
    if len(sys.argv) != 3:
        print(__doc__)
        return 2
    traces = []
    for tree in sys.argv[1:3]:
        env = dict(os.environ)
        env.pop("PYTHONPATH", None)
        env["PYTHONHASHSEED"] = "0"
        proc = subprocess.run(
            [sys.executable, os.path.abspath(__file__), "--worker", tree],
            stdout=subprocess.PIPE,
            stderr=subprocess.PIPE,
            text=True,
            cwd="/",
            env=env,
        )
        if proc.returncode != 0:
            print("DIFFERENT (worker crashed on %s)" % tree)
            print(proc.stderr)
            return 1
        traces.append(proc.stdout.splitlines())
    old, new = traces
    diffs = []
    if len(old) != len(new):
        diffs.append("trace length %d vs %d" % (len(old), len(new)))
    for a, b in zip(old, new):
        if a != b:
            diffs.append("- %s\n+ %s" % (a, b))
    if len(old) < 200:
        diffs.append("only %d cases exercised" % len(old))
    if diffs:
        print("DIFFERENT")
        for d in diffs[:40]:
            print(d)
        return 1
    print("EQUIVALENT (%d cases)" % len(old))
    return 0


XS = [0, 1, -1, 0.5, 0.25, 2, -3.5, 10, 100.0, 1e-9, 1e18, -0.0, NAN, INF, -INF,
      True, "x", None, [1]]

PAIRS = [
    [0, 1], [1, 0], [0, 0], [5, 5], [-5, 5], [10, 960], [960, 10], [0.0, 100.0],
    [-2.5, -0.5], [1e-9, 3e-9], [0, 1e308], [-1e308, 1e308], [NAN, 1], [0, INF],
    [1, 2, 3], [3, 1, 2], (4, 9), [7], [], None, ["a", "b"], [None, 1], [0, "b"],
    [True, False],
]

CLAMPS = [False, True, 0, 1, None, "", "yes", [], [0], 0.0, NAN]


def cases(mod):
    import copy
    from datetime import datetime, timedelta

    rng = random.Random(4004)
    pairs = list(PAIRS)
    for _ in range(30):
        s = 10 ** rng.randint(-4, 6)
        pairs.append([rng.uniform(-1, 1) * s, rng.uniform(-1, 1) * s])
    for _ in range(10):
        pairs.append([rng.randint(-50, 50), rng.randint(-50, 50)])

    # --- d3_scale_bilinear with tracing factories ----------------------
    def traced(log):
        def unint(a, b):
            log.append(("unint", a, b))
            return lambda x: (log.append(("u", x)), (x, a, b))[1]

        def interp(a, b):
            log.append(("interp", a, b))
            return lambda t: (log.append(("i", t)), (t, a, b))[1]

        return unint, interp

    for d in pairs:
        for r in pairs[:12]:

            def run(d=copy.deepcopy(d), r=copy.deepcopy(r)):
                log = []
                un, it = traced(log)
                try:
                    f = mod.d3_scale_bilinear(d, r, un, it)
                except Exception as exc:  # noqa: BLE001
                    return ("raised", type(exc).__name__, log, d, r)
                return (f(3), f("q"), log, d, r, outcome(lambda: f()), outcome(lambda: f(1, 2)))

            yield "bilinear-traced(%r, %r)" % (d, r), run

    for d in pairs:
        for r in pairs[:10]:
            for un_name in ("d3_uninterpolateNumber", "d3_uninterpolateClamp"):

                def run(d=copy.deepcopy(d), r=copy.deepcopy(r), un_name=un_name):
                    f = mod.d3_scale_bilinear(d, r, getattr(mod, un_name), mod.d3_interpolate)
                    return [outcome(lambda: f(x)) for x in XS]

                yield "bilinear(%r, %r, %s)" % (d, r, un_name), run

    # keyword call of the helper (parameter names are unchanged)
    yield "bilinear kw", lambda: mod.d3_scale_bilinear(
        domain=[0, 2], _range=[0, 10],
        uninterpolate=mod.d3_uninterpolateNumber, interpolate=mod.d3_interpolateNumber)(1)

    # --- LinearScale ---------------------------------------------------
    def probe(ls):
        return (
            [outcome(lambda: ls(x)) for x in XS],
            [outcome(lambda: ls.scale(x)) for x in XS[:8]],
            [outcome(lambda: ls.invert(x)) for x in XS],
            ls._domain, ls._range, ls._clamp,
            ls._interpolate is mod.d3_interpolate,
        )

    for d in pairs:
        for r in pairs[:9]:
            for c in (False, True):

                def run(d=copy.deepcopy(d), r=copy.deepcopy(r), c=c):
                    ls = mod.LinearScale(d, r, None, c)
                    return (probe(ls), ls._domain is d, ls._range is r)

                yield "LinearScale(%r, %r, clamp=%r)" % (d, r, c), run

    for c in CLAMPS:
        for d, r in (([0, 10], [100, 200]), ([10, 0], [0, 1]), ([3, 3], [1, 2])):

            def run(c=c, d=d, r=r):
                ls = mod.LinearScale(list(d), list(r), clamp=c)
                a = probe(ls)
                ret = ls.clamp(c)
                b = probe(ls)
                return (a, ret is ls, b, ls.clamp() is c or ls.clamp())

            yield "clamp=%r d=%r r=%r" % (c, d, r), run

    # setters, chaining and state after a failing rescale
    for d in pairs:

        def run(d=copy.deepcopy(d)):
            ls = mod.LinearScale()
            out = []
            before_out, before_in = ls._output, ls._input
            try:
                ret = ls.domain(d)
                out.append(("domain ok", ret is ls))
            except Exception as exc:  # noqa: BLE001
                out.append(("domain raised", type(exc).__name__,
                            ls._output is before_out, ls._input is before_in))
            out.append(probe(ls))
            before_out, before_in = ls._output, ls._input
            try:
                ret = ls.range(d)
                out.append(("range ok", ret is ls, ls.range() is d))
            except Exception as exc:  # noqa: BLE001
                out.append(("range raised", type(exc).__name__,
                            ls._output is before_out, ls._input is before_in,
                            ls.range() is d))
            out.append(probe(ls))
            try:
                out.append(("clamp", ls.clamp(True) is ls))
            except Exception as exc:  # noqa: BLE001
                out.append(("clamp raised", type(exc).__name__, ls._clamp))
            out.append(probe(ls))
            return out

        yield "setters %r" % (d,), run

    # custom interpolators: used for output only, never for invert
    def make_interp(log):
        def interp(a, b):
            log.append(("mk", a, b))
            return lambda t: (log.append(("call", t)), round(a * (1 - t) + b * t))[1]

        return interp

    for d, r in (([0, 10], [0, 100]), ([5, -5], [1.5, 9.25]), ([0, 0], [3, 4]), ([0, 1], [])):
        for c in (False, True):

            def run(d=d, r=r, c=c):
                log = []
                it = make_interp(log)
                ls = mod.LinearScale(list(d), list(r), it, c)
                res = [outcome(lambda: ls(x)) for x in XS[:10]]
                inv = [outcome(lambda: ls.invert(x)) for x in XS[:10]]
                ls2 = ls.copy()
                ls.interpolate(mod.d3_interpolateNumber)
                return (res, inv, log, ls2.interpolate() is it, ls2._domain is ls._domain,
                        [outcome(lambda: ls2(x)) for x in XS[:6]],
                        [outcome(lambda: ls(x)) for x in XS[:6]], log)

            yield "custom interpolate d=%r r=%r clamp=%r" % (d, r, c), run

    def bad_interp(a, b):
        raise RuntimeError("nope")

    def run_bad():
        ls = mod.LinearScale()
        o, i = ls._output, ls._input
        res = outcome(lambda: ls.interpolate(bad_interp))
        return (res, ls._output is o, ls._input is i, ls._interpolate is bad_interp)

    yield "failing interpolate factory", run_bad
    yield "ctor failing interpolate", lambda: mod.LinearScale(interpolate=bad_interp)

    # subclass overriding rescale hooks still sees the same protocol
    def run_sub():
        class Sub(mod.LinearScale):
            def rescale(self):
                self.n = getattr(self, "n", 0) + 1
                return super(Sub, self).rescale()

        s = Sub([0, 4], [0, 8])
        s.domain([0, 2]).range([1, 3]).clamp(True).interpolate(mod.d3_interpolate).nice()
        return (s.n, s(1), s(99), s.invert(2), s.domain())

    yield "subclass rescale count", run_sub

    # nice / ticks / copy round trip
    for d in pairs:
        if not isinstance(d, (list, tuple)):
            continue

        def run(d=copy.deepcopy(d)):
            ls = mod.LinearScale().domain(d).range([0, 300]).clamp(True)
            c = ls.copy()
            ls.nice()
            return (ls.domain(), c.domain(), ls(1), c(1), ls.invert(150), c.invert(150),
                    c._clamp, c._range is ls._range)

        yield "nice+copy %r" % (d,), run

    # TimeScale delegates to LinearScale
    base = datetime(2015, 6, 7, 8, 9, 10)
    for days in (0, 1, 30, 400, 4000):
        for c in (False, True):

            def run(days=days, c=c):
                ts = mod.TimeScale().domain([base, base + timedelta(days=days)]).range([0, 800])
                ts.clamp(c)
                pts = [base + timedelta(days=k) for k in (-10, 0, 0.5, 15, 5000)]
                return ([outcome(lambda: ts(p)) for p in pts],
                        [outcome(lambda: ts.invert(v)) for v in (-50, 0, 400, 800, 1e4)],
                        ts.clamp(), ts.range())

            yield "TimeScale days=%r clamp=%r" % (days, c), run


if __name__ == "__main__":
    sys.exit(main())
