#!/usr/bin/env python
"""Differential test for the Renderer.generatePath refactoring.

usage: equiv.py <original-checkout> <refactored-checkout>
"""
import itertools
import os
import random
import subprocess
import sys


def outcome(fn):
    try:
        return ("OK", fn())
    except Exception as exc:  # noqa
        return ("EXC", type(exc).__name__)


def worker(tree):
    sys.path.insert(0, tree)
    import labella.renderer as R
    from labella.node import Node

    assert os.path.realpath(R.__file__).startswith(os.path.realpath(tree))

    rng = random.Random(77)
    directions = ["left", "right", "up", "down", "sideways", None]
    count = 0

    def chain(depth):
        """a node with `depth` stubs stacked above it (stub = parent)"""
        root = Node(rng.choice([0, -3.25, 10, rng.uniform(-400, 400)]),
                    rng.choice([1, 50, 12.5]))
        root.currentPos = rng.choice([root.idealPos, rng.uniform(-400, 400)])
        nodes = [root]
        top = root
        for _ in range(depth):
            stub = top.createStub(rng.choice([1, 2, None]))
            stub.currentPos = rng.choice(
                [top.currentPos, rng.uniform(-400, 400)])
            nodes.append(stub)
            top = stub
        return root, nodes

    # 1. real node chains through the real getWayPoints
    for idx in range(240):
        depth = idx % 5
        d = directions[idx % len(directions)]
        opts = {"direction": d,
                "nodeHeight": rng.choice([10, 0, 7.5, -2, rng.uniform(0, 40)]),
                "layerGap": rng.choice([60, 0, 3.5, -8, rng.uniform(0, 90)])}
        root, nodes = chain(depth)
        rend = R.Renderer(opts)
        for nd in nodes:
            for tikz in (False, True):
                res = outcome(lambda: rend.generatePath(nd, tikz=tikz))
                print("P", idx, sorted(opts.items(), key=repr), tikz, res)
                count += 1
        res = outcome(lambda: rend.generatePath(root))
        print("Pd", idx, res)
        count += 1

    # 2. arbitrary waypoint shapes through an overriding subclass
    class Fixed(R.Renderer):
        def __init__(self, options, wp):
            R.Renderer.__init__(self, options)
            self.wp = wp

        def getWayPoints(self, node):
            return self.wp

    shapes = [
        [],
        [[]],
        [[[0, 1]]],
        [[[0, 1]], [[2, 3], [4, 5]]],
        [[[0, 1]], [[2, 3]]],
        [[[0, 1]], [[2, 3]], [[6, 7]]],
        [[[0, 1]], [[2, 3], [4, 5]], [[6, 7]]],
        [[[0, 1]], [[2, 3], [4, 5]], []],
        [[[0, 1]], [], [[6, 7], [8, 9]]],
        [[[0, 1], [1, 1], [9, 9.5]], [[2, 3], [4, 5]], [[6, 7], [8, 9]]],
        (([0, 1],), ((2, 3), (4, 5)), ((6, 7), (8, 9)), ((-1, -2), (-3, -4))),
        [[[0, 1]], [[2, 3], [4, "x"]], [[6, 7], [8, 9]]],
        [[[0, 1]], [["a", 3], [4, 5]], [[6, 7], [8, 9]]],
        [[[0]], [[2, 3], [4, 5]]],
        [[[0, 1, 2]], [[2, 3, 4], [4, 5, 6]], [[1, 1, 1], [2, 2, 2]]],
        [[[0.1, -0.0]], [[1e-9, 1e9], [float("inf"), float("nan")]], [[3, 4], [5, 6]]],
        None,
        5,
        "ab",
        [[[0, 1]], None],
        [[[0, 1]], [[2, 3], None], [[6, 7], [8, 9]]],
    ]
    for idx, (wp, d) in enumerate(itertools.product(shapes, directions)):
        for tikz in (False, True, 0, "yes"):
            rend = Fixed({"direction": d}, wp)
            res = outcome(lambda: rend.generatePath(object(), tikz=tikz))
            print("W", idx, d, tikz, res, repr(wp))
            count += 1

    # 3. missing option
    rend = R.Renderer({})
    del rend.options["direction"]
    print("K", outcome(lambda: rend.generatePath(Node(1, 2))))
    count += 1
    print("COUNT", count)


def main():
    if len(sys.argv) == 3 and sys.argv[1] == "--worker":
        worker(sys.argv[2])
        return 0
    orig, new = sys.argv[1], sys.argv[2]
    outs = []
    for tree in (orig, new):
        env = dict(os.environ, PYTHONPATH=tree, PYTHONHASHSEED="0")
        p = subprocess.run(
            [sys.executable, os.path.abspath(__file__), "--worker", tree],
            env=env, stdout=subprocess.PIPE, stderr=subprocess.PIPE,
            universal_newlines=True, cwd="/tmp",
        )
        if p.returncode != 0:
            print("DIFFERENT (worker crashed for %s)\n%s" % (tree, p.stderr))
            return 1
        outs.append(p.stdout.splitlines())
    a, b = outs
    diffs = [(x, y) for x, y in zip(a, b) if x != y]
    if len(a) != len(b) or diffs or len(a) < 200:
        print("DIFFERENT")
        print("lines: %d vs %d" % (len(a), len(b)))
        for x, y in diffs[:10]:
            print("- " + x)
            print("+ " + y)
        return 1
    print("EQUIVALENT (%d cases compared)" % (len(a) - 1))
    return 0


if __name__ == "__main__":
    sys.exit(main())
