#!/usr/bin/env python
"""Differential equivalence test (group D, labella/scale.py).

Usage: python equiv.py <original-checkout> <refactored-checkout>

Each tree is exercised in its own subprocess (so that the package
``labella`` is imported from exactly that tree); the printed traces are
compared line by line.
"""
import math
import os
import random
import subprocess
import sys

NAN = float("nan")
INF = float("inf")


def outcome(thunk):
    """repr of the result, or the exception type name."""
    try:
        return "ok " + repr(thunk())
    except Exception as exc:  # noqa: BLE001
        return "exc " + type(exc).__name__


def load(tree):
    tree = os.path.abspath(tree)
    sys.path.insert(0, tree)
    import labella.scale as mod

    assert os.path.abspath(mod.__file__).startswith(tree + os.sep), mod.__file__
    return mod


def main():
    if len(sys.argv) == 3 and sys.argv[1] == "--worker":
        mod = load(sys.argv[2])
        n = 0
        for label, thunk in cases(mod):
            n += 1
            print("%04d %s => %s" % (n, label, outcome(thunk)))
        return 0
    if len(sys.argv) != 3:
        print(__doc__)
        return 2
    traces = []
    for tree in sys.argv[1:3]:
        env = dict(os.environ)
        env.pop("PYTHONPATH", None)
        env["PYTHONHASHSEED"] = "0"
        proc = subprocess.run(
            [sys.executable, os.path.abspath(__file__), "--worker", tree],
            stdout=subprocess.PIPE,
            stderr=subprocess.PIPE,
            text=True,
            cwd="/",
            env=env,
        )
        if proc.returncode != 0:
            print("DIFFERENT (worker crashed on %s)" % tree)
            print(proc.stderr)
            return 1
        traces.append(proc.stdout.splitlines())
    old, new = traces
    diffs = []
    if len(old) != len(new):
        diffs.append("trace length %d vs %d" % (len(old), len(new)))
    for a, b in zip(old, new):
        if a != b:
            diffs.append("- %s\n+ %s" % (a, b))
    if len(old) < 200:
        diffs.append("only %d cases exercised" % len(old))
    if diffs:
        print("DIFFERENT")
        for d in diffs[:40]:
            print(d)
        return 1
    print("EQUIVALENT (%d cases)" % len(old))
    return 0


def domains():
    rng = random.Random(3003)
    doms = [
        [],
        [3],
        [0, 0],
        [2.5, 2.5],
        [0, 1],
        [1, 0],
        [-5, 5],
        [0, 100],
        [0, 7],
        [0, 0.15],
        [0, 0.35],
        [0, 0.75],
        [0, 1e-3],
        [-7.25, -1.5],
        [1e-9, 3e-9],
        [1e-12, 2.5e-12],
        [1e9, 3.3e12],
        [-1e-300, 1e-300],
        [0, 5e-324],
        [0, 1e308],
        [NAN, 1],
        [INF, -INF],
        [0, INF],
        [3, 2, 1],
        [4, -1, 7, 0],
        (2, 8),
        ["a", "b"],
        [None, 1],
        [True, False],
        None,
    ]
    for _ in range(50):
        scale = 10 ** rng.randint(-8, 9)
        d = [rng.uniform(-1, 1) * scale, rng.uniform(-1, 1) * scale]
        doms.append(d)
    for _ in range(15):
        doms.append([rng.randint(-300, 300), rng.randint(-300, 300)])
    return doms


MS = [None, 10, 1, 2, 3, 5, 7, 20, 100, 1000, 0.5, 0, -1, NAN, INF, "x"]
XS = [0, 1, -1, 0.5, -2.5, 1234.56789, 1e-7, -0.0, 1e21, 12345678901234567890,
      NAN, INF, -INF, True, "7", None, 0.125, 0.375, 2.675, 1e-320]


def take(gen, limit=3000):
    out = []
    for v in gen:
        out.append(v)
        if len(out) >= limit:
            out.append("...")
            break
    return out


def cases(mod):
    import copy
    from decimal import Decimal
    from fractions import Fraction

    doms = domains()
    rng = random.Random(33)

    # --- d3_scale_linearPrecision -------------------------------------
    values = [0, 0.0, -0.0, None, "", [], False, True, 1, 2, 5, 10, 100, 1000,
              0.1, 0.01, 0.001, 0.2, 0.5, 0.25, 0.05, 0.02, 1e-7, 1e-10,
              1e-300, 5e-324, 1e300, 9.9, 0.99, 0.977, 0.978, 0.98, 9.77, 9.78,
              97.7, 97.8, 0.0977, 0.0978, -1, -0.5, NAN, INF, -INF, "5", [1],
              Decimal("0.001"), Fraction(1, 8), 10 ** 400, 2 ** 70]
    for e in range(-20, 21):
        values.append(10.0 ** e)
        values.append(pow(10, e))
        values.append(2 * pow(10, e))
        values.append(5 * pow(10, e))
    for _ in range(80):
        values.append(rng.uniform(0, 1) * 10 ** rng.randint(-12, 12))
    for v in values:
        yield "linearPrecision(%r)" % (v,), (
            lambda v=v: (lambda r: (r, type(r).__name__))(mod.d3_scale_linearPrecision(v))
        )

    # --- d3_scale_niceStep --------------------------------------------
    steps = [0, 0.0, -0.0, None, "", False, True, 1, 2, 5, 10, 0.1, 0.25, 0.5,
             1e-3, 1e3, -1, -0.5, NAN, INF, "s", [2], Fraction(1, 3), 5e-324]
    pts = [0, 1, -1, 7, -7, 3.7, -3.7, 0.05, 12345.678, -0.0, 1e18, NAN, INF, "x", None]
    for st in steps:

        def run(st=st):
            nice = mod.d3_scale_niceStep(st)
            out = [sorted(nice), type(nice).__name__]
            for x in pts:
                for k in ("floor", "ceil"):
                    out.append(outcome(lambda: nice[k](x)))
            return out

        yield "niceStep(%r)" % (st,), run

    # --- tick range / format / nice through the module functions ------
    for d in doms:
        for m in MS:
            yield "tickRange(%r, %r)" % (d, m), (
                lambda d=copy.deepcopy(d), m=m: (mod.d3_scale_linearTickRange(d, m), d)
            )

            def fmt(d=copy.deepcopy(d), m=m):
                f = mod.d3_scale_linearTickFormat(d, m)
                g = mod.d3_scale_linearTickFormat(d, m, "ignored")
                return ([outcome(lambda: f(x)) for x in XS],
                        [outcome(lambda: g(x)) for x in XS[:6]],
                        outcome(lambda: f()), outcome(lambda: f(1, 2)),
                        outcome(lambda: f(x=1)), d)

            yield "linearTickFormat(%r, %r)" % (d, m), fmt
        for m in (None, 1, 4, 10, 50, 0, -3):
            yield "linearNice(%r, %r)" % (d, m), (
                lambda d=copy.deepcopy(d), m=m: (mod.d3_scale_linearNice(d, m), d)
            )
            yield "linearTicks(%r, %r)" % (d, m), (
                lambda d=copy.deepcopy(d), m=m: take(mod.d3_scale_linearTicks(d, m))
            )

    # --- LinearScale public API ---------------------------------------
    for d in doms:
        if not isinstance(d, (list, tuple)):
            continue
        for m in (None, 2, 10, 33):

            def run(d=copy.deepcopy(d), m=m):
                ls = mod.LinearScale().domain(d).range([10, 500])
                f = ls.tickFormat(m)
                t = take(ls.ticks(m), 200)
                labels = [f(v) for v in t if not isinstance(v, str)]
                ls.nice(m)
                return (labels, ls.domain(), ls(0.25), ls.invert(100))

            yield "LinearScale tickFormat/nice %r m=%r" % (d, m), run

    yield "module constant sanity", lambda: math.log(10)


if __name__ == "__main__":
    sys.exit(main())
