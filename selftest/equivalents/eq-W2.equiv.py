#!/usr/bin/env python
"""Differential test: python equiv.py <original-checkout> <refactored-checkout>

Imports the labella package from each checkout in turn, runs the layout
engine (vpsc solver, removeOverlap, Distributor, Force, Node, metrics and
the SVG / TikZ timelines) on the same seeded random and edge-case inputs and
compares every result exactly (floats through float.hex, exceptions through
type and message).
"""

import datetime
import importlib
import os
import random
import sys

MODS = [
    "labella",
    "labella.vpsc",
    "labella.removeOverlap",
    "labella.force",
    "labella.distributor",
    "labella.node",
    "labella.metrics",
    "labella.scale",
    "labella.timeline",
]
_ROOTS = set()


class NS(object):
    pass


def load(root):
    root = os.path.realpath(root)
    for k in [k for k in sys.modules if k == "labella" or k.startswith("labella.")]:
        del sys.modules[k]
    sys.path[:] = [p for p in sys.path if os.path.realpath(p or ".") not in _ROOTS]
    _ROOTS.add(root)
    sys.path.insert(0, root)
    importlib.invalidate_caches()
    ns = NS()
    for m in MODS:
        mod = importlib.import_module(m)
        setattr(ns, m.split(".")[-1], mod)
    for k, mod in list(sys.modules.items()):
        if k == "labella" or k.startswith("labella."):
            f = os.path.realpath(mod.__file__)
            assert f.startswith(root + os.sep), (k, f, root)
    return ns


# ---------------------------------------------------------------- canonical
def canon(x):
    if x is None or isinstance(x, (bool, str, bytes)):
        return x
    if isinstance(x, int):
        return ("i", x)
    if isinstance(x, float):
        return ("f", x.hex())
    if isinstance(x, (list, tuple)):
        return [type(x).__name__] + [canon(y) for y in x]
    if isinstance(x, dict):
        return ["dict"] + [[canon(k), canon(v)] for k, v in x.items()]
    if isinstance(x, (datetime.datetime, datetime.date)):
        return ("dt", repr(x))
    if hasattr(x, "idealPos") and hasattr(x, "getPathToRoot"):
        return describe_node(x, {})
    raise TypeError("cannot canonicalise %r" % type(x))


def attempt(fn, *a, **kw):
    try:
        return ["ok", canon(fn(*a, **kw))]
    except RecursionError:
        raise
    except Exception as e:  # noqa
        return ["exc", type(e).__name__, str(e)]


# ---------------------------------------------------------------- nodes
def node_key(n, idx):
    if n is None:
        return None
    depth = 0
    cur = n
    seen = 0
    while cur.child is not None and seen < 1000:
        cur = cur.child
        depth += 1
        seen += 1
    return [idx.get(id(cur), -1), depth]


def describe_node(n, idx):
    out = [type(n).__name__]
    for k, v in n.__dict__.items():
        if k in ("parent", "child"):
            out.append([k, node_key(v, idx) if v is not None else None])
        elif k == "overlaps":
            out.append([k, [node_key(m, idx) for m in v]])
        elif k == "data":
            if v is None or isinstance(v, (int, float, str, tuple)):
                out.append([k, canon(v)])
            else:
                out.append([k, type(v).__name__, canon(getattr(v, "time", None)),
                            canon(getattr(v, "width", None)), canon(getattr(v, "text", None))])
        else:
            out.append([k, canon(v)])
    return out


def describe_layers(layers, idx):
    if layers is None:
        return None
    return [[describe_node(n, idx) for n in layer] for layer in layers]


def gen_nodes(L, rng, nmax=60):
    style = rng.randrange(6)
    n = rng.choice([0, 1, 2, 3, 5, 8, 13, 21, 34, nmax])
    nodes = []
    for i in range(n):
        if style == 0:
            pos = rng.randint(0, 1000)
        elif style == 1:
            pos = rng.uniform(-50, 1050)
        elif style == 2:
            pos = rng.choice([100, 100, 101, 500, 500.5, 900])
        elif style == 3:
            pos = rng.randint(0, 60)
        elif style == 4:
            pos = rng.gauss(500, 40)
        else:
            pos = rng.choice([0, 1000, 250.25, rng.randint(0, 1000)])
        w = rng.choice([50, 50, 30, 70, 10.5, rng.randint(1, 120), rng.uniform(1, 90)])
        nodes.append(L.node.Node(pos, w, data=i))
    return nodes


def add_stubs(L, rng, nodes):
    """Returns list in which some nodes are replaced by stub ancestors."""
    out = []
    for n in nodes:
        cur = n
        k = rng.choice([0, 0, 0, 1, 2])
        for _ in range(k):
            cur = cur.createStub(rng.choice([1, 2, 5.5]))
            cur.currentPos = cur.currentPos + rng.choice([0, 3, -7.5])
        out.append(cur)
    return out


# ---------------------------------------------------------------- vpsc
def gen_vpsc(rng):
    n = rng.choice([1, 2, 3, 4, 5, 8, 12, 20, 40, 80])
    style = rng.randrange(5)
    vs = []
    for i in range(n):
        if style == 0:
            d = rng.uniform(-100, 100)
        elif style == 1:
            d = rng.randint(0, 50)
        elif style == 2:
            d = rng.choice([0, 0, 10, 10.5])
        elif style == 3:
            d = i * rng.choice([1, 10, 60]) + rng.uniform(-30, 30)
        else:
            d = rng.gauss(0, 5)
        w = rng.choice([None, None, 1, 2, rng.uniform(0.1, 10)])
        s = rng.choice([None, None, None, 1]) if rng.random() < 0.9 else rng.choice([0.5, 2, 1.5])
        vs.append((d, w, s))
    cs = []
    p = rng.choice([1.0, 1.0, 0.8, 0.5])
    for i in range(1, n):
        if rng.random() < p:
            cs.append((i - 1, i, rng.choice([3, 10, 53, rng.uniform(0, 60)]), None))
    extra = rng.choice([0, 0, 1, 3, n // 2])
    for _ in range(extra):
        if n < 2:
            break
        a, b = sorted(rng.sample(range(n), 2))
        eq = rng.choice([None, None, False, False, True]) if rng.random() < 0.4 else None
        cs.append((a, b, rng.choice([0, 5, 20.25, rng.uniform(0, 100)]), eq))
    if rng.random() < 0.15 and n >= 2:
        for _ in range(rng.choice([1, 2])):
            a, b = sorted(rng.sample(range(n), 2))
            cs.append((b, a, rng.choice([1, 10, rng.uniform(0, 30)]), rng.choice([None, None, True])))
    if rng.random() < 0.1 and n >= 2:
        cs.append((n - 1, 0, 5, None))
    wall = rng.random() < 0.3
    return vs, cs, wall


def describe_solver(s, vs, cs):
    vid = {id(v): i for i, v in enumerate(vs)}
    cid = {id(c): i for i, c in enumerate(cs)}
    out = []
    out.append(["pos", [attempt(v.position) for v in vs]])
    out.append(["var", [[canon(v.offset), canon(v.desiredPosition), canon(v.weight), canon(v.scale),
                         [cid[id(c)] for c in v.cIn], [cid[id(c)] for c in v.cOut]] for v in vs]])
    out.append(["cs", [[c.active, c.unsatisfiable, canon(getattr(c, "lm", "nolm")), canon(c.gap),
                        c.equality, vid[id(c.left)], vid[id(c.right)]] for c in cs]])
    out.append(["inactive", [cid[id(c)] for c in s.inactive]])
    if s.bs is None:
        out.append(["bs", None])
    else:
        out.append(["bs", [[canon(b.blockInd), canon(b.posn), [vid[id(v)] for v in b.vars],
                            canon(b.ps.AB), canon(b.ps.AD), canon(b.ps.A2), canon(b.ps.scale)]
                           for b in s.bs._list]])
        out.append(["owner", [s.bs._list.index(v.block) if v.block in s.bs._list else -1 for v in vs]])
    return out


def case_vpsc(L, seed):
    rng = random.Random(seed)
    V = L.vpsc
    vspec, cspec, wall = gen_vpsc(rng)
    vs = [V.Variable(d, w, s) for d, w, s in vspec]
    cs = [V.Constraint(vs[a], vs[b], g, e) for a, b, g, e in cspec]
    if wall:
        lw = V.Variable(rng.choice([0, -20, 15.5]), 1e10)
        cs.append(V.Constraint(lw, vs[0], rng.choice([25, 5.25])))
        vs = [lw] + vs
    cid = {id(c): i for i, c in enumerate(cs)}
    vid = {id(v): i for i, v in enumerate(vs)}
    out = []
    out.append(["reprs", [repr(v) for v in vs[:3]], [str(c) for c in cs[:3]]])
    solver = V.Solver(vs, cs)
    mode = rng.randrange(4)
    if mode == 0:
        out.append(["satisfy", attempt(solver.satisfy)])
        out.append(describe_solver(solver, vs, cs))
        out.append(["cost", attempt(solver.cost)])
        out.append(["satisfy2", attempt(solver.satisfy)])
    elif mode == 1:
        out.append(["solve", attempt(solver.solve)])
        # change desired positions and re-solve
        ps = [v.desiredPosition + rng.choice([0, 5, -12.5]) for v in vs]
        out.append(["setDesired", attempt(solver.setDesiredPositions, ps)])
        out.append(describe_solver(solver, vs, cs))
        out.append(["solve2", attempt(solver.solve)])
    else:
        out.append(["solve", attempt(solver.solve)])
    out.append(describe_solver(solver, vs, cs))
    if solver.bs is None:
        return out
    out.append(["cost", attempt(solver.cost), attempt(solver.bs.cost)])
    blocks = list(solver.bs._list)
    # read-only queries on blocks
    for b in blocks:
        r = attempt(lambda: (lambda m: None if m is None else cid[id(m)])(b.findMinLM()))
        out.append(["findMinLM", r, attempt(b.cost)])
        out.append(["lm", [canon(getattr(c, "lm", "nolm")) for c in cs]])
        if len(b.vars) >= 2:
            for _ in range(3):
                u, v = rng.sample(b.vars, 2)
                out.append(["path", vid[id(u)], vid[id(v)],
                            attempt(b.isActiveDirectedPathBetween, u, v),
                            attempt(b.isActiveDirectedPathBetween, v, u)])
                seen = []
                out.append(["findPath", attempt(b.findPath, u, None, v,
                                                lambda c, nx: seen.append([cid[id(c)], vid[id(nx)]])), seen])
                r = attempt(lambda: (lambda m: None if m is None else cid[id(m)])(b.findMinLMBetween(u, v)))
                out.append(["findMinLMBetween", r, [canon(getattr(c, "lm", "nolm")) for c in cs]])
            out.append(["selfpath", attempt(b.isActiveDirectedPathBetween, b.vars[0], b.vars[0])])
            out.append(["traverse", attempt(b.traverse, lambda c: cid[id(c)], [], None, None)])
        order = []
        out.append(["compute_lm", attempt(b.compute_lm, b.vars[-1], None, lambda c: order.append(cid[id(c)])), order])
        b.updateWeightedPosition()
        out.append(["uwp", canon(b.posn), canon(b.ps.AB), canon(b.ps.AD), canon(b.ps.A2)])
    if rng.random() < 0.5:
        out.append(["mostViolated", attempt(lambda: (lambda m: None if m is None else cid[id(m)])(solver.mostViolated()))])
        out.append(["inactive", [cid[id(c)] for c in solver.inactive]])
    # mutating operations
    big = [b for b in blocks if len(b.vars) >= 2]
    if big:
        b = rng.choice(big)
        op = rng.randrange(4)
        if op == 0:
            u, v = rng.sample(b.vars, 2)

            def sb():
                r = b.splitBetween(u, v)
                if r is None:
                    return None
                return [cid[id(r["constraint"])], [vid[id(x)] for x in r["lb"].vars], canon(r["lb"].posn),
                        [vid[id(x)] for x in r["rb"].vars], canon(r["rb"].posn)]
            out.append(["splitBetween", attempt(sb)])
        elif op == 1:
            act = [c for c in cs if c.active and c.left.block is b]
            if act:
                c = rng.choice(act)

                def sp():
                    bs = V.Block.split(c)
                    return [[[vid[id(x)] for x in nb.vars], canon(nb.posn), canon(nb.ps.AB), canon(nb.ps.AD),
                             canon(nb.ps.A2)] for nb in bs]
                out.append(["split", cid[id(c)], attempt(sp)])
        elif op == 2:
            st = rng.choice(b.vars)

            def csb():
                nb = V.Block.createSplitBlock(st)
                nb2 = b.createSplitBlock(st)
                return [[vid[id(x)] for x in nb.vars], canon(nb.posn), [vid[id(x)] for x in nb2.vars],
                        canon(nb2.posn), canon(nb2.ps.AB), canon(nb2.ps.AD), canon(nb2.ps.A2)]
            out.append(["createSplitBlock", attempt(csb)])
        else:
            inactive = []
            out.append(["bs.split", attempt(solver.bs.split, inactive), [cid[id(c)] for c in inactive]])
            out.append(describe_solver(solver, vs, cs))
        out.append(["offsets", [canon(v.offset) for v in vs], [attempt(v.position) for v in vs]])
    if rng.random() < 0.3:
        out.append(["resolve", attempt(solver.solve)])
        out.append(describe_solver(solver, vs, cs))
    return out


def case_vpsc_ties(L, seed):
    """Symmetric integer problems: Lagrange multipliers tie exactly."""
    rng = random.Random(seed)
    V = L.vpsc
    n = rng.choice([2, 3, 3, 4, 5, 6, 7, 9])
    D = rng.choice([0, 0, 10, -4])
    g = rng.choice([10, 4, 1, 16])
    vs = [V.Variable(D, rng.choice([None, 1])) for _ in range(n)]
    cs = [V.Constraint(vs[i - 1], vs[i], g, rng.choice([None, None, None, False])) for i in range(1, n)]
    if rng.random() < 0.2 and n > 2:
        k = rng.randrange(len(cs))
        cs[k].equality = True
    cid = {id(c): i for i, c in enumerate(cs)}
    out = []
    solver = V.Solver(vs, cs)
    out.append(["solve", attempt(solver.solve)])
    out.append(describe_solver(solver, vs, cs))
    for b in list(solver.bs._list):
        out.append(["findMinLM", attempt(lambda: (lambda m: None if m is None else cid[id(m)])(b.findMinLM())),
                    [canon(getattr(c, "lm", "nolm")) for c in cs]])
        if len(b.vars) >= 2:
            out.append(["findMinLMBetween", attempt(
                lambda: (lambda m: None if m is None else cid[id(m)])(b.findMinLMBetween(b.vars[0], b.vars[-1])))])
    K = rng.choice([2, 4, 8, -1])
    mid = (n - 1) / 2
    ps = [D + (i - mid) * K * g for i in range(n)]
    if rng.random() < 0.3:
        ps = [int(p) for p in ps]
    out.append(["setDesired", attempt(solver.setDesiredPositions, ps)])
    inactive = []
    if rng.random() < 0.5:
        out.append(["bs.split", attempt(solver.bs.split, inactive), [cid[id(c)] for c in inactive]])
        out.append(describe_solver(solver, vs, cs))
    out.append(["satisfy", attempt(solver.satisfy)])
    out.append(describe_solver(solver, vs, cs))
    out.append(["solve2", attempt(solver.solve)])
    out.append(describe_solver(solver, vs, cs))
    for b in list(solver.bs._list):
        out.append(["findMinLM2", attempt(lambda: (lambda m: None if m is None else cid[id(m)])(b.findMinLM())),
                    [canon(getattr(c, "lm", "nolm")) for c in cs]])
    return out


def case_vpsc_units(L, seed):
    rng = random.Random(seed)
    V = L.vpsc
    out = []
    ps = V.PositionStats(rng.choice([1, 2, 0.5, 1.5]))
    for _ in range(rng.randint(0, 6)):
        v = V.Variable(rng.choice([rng.uniform(-1e3, 1e3), rng.randint(-5, 5), 1e-300, 1e300]),
                       rng.choice([None, 1, 3, rng.uniform(0, 10), 1e10, 0]),
                       rng.choice([None, 1, 2, rng.uniform(0.1, 3), 0 if rng.random() < 0.1 else 1]))
        v.offset = rng.choice([0, 3, rng.uniform(-50, 50)])
        out.append(["add", attempt(ps.addVariable, v), canon(ps.AB), canon(ps.AD), canon(ps.A2)])
    out.append(["posn", attempt(ps.getPosn)])
    # Blocks construction / insert / remove
    n = rng.randint(0, 7)
    vs = [V.Variable(rng.uniform(-10, 10), rng.choice([None, 2.5]), rng.choice([None, 1, 2])) for _ in range(n)]
    if n and rng.random() < 0.3:
        vs.append(vs[0])
    if n and rng.random() < 0.1:
        vs[rng.randrange(n)].scale = 0

    def mk():
        bs = V.Blocks(vs)
        vid = {id(v): i for i, v in enumerate(vs)}
        r = [[b.blockInd, [vid[id(x)] for x in b.vars], canon(b.posn)] for b in bs._list]
        r.append(["cost", canon(bs.cost())])
        if bs._list:
            for _ in range(rng.randint(0, 3)):
                if not bs._list:
                    break
                b = rng.choice(bs._list)
                old = bs._list
                bs.remove(b)
                r.append(["rm", [x.blockInd for x in bs._list], [x.blockInd for x in old], old is bs._list])
                if rng.random() < 0.5:
                    nb = V.Block(V.Variable(1.5))
                    bs.insert(nb)
                    r.append(["ins", [x.blockInd for x in bs._list]])
            seen = []
            bs.forEach(lambda b: seen.append(b.blockInd))
            r.append(seen)
        r.append([[canon(v.offset), getattr(v, "block", None) is not None] for v in vs])
        return r
    out.append(["blocks", attempt(mk)])
    c = V.Constraint(V.Variable(1), V.Variable(2), 3, rng.choice([None, True, False]))
    out.append(["c", c.equality, c.active, c.unsatisfiable, repr(c), attempt(c.slack)])
    c.unsatisfiable = True
    out.append(["c2", attempt(c.slack)])
    s = V.Solver([], [])
    out.append(["empty", attempt(s.solve), attempt(s.mostViolated), attempt(s.setStartingPositions, [])])
    v1 = V.Variable(1)
    s1 = V.Solver([v1], [])
    out.append(["ssp", attempt(s1.setStartingPositions, [3])])
    return out


# ---------------------------------------------------------------- removeOverlap
def gen_ro_options(rng):
    r = rng.randrange(10)
    if r == 0:
        return None
    if r == 1:
        return {}
    o = {}
    if rng.random() < 0.5:
        o["minPos"] = rng.choice([None, 0, 10, -30.5, 200])
    if rng.random() < 0.6:
        o["maxPos"] = rng.choice([None, 1000, 500, 300.5, 50])
    if rng.random() < 0.4:
        o["nodeSpacing"] = rng.choice([3, 0, 10, 2.5, None if rng.random() < 0.2 else 4])
    if rng.random() < 0.4:
        o["lineSpacing"] = rng.choice([2, 0, 7, 1.5, None if rng.random() < 0.2 else 1])
    if rng.random() < 0.2:
        o["bogus"] = rng.choice([1, None, "x"])
    return o


def case_removeOverlap(L, seed):
    rng = random.Random(seed)
    base = gen_nodes(L, rng, nmax=80)
    idx = {id(n): i for i, n in enumerate(base)}
    nodes = add_stubs(L, rng, base)
    if rng.random() < 0.3:
        for n in nodes:
            n.currentPos = n.currentPos + rng.choice([0, 5, -11.5])
    rng.shuffle(nodes)
    opts = gen_ro_options(rng)
    if rng.random() < 0.03:
        opts = rng.choice([5, "ab", [("maxPos", 400)], [1]])
    snapshot = None if not isinstance(opts, dict) else dict(opts)
    out = []
    res = []

    def go():
        r = L.removeOverlap.removeOverlap(nodes, opts)
        res.append(r)
        return r is nodes
    out.append(["run", attempt(go)])
    out.append(["nodes", [describe_node(n, idx) for n in nodes]])
    out.append(["chains", [[describe_node(m, idx) for m in n.getPathToRoot()] for n in base]])
    out.append(["opts", attempt(lambda: opts), snapshot == opts if isinstance(opts, dict) else None])
    out.append(["defaults", canon(L.removeOverlap.DEFAULT_OPTIONS)])
    # second pass (positions already relaxed)
    out.append(["again", attempt(lambda: L.removeOverlap.removeOverlap(nodes, opts) is nodes)])
    out.append(["nodes2", [describe_node(n, idx) for n in nodes]])
    out.append(["last", attempt(L.removeOverlap.last, nodes)])
    if nodes:
        def ntv():
            v = L.removeOverlap.nodeToVariable(nodes[0])
            return [repr(v), v.node is nodes[0], type(v).__name__]
        out.append(["ntv", attempt(ntv)])
    return out


# ---------------------------------------------------------------- distributor
def gen_dist_options(rng):
    r = rng.randrange(8)
    if r == 0:
        return None
    o = {}
    if rng.random() < 0.7:
        o["algorithm"] = rng.choice(["overlap", "overlap", "simple", "none", "roundRobin", "bogus", None, 3])
    if rng.random() < 0.7:
        o["layerWidth"] = rng.choice([1000, 500, 300, 120.5, None, 0, 60])
    if rng.random() < 0.5:
        o["density"] = rng.choice([0.75, 0.85, 0.5, 1, 0.3])
    if rng.random() < 0.4:
        o["nodeSpacing"] = rng.choice([3, 0, 10, 2.5])
    if rng.random() < 0.4:
        o["stubWidth"] = rng.choice([1, 2, 5.5, None if rng.random() < 0.3 else 3])
    return o


def case_distributor(L, seed):
    rng = random.Random(seed)
    D = L.distributor
    nodes = gen_nodes(L, rng, nmax=70)
    idx = {id(n): i for i, n in enumerate(nodes)}
    opts = gen_dist_options(rng)
    out = []
    d = D.Distributor(opts)
    if rng.random() < 0.05:
        d.options.pop("algorithm", None)
    out.append(["options", canon(d.options), canon(D.DEFAULT_OPTIONS)])
    out.append(["crw", attempt(d.computeRequiredWidth, nodes), attempt(d.maxWidthPerLayer),
                attempt(d.estimateRequiredLayers, nodes), attempt(d.needToSplit, nodes)])
    arg = nodes
    if rng.random() < 0.05:
        arg = rng.choice([None, [], tuple(nodes)])
    res = attempt(lambda: describe_layers_raw(d.distribute(arg), idx, arg))
    out.append(["distribute", res])
    out.append(["after", [describe_node(n, idx) for n in nodes]])
    out.append(["chains", [[describe_node(m, idx) for m in n.getPathToRoot()] for n in nodes]])
    # direct calls on sorted nodes
    fresh = [n.clone() for n in nodes]
    fidx = {id(n): i for i, n in enumerate(fresh)}
    fresh_sorted = sorted(fresh, key=lambda x: x.idealPos)
    which = rng.choice(["algorithm_simple", "algorithm_overlap", "algorithm_roundRobin", "countIdealOverlaps"])
    if which == "countIdealOverlaps":
        out.append([which, attempt(d.countIdealOverlaps, fresh_sorted)])
    else:
        out.append([which, attempt(lambda: describe_layers(getattr(d, which)(fresh_sorted), fidx))])
    out.append(["fresh", [describe_node(n, fidx) for n in fresh]])
    return out


def describe_layers_raw(layers, idx, arg):
    return [["same-as-arg", any(l is arg for l in layers)], describe_layers(layers, idx)]


# ---------------------------------------------------------------- force + metrics
def gen_force_options(rng):
    r = rng.randrange(8)
    if r == 0:
        return None
    o = {}
    if rng.random() < 0.5:
        o["minPos"] = rng.choice([None, 0, 10, -30.5])
    if rng.random() < 0.7:
        o["maxPos"] = rng.choice([None, 1000, 500, 300.5, 960])
    if rng.random() < 0.6:
        o["algorithm"] = rng.choice(["overlap", "overlap", "simple", "none", "bogus"])
    if rng.random() < 0.4:
        o["density"] = rng.choice([0.75, 0.85, 0.5, 1])
    if rng.random() < 0.4:
        o["nodeSpacing"] = rng.choice([3, 0, 10, 2.5])
    if rng.random() < 0.3:
        o["stubWidth"] = rng.choice([1, 2, 5.5])
    if rng.random() < 0.2:
        o["lineSpacing"] = rng.choice([2, 5, None])
    if rng.random() < 0.2:
        o["direction"] = rng.choice(["up", "left"])
    if rng.random() < 0.1:
        o["layerWidth"] = rng.choice([400, None])
    return o


METRICS = ["displacement", "pathLength", "overflowSpace", "overDensitySpace", "overlapCount",
           "overlapSpace", "weightedAllocation", "weightedAllocatedSpace", "denominator",
           "denominatorWithoutStubs", "toLayers"]


def metric_block(L, rng, layers, idx):
    M = L.metrics
    out = []
    for arg_name, arg in (("layers", layers), ("flat", layers[0] if layers else layers)):
        for name in METRICS:
            fn = getattr(M, name)
            if name == "toLayers":
                out.append([arg_name, name, attempt(lambda: describe_layers(fn(arg), idx))])
                continue
            if name in ("denominator", "denominatorWithoutStubs") and arg_name == "flat":
                continue
            out.append([arg_name, name, attempt(fn, arg)])
        out.append([arg_name, "overflow2", attempt(M.overflowSpace, arg, rng.choice([None, 0, 100.5]),
                                                   rng.choice([None, 900, 400.25]))])
        out.append([arg_name, "overDensity2", attempt(M.overDensitySpace, arg, rng.choice([None, 0.75, 0.5]),
                                                      rng.choice([None, 1000, 200]), rng.choice([0, 2, 3.5]))])
        out.append([arg_name, "overlapCount2", attempt(M.overlapCount, arg, rng.choice([0, 2, 10.5, None]))])
    return out


def case_force(L, seed):
    rng = random.Random(seed)
    F = L.force
    nodes = gen_nodes(L, rng, nmax=70)
    idx = {id(n): i for i, n in enumerate(nodes)}
    opts = gen_force_options(rng)
    out = []
    f = F.Force(opts)
    out.append(["options", canon(f.options), canon(f.distributor.options), canon(F.DEFAULT_OPTIONS)])
    if rng.random() < 0.3:
        o2 = gen_force_options(rng)
        out.append(["set_options", attempt(f.set_options, o2), canon(f.options), canon(f.distributor.options)])
    out.append(["nodes0", attempt(lambda: len(f.nodes())), canon(f.getLayers())])
    f.nodes(nodes)
    out.append(["compute", attempt(f.compute)])
    out.append(["layers", attempt(lambda: describe_layers(f.getLayers(), idx))])
    out.append(["nodes", [describe_node(n, idx) for n in nodes], f.nodes() is nodes])
    out.append(["chains", [[describe_node(m, idx) for m in n.getPathToRoot()] for n in nodes]])
    layers = f.getLayers()
    if layers is not None:
        out.append(["metrics", metric_block(L, rng, layers, idx)])
    for name in ["overflow", "overDensity", "overlapCount", "displacement", "pathLength", "overlapSpace",
                 "weightedAllocation", "nosuch"]:
        out.append(["metric", name, attempt(f.metric, name)])
    out.append(["metrics()", attempt(f.metrics)])
    if rng.random() < 0.4:
        # recompute (stubs are removed and re-created)
        out.append(["compute2", attempt(f.compute)])
        out.append(["layers2", attempt(lambda: describe_layers(f.getLayers(), idx))])
    return out


def case_metrics(L, seed):
    rng = random.Random(seed)
    base = gen_nodes(L, rng, nmax=40)
    idx = {id(n): i for i, n in enumerate(base)}
    nodes = add_stubs(L, rng, base)
    for n in nodes:
        if rng.random() < 0.6:
            n.currentPos = n.currentPos + rng.choice([0, 5, -11.5, rng.uniform(-40, 40)])
    k = rng.choice([1, 1, 2, 3])
    layers = [[] for _ in range(k)]
    for n in nodes:
        layers[rng.randrange(k)].append(n)
    out = [["m", metric_block(L, rng, layers, idx)]]
    out.append(["empty", metric_block(L, rng, [], idx)])
    out.append(["none", [attempt(getattr(L.metrics, m), None) for m in METRICS]])
    return out


# ---------------------------------------------------------------- node
def case_node(L, seed):
    rng = random.Random(seed)
    N = L.node.Node
    base = gen_nodes(L, rng, nmax=10)
    if not base:
        base = [N(rng.uniform(0, 10), rng.choice([0, 5, 2.5]), data="d")]
    idx = {id(n): i for i, n in enumerate(base)}
    tops = add_stubs(L, rng, base)
    every = []
    for n in base:
        every.extend(n.getPathToRoot())
    for n in every:
        if rng.random() < 0.5:
            n.currentPos = rng.choice([n.currentPos + 3, rng.uniform(0, 1000), rng.randint(0, 1000)])
        if rng.random() < 0.2:
            n.layerIndex = rng.randint(0, 4)
            n.targetPos = 12.5
            n.overlapCount = 3
            n.x = 1.5
    out = []
    for n in every:
        o = rng.choice(every)
        r = [repr(n), str(n)]
        r.append(attempt(n.distanceFrom, o))
        r.append(attempt(n.displacement))
        for buf in (None, 0, 3, 2.5, -4):
            r.append(attempt(n.overlapWithNode, o, buf))
            r.append(attempt(n.positionBefore, o, buf))
            r.append(attempt(n.positionAfter, o, buf))
        r.append(attempt(n.overlapWithNode, o))
        for p in (n.currentPos, n.currentPos - n.width / 2, n.currentPos + n.width / 2, rng.uniform(0, 1000)):
            r.append(attempt(n.overlapWithPoint, p))
        r.append([canon(n.currentRight()), canon(n.currentLeft()), canon(n.idealRight()), canon(n.idealLeft())])
        r.append(n.isStub())
        r.append([node_key(m, idx) for m in n.getPathToRoot()])
        r.append([node_key(m, idx) for m in n.getPathFromRoot()])
        r.append(attempt(n.getPathToRootLength))
        r.append(node_key(n.getRoot(), idx))
        r.append(n.getRoot() is n.getPathToRoot()[-1])
        r.append(canon(n.getLayerIndex()))
        c = n.clone()
        r.append(["clone", describe_node(c, {}), type(c) is N, c is not n])
        out.append(r)
    # mutators
    for n in rng.sample(every, min(3, len(every))):
        op = rng.randrange(3)
        if op == 0:
            r = n.removeStub()
            out.append(["removeStub", r is n])
        elif op == 1:
            s = n.createStub(rng.choice([None, 1, 4.5]))
            out.append(["createStub", describe_node(s, idx), s.child is n, n.parent is s])
        else:
            n.moveToIdealPosition()
            out.append(["move"])
        out.append([[describe_node(m, idx) for m in b.getPathToRoot()] for b in base])
    return out


# ---------------------------------------------------------------- timelines
WORDS = ["alpha", "beta", "gamma delta", "x", "Café", "A & B", "50%", "long label text here", ""]


def gen_timeline(L, rng):
    numeric = rng.random() < 0.4
    n = rng.choice([1, 2, 3, 6, 10, 18, 30, 45])
    items = []
    base = datetime.datetime(rng.randint(1950, 2100), rng.randint(1, 12), rng.randint(1, 28))
    span = rng.choice([1, 30, 400, 5000])
    for i in range(n):
        if numeric:
            t = rng.choice([rng.randint(0, 100), rng.uniform(0, 100), rng.choice([10, 10, 50])])
        else:
            t = base + datetime.timedelta(days=rng.uniform(0, span) if rng.random() < 0.8 else rng.choice([0, span]))
            if rng.random() < 0.1:
                t = t.date()
        d = {"time": t, "width": rng.choice([50, 30, 80, 20.5, rng.randint(5, 120)])}
        if rng.random() < 0.7:
            d["text"] = rng.choice(WORDS)
        items.append(d)
    o = {}
    if rng.random() < 0.8:
        o["direction"] = rng.choice(["right", "left", "up", "down"])
    if rng.random() < 0.5:
        o["initialWidth"] = rng.choice([400, 800, 250])
    if rng.random() < 0.5:
        o["initialHeight"] = rng.choice([400, 600, 200])
    if rng.random() < 0.3:
        o["layerGap"] = rng.choice([60, 30, 45.5])
    if rng.random() < 0.2:
        o["showTicks"] = False
    if rng.random() < 0.2:
        o["showBorder"] = True
    lab = {}
    if rng.random() < 0.6:
        lab["maxPos"] = rng.choice([360, 760, 200, None, 500.5])
    if rng.random() < 0.3:
        lab["minPos"] = rng.choice([0, None, 10])
    if rng.random() < 0.5:
        lab["algorithm"] = rng.choice(["overlap", "simple", "none", "overlap"])
    if rng.random() < 0.3:
        lab["density"] = rng.choice([0.75, 0.5, 1])
    if rng.random() < 0.3:
        lab["nodeSpacing"] = rng.choice([3, 0, 8])
    if rng.random() < 0.3:
        lab["stubWidth"] = rng.choice([1, 3])
    if rng.random() < 0.2:
        lab["lineSpacing"] = rng.choice([2, 6])
    if lab or rng.random() < 0.5:
        o["labella"] = lab
    return items, o, numeric


def case_timeline(L, seed):
    rng = random.Random(seed)
    items, o, numeric = gen_timeline(L, rng)
    kind = rng.choice(["svg", "tex"])
    out = [kind]

    def go():
        opts = dict(o)
        if numeric:
            opts["scale"] = L.scale.LinearScale()
        if kind == "svg":
            tl = L.timeline.TimelineSVG(items, options=opts)
            return tl.export()
        tl = L.timeline.TimelineTex(items, options=opts)
        return tl.export()
    out.append(attempt(go))
    return out


# ---------------------------------------------------------------- driver
SUITES = [
    ("vpsc", case_vpsc, 2500),
    ("vpsc_units", case_vpsc_units, 800),
    ("vpsc_ties", case_vpsc_ties, 400),
    ("removeOverlap", case_removeOverlap, 1500),
    ("distributor", case_distributor, 800),
    ("force", case_force, 700),
    ("metrics", case_metrics, 600),
    ("node", case_node, 600),
    ("timeline", case_timeline, 800),
]


def run_all(root):
    L = load(root)
    results = []
    for name, fn, count in SUITES:
        for seed in range(count):
            try:
                results.append((name, seed, fn(L, seed * 7919 + 13)))
            except RecursionError:
                raise
            except Exception as e:  # harness-level failure is still compared
                results.append((name, seed, ["HARNESS-EXC", type(e).__name__, str(e)]))
    return results


def first_diff(a, b, path=""):
    if type(a) != type(b):
        return "%s: %r != %r" % (path, a, b)
    if isinstance(a, (list, tuple)):
        if len(a) != len(b):
            for i, (x, y) in enumerate(zip(a, b)):
                d = first_diff(x, y, "%s[%d]" % (path, i))
                if d:
                    return d
            return "%s: length %d != %d" % (path, len(a), len(b))
        for i, (x, y) in enumerate(zip(a, b)):
            d = first_diff(x, y, "%s[%d]" % (path, i))
            if d:
                return d
        return None
    if a != b:
        return "%s: %r != %r" % (path, a, b)
    return None


def main():
    if len(sys.argv) != 3:
        print("usage: equiv.py <original-checkout> <refactored-checkout>")
        return 2
    sys.setrecursionlimit(5000)
    ra = run_all(sys.argv[1])
    rb = run_all(sys.argv[2])
    if len(ra) != len(rb):
        print("DIFFERENT number of cases: %d vs %d" % (len(ra), len(rb)))
        return 1
    harness_exc = 0
    for (na, sa, xa), (nb, sb, xb) in zip(ra, rb):
        assert (na, sa) == (nb, sb)
        if xa != xb:
            print("DIFFERENCE in suite %s seed %d" % (na, sa))
            print(str(first_diff(xa, xb))[:2000])
            return 1
        if xa and xa[0] == "HARNESS-EXC":
            harness_exc += 1
    if harness_exc:
        print("harness exceptions in %d cases (identical in both trees)" % harness_exc, file=sys.stderr)
    print("EQUIVALENT (%d cases)" % len(ra))
    return 0


if __name__ == "__main__":
    sys.exit(main())
