#!/usr/bin/env python
"""Differential equivalence test (see meta.json for the refactoring).

Usage: python equiv.py <original-checkout> <refactored-checkout>
"""
import datetime
import importlib
import math
import sys
import types


def load_tree(path):
    """Import the labella package found in `path`; return {modname: module}.

    The package uses absolute imports, so both trees are imported under the
    real name one after the other and sys.modules is purged in between.
    """
    def purge():
        for k in list(sys.modules):
            if k == "labella" or k.startswith("labella."):
                del sys.modules[k]

    purge()
    sys.path.insert(0, path)
    try:
        importlib.invalidate_caches()
        for name in ("labella.utils", "labella.tex", "labella.timeline",
                     "labella.scale", "labella.node"):
            importlib.import_module(name)
        mods = {k: v for k, v in sys.modules.items()
                if k == "labella" or k.startswith("labella.")}
    finally:
        sys.path.remove(path)
        purge()
    for m in mods.values():
        f = getattr(m, "__file__", None)
        assert f is None or f.startswith(path.rstrip("/") + "/"), (f, path)
    return mods


def canon(x, depth=0):
    """Turn a value into a comparable, tree-independent structure."""
    if depth > 8:
        return "<deep>"
    if isinstance(x, bool) or x is None or isinstance(x, (int, str, bytes)):
        return (type(x).__name__, x)
    if isinstance(x, float):
        return ("float", "nan" if math.isnan(x) else x.hex())
    if isinstance(x, (datetime.datetime, datetime.date, datetime.time)):
        return (type(x).__name__, x.isoformat())
    if isinstance(x, tuple):
        return ("tuple", [canon(v, depth + 1) for v in x])
    if isinstance(x, list):
        return ("list", [canon(v, depth + 1) for v in x])
    if isinstance(x, dict):
        return ("dict", [(canon(k, depth + 1), canon(v, depth + 1))
                         for k, v in x.items()])
    if isinstance(x, BaseException):
        return ("EXC", type(x).__name__, str(x))
    name = type(x).__name__
    if name in ("Item", "Node", "LinearScale", "TimeScale", "Renderer"):
        d = {}
        for k, v in vars(x).items():
            if isinstance(v, (types.FunctionType, types.BuiltinFunctionType,
                              types.MethodType)):
                continue
            if name == "Node" and k in ("parent", "child", "overlap"):
                # avoid cycles through the stub links
                v = None if v is None else "<node>"
            d[k] = v
        return (name, canon(d, depth + 1))
    if callable(x):
        return ("callable", getattr(x, "__name__", "?"))
    return ("obj", name, repr(x))


def attempt(fn, *args, **kwargs):
    try:
        return ("OK", canon(fn(*args, **kwargs)))
    except Exception as e:  # noqa
        return canon(e)


def compare(res_a, res_b):
    ok = True
    if len(res_a) != len(res_b):
        print("DIFFERENT: number of results %d vs %d" % (len(res_a), len(res_b)))
        return False
    ndiff = 0
    for (la, ra), (lb, rb) in zip(res_a, res_b):
        if la != lb or ra != rb:
            ok = False
            ndiff += 1
            if ndiff <= 20:
                print("DIFFERENT at %s\n   original : %r\n   refactored: %r"
                      % (la, ra, rb))
    return ok


def main(run):
    if len(sys.argv) != 3:
        print(__doc__)
        sys.exit(2)
    orig = run(load_tree(sys.argv[1]))
    new = run(load_tree(sys.argv[2]))
    if compare(orig, new):
        print("EQUIVALENT (%d cases)" % len(orig))
        sys.exit(0)
    print("DIFFERENT")
    sys.exit(1)


def inputs():
    hexd = "0123456789abcdefABCDEF"
    codes = []
    # deterministic pseudo-random hex strings (LCG), 3 and 6 digits, +/- '#'
    state = 12345
    def nxt():
        nonlocal state
        state = (state * 1103515245 + 12345) % (2 ** 31)
        return state
    for n in range(120):
        length = (3, 6, 6, 3, 4, 5, 7, 2, 1, 8)[n % 10]
        body = "".join(hexd[nxt() % len(hexd)] for _ in range(length))
        codes.append(body if n % 3 == 0 else "#" + body)
    codes += [
        "", "#", "##", "###", "####", "#######", "#fff", "fff", "#FFF", "#000",
        "#ffffff", "000000", "#1f77b4", "#aec7e8", "#zzz", "zzz", "#zzzzzz",
        "#12", "#1", "1", "12", "#1234", "#12345", "#1234567", "#12345678",
        " ff", "# ff", "#+f+f+f", "+f+f+f", "#-1-1-1", "#0x0x0x", "0x1", "#0x1",
        "#f f", "f_f", "#f_f_f_", "#abç", "#ÀÁÂ", "#ßßß", "#ııı", "#ǆǆǆ",
        "#١٢٣", "#١٢٣٤٥٦", "#fff\n", "\n", "#\t\t\t", "#ab", "#abcdefabcdef",
    ]
    nonstr = [
        None, 0, 255, 1.5, b"", b"#", b"fff", b"#fff", b"ffffff", b"#ffffff",
        b"12", [], ["#"], ["f", "f", "f"], ["#", "f", "f", "f"],
        ["ab", "c", "d"], ["#", "ab", "cd", "ef"], ["a", "b"], [1, 2, 3],
        ["#", 1, 2, 3], [None, None, None], ("f", "f", "f"), ("#", "a", "b", "c"),
        ("a", "b", "c", "d", "e", "f"), ["a", "b", "c", "d", "e", "f"],
        {}, {"a": 1}, bytearray(b"abc"), bytearray(b"#abcdef"), True,
    ]
    ints = list(range(-5, 130)) + [
        675, 676, 677, 701, 702, 703, 704, 17575, 17576, 18277, 18278, 18279,
        475253, 475254, 475255, 10 ** 9, 10 ** 18, 2 ** 64, 26 ** 12 - 1,
        26 ** 12, 26 ** 30 + 17, -1, -26, -27, -10 ** 12,
    ]
    for k in range(1, 40):
        ints.append(26 ** (k % 9) * k + (k * 7919) % 26)
    odd_ints = [
        True, False, 0.0, 1.0, 1.5, -1.0, -0.5, 25.0, 26.0, 1e20,
        float("inf"), float("-inf"), float("nan"), None, "a", "", [], (),
        1j, b"1",
    ]
    return codes, nonstr, ints, odd_ints


def run(mods):
    utils = mods["labella.utils"]
    codes, nonstr, ints, odd_ints = inputs()
    res = []
    for fname in ("hex2rgb", "hex2rgbf", "hex2rgbstr", "hex2html"):
        fn = getattr(utils, fname)
        for c in codes:
            res.append(("%s(%r)" % (fname, c), attempt(fn, c)))
        for c in nonstr:
            before = repr(c)
            res.append(("%s(%s)" % (fname, before), attempt(fn, c)))
            # arguments must not be mutated
            res.append(("%s(%s) arg-after" % (fname, before), repr(c)))
    for i in ints + odd_ints:
        res.append(("int2name(%r)" % (i,), attempt(utils.int2name, i)))
    # every palette colour through every converter
    for pal in ("COLOR_10", "COLOR_20"):
        for c in getattr(utils, pal):
            for fname in ("hex2rgb", "hex2rgbstr", "hex2html", "hex2rgbf"):
                res.append(("%s %s %s" % (pal, fname, c),
                            attempt(getattr(utils, fname), c)))
    return res


if __name__ == "__main__":
    main(run)
