#!/usr/bin/env python
# -*- coding: utf-8 -*-
"""Differential test for labella/scale.py and labella/d3_time.py.

Usage: python equiv.py <original-checkout> <refactored-checkout>

The labella package is imported from each of the two directories in turn, the
same seeded battery of randomised and edge-case calls is run in both, and the
canonicalised results (floats via float.hex, exception type + message) are
compared exactly.
"""

import itertools
import os
import random
import sys
import types

from datetime import date as date_cls
from datetime import datetime
from datetime import timedelta

SEED = 20261001
GEN_CAP = 5000


# ---------------------------------------------------------------- import ----


def load(root):
    root = os.path.realpath(root)
    for name in list(sys.modules):
        if name == "labella" or name.startswith("labella."):
            del sys.modules[name]
    sys.path.insert(0, root)
    try:
        import labella
        import labella.scale as scale
        import labella.d3_time as d3t
    finally:
        sys.path.remove(root)
    for mod in (labella, scale, d3t):
        path = os.path.realpath(mod.__file__)
        assert path.startswith(root + os.sep), (path, root)
    return scale, d3t


# ----------------------------------------------------------------- canon ----


def canon(v, depth=0):
    if depth > 8:
        return ("deep",)
    if v is None:
        return ("none",)
    if isinstance(v, bool):
        return ("b", v)
    if isinstance(v, int):
        return ("i", v)
    if isinstance(v, float):
        return ("f", v.hex())
    if isinstance(v, str):
        return ("s", v)
    if isinstance(v, datetime):
        return ("dt", v.isoformat(), repr(v.tzinfo))
    if isinstance(v, date_cls):
        return ("d", v.isoformat())
    if isinstance(v, timedelta):
        return ("td", v.days, v.seconds, v.microseconds)
    if isinstance(v, list):
        return ("L", [canon(x, depth + 1) for x in v])
    if isinstance(v, tuple):
        return ("T", [canon(x, depth + 1) for x in v])
    if isinstance(v, dict):
        return (
            "D",
            [(canon(k, depth + 1), canon(v[k], depth + 1)) for k in v],
        )
    if isinstance(v, types.GeneratorType):
        out = []
        try:
            for x in itertools.islice(v, GEN_CAP):
                out.append(canon(x, depth + 1))
        except Exception as exc:  # noqa
            out.append(("raised", type(exc).__name__, str(exc)))
        return ("G", out)
    cname = type(v).__name__
    if cname == "LinearScale":
        return (
            "LinearScale",
            canon(v._domain, depth + 1),
            canon(v._range, depth + 1),
            canon(v._clamp, depth + 1),
            getattr(v._interpolate, "__name__", "?"),
        )
    if cname == "TimeScale":
        return (
            "TimeScale",
            canon(v._linear, depth + 1),
            len(v._methods),
            callable(v._format),
        )
    if cname == "d3_time_interval":
        return ("interval",)
    if cname == "d3TimeScaleMilliseconds":
        return ("msinterval",)
    if callable(v):
        return ("callable",)
    return ("obj", cname)


class Recorder(object):
    def __init__(self):
        self.records = []

    def call(self, label, fn, *args, **kwargs):
        try:
            res = ("ok", canon(fn(*args, **kwargs)))
        except RecursionError:
            raise
        except Exception as exc:  # noqa
            res = ("exc", type(exc).__name__, str(exc))
        self.records.append((label, res))
        return res

    def note(self, label, value):
        self.records.append((label, ("val", canon(value))))


# ------------------------------------------------------------ generators ----


def rand_float(rng):
    kind = rng.randrange(10)
    if kind == 0:
        return float(rng.randint(-1000, 1000))
    if kind == 1:
        return rng.uniform(-1, 1)
    if kind == 2:
        return rng.uniform(-1e6, 1e6)
    if kind == 3:
        return rng.uniform(-1e-6, 1e-6)
    if kind == 4:
        return rng.choice([0.0, -0.0, 1.0, -1.0, 0.1, 0.5, 1e300, 1e-300])
    if kind == 5:
        return rng.randint(-50, 50)  # a genuine int
    if kind == 6:
        return rng.uniform(0, 100)
    if kind == 7:
        return rng.uniform(1e3, 1e12)
    if kind == 8:
        return round(rng.uniform(-100, 100), rng.randrange(4))
    return rng.gauss(0, 10)


LO = datetime(1900, 1, 1)
# nice() walks past the upper end of the domain; the library stalls for
# ever on 1 Jan 2243..2248 (float rounding in dt2milli), in both trees alike,
# so the generated domains stop at 1 Jan 2200.
HI = datetime(2200, 1, 1)
TOTAL_MS = int((HI - LO).total_seconds() * 1000)

SPANS_MS = [
    1,
    2,
    7,
    10,
    50,
    333,
    1000,
    5000,
    15000,
    45000,
    60000,
    5 * 60000,
    20 * 60000,
    3600000,
    3 * 3600000,
    8 * 3600000,
    86400000,
    2 * 86400000,
    5 * 86400000,
    7 * 86400000,
    20 * 86400000,
    31 * 86400000,
    90 * 86400000,
    200 * 86400000,
    365 * 86400000,
    3 * 365 * 86400000,
    10 * 365 * 86400000,
    40 * 365 * 86400000,
    100 * 365 * 86400000,
    250 * 365 * 86400000,
]


def rand_dt(rng, whole=None):
    ms = rng.randrange(TOTAL_MS)
    d = LO + timedelta(milliseconds=ms)
    mode = rng.randrange(8) if whole is None else whole
    if mode == 0:
        d = d.replace(microsecond=0)
    elif mode == 1:
        d = d.replace(second=0, microsecond=0)
    elif mode == 2:
        d = d.replace(minute=0, second=0, microsecond=0)
    elif mode == 3:
        d = d.replace(hour=0, minute=0, second=0, microsecond=0)
    elif mode == 4:
        d = d.replace(day=1, hour=0, minute=0, second=0, microsecond=0)
    elif mode == 5:
        d = d.replace(
            month=1, day=1, hour=0, minute=0, second=0, microsecond=0
        )
    elif mode == 6:
        d = d + timedelta(microseconds=rng.randrange(1000))
    return d


def rand_dt_pair(rng):
    span = rng.choice(SPANS_MS)
    if rng.random() < 0.5:
        span = int(span * rng.uniform(0.3, 3.0)) or 1
    a = rand_dt(rng)
    b = a + timedelta(milliseconds=span)
    if b > HI:
        b = a
        a = b - timedelta(milliseconds=span)
    if a < LO:
        a = LO
    if rng.random() < 0.05:
        b = a
    if rng.random() < 0.35:
        a, b = b, a
    return a, b


EDGE_DATES = [
    datetime(1970, 1, 1),
    datetime(1969, 12, 31, 23, 59, 59, 999000),
    datetime(1900, 1, 1),
    datetime(2000, 2, 29),
    datetime(2000, 2, 29, 12, 30, 30, 500000),
    datetime(1999, 12, 31, 23, 59, 59, 999999),
    datetime(2100, 2, 28, 23, 59, 59),
    datetime(2016, 1, 31),
    datetime(2016, 12, 31, 23, 0, 0),
    datetime(2017, 1, 1),  # a sunday
    datetime(2017, 1, 8),
    datetime(2023, 1, 1, 0, 0, 0),
    datetime(2023, 10, 1, 0, 0, 0),
    datetime(2023, 10, 1, 13, 0, 0),
    datetime(2023, 10, 2, 0, 0, 0),
    datetime(2023, 10, 2, 0, 5, 0),
    datetime(2023, 10, 2, 0, 5, 7),
    datetime(2023, 10, 2, 0, 5, 7, 123456),
    datetime(2199, 12, 31, 23, 59, 59, 999000),
    datetime(1, 1, 1),
    datetime(9999, 12, 31, 23, 59, 59),
]


# ------------------------------------------------------------- batteries ----


def battery_helpers(scale, R, rng):
    """Module level helpers of labella.scale."""
    R.note("steps", list(scale.d3_time_scaleSteps))
    R.note("nmethods", [m[1] for m in scale.d3_time_scaleLocalMethods])
    R.note("EPOCH", scale.EPOCH)
    R.call("identity", scale.d3_identity, 3.5)

    for k in range(300):
        x = rand_float(rng)
        R.call("milli2dt", scale.milli2dt, x * rng.choice([1, 1e3, 1e6, 1e9]))
        d = rand_dt(rng)
        R.call("dt2milli", scale.dt2milli, d)
        R.call("roundtrip", lambda d=d: scale.milli2dt(scale.dt2milli(d)))
    for d in EDGE_DATES:
        R.call("dt2milli-edge", scale.dt2milli, d)
    for bad in (None, "x", 1e300, float("nan"), float("inf")):
        R.call("milli2dt-bad", scale.milli2dt, bad)
        R.call("dt2milli-bad", scale.dt2milli, bad)

    for k in range(300):
        a, b, c = rand_float(rng), rand_float(rng), rand_float(rng)
        R.call("drange", scale.drange, a, a + abs(b), abs(c) + 0.01 * abs(b) + 1e-3)
        R.call("drange-default", scale.drange, rng.randint(-5, 5), rng.randint(-5, 30))
        R.call("unNumber", lambda: scale.d3_uninterpolateNumber(a, b)(c))
        R.call("unClamp", lambda: scale.d3_uninterpolateClamp(a, b)(c))
        R.call("unNumber-eq", lambda: scale.d3_uninterpolateNumber(a, a)(c))
        R.call("unClamp-eq", lambda: scale.d3_uninterpolateClamp(a, a)(c))
        R.call("interpNumber", lambda: scale.d3_interpolateNumber(a, b)(c))
        R.call("interp", lambda: scale.d3_interpolate(a, b)(c))
        R.call(
            "bilinear",
            lambda: scale.d3_scale_bilinear(
                [a, b],
                [c, a],
                scale.d3_uninterpolateNumber,
                scale.d3_interpolate,
            )(rand_float(rng)),
        )
        R.call("ascending", scale.d3_ascending, a, b)
        R.call("ascending-eq", scale.d3_ascending, a, a)
        R.call("zfrs", scale.zero_fill_right_shift, rng.randint(-(2 ** 40), 2 ** 40), rng.randint(0, 8))
    R.call("ascending-nan", scale.d3_ascending, float("nan"), 1.0)
    R.call("ascending-bad", scale.d3_ascending, None, 1.0)

    # d3_extent
    for k in range(200):
        n = rng.randint(1, 8)
        data = [{"t": rand_float(rng)} for _ in range(n)]
        R.call("extent", scale.d3_extent, data, lambda d: d["t"])
        dates = [{"t": rand_dt(rng)} for _ in range(n)]
        R.call("extent-dt", scale.d3_extent, dates, lambda d: d["t"])
        calls = []

        def fn(d, calls=calls):
            calls.append(d["t"])
            return d["t"]

        R.call("extent-calls", scale.d3_extent, data, fn)
        R.note("extent-calls-log", calls)
    R.call("extent-empty", scale.d3_extent, [], lambda d: d)
    R.call("extent-bad", scale.d3_extent, None, lambda d: d)
    R.call("extent-badfn", scale.d3_extent, [1, 2], None)
    R.call("extent-mixed", scale.d3_extent, [1, "a"], lambda d: d)
    R.call("extent-gen", scale.d3_extent, (x for x in [3, 1, 2]), lambda d: d)

    # d3_scaleExtent / d3_scale_nice / niceStep
    for k in range(300):
        n = rng.choice([2, 2, 2, 3, 4, 1])
        dom = [rand_float(rng) for _ in range(n)]
        R.call("scaleExtent", scale.d3_scaleExtent, list(dom))
        step = rng.choice([0, 0.0, 1, 2, 5, 10, 0.1, 0.25, 2.5, 1e-3, 1e3, None, rand_float(rng)])
        R.call("niceStep-floor", lambda: scale.d3_scale_niceStep(step)["floor"](dom[0]))
        R.call("niceStep-ceil", lambda: scale.d3_scale_niceStep(step)["ceil"](dom[0]))
        R.call("niceStep-keys", lambda: sorted(scale.d3_scale_niceStep(step)))
        d2 = list(dom)
        res = R.call("scale_nice", lambda: scale.d3_scale_nice(d2, scale.d3_scale_niceStep(step)))
        R.note("scale_nice-state", d2)
        d3 = list(dom)
        R.call("scale_nice-same-object", lambda: scale.d3_scale_nice(d3, scale.d3_scale_niceStep(1)) is d3)
    R.call("scaleExtent-empty", scale.d3_scaleExtent, [])
    R.call("scaleExtent-tuple", scale.d3_scaleExtent, (3, 1))
    R.call("scale_nice-empty", scale.d3_scale_nice, [], scale.d3_scale_niceStep(1))
    R.call("scale_nice-tuple", scale.d3_scale_nice, (1.2, 3.4), scale.d3_scale_niceStep(1))
    R.call("scale_nice-badnice", scale.d3_scale_nice, [1.2, 3.4], None)
    R.call("scale_nice-partial", scale.d3_scale_nice, [1.2, 3.4], {"floor": lambda x: x})

    # linear tick range & friends
    ms = [None, 1, 2, 3, 5, 7, 10, 11, 20, 50, 100, 0, -1, 2.5, 0.5]
    for k in range(700):
        n = rng.choice([2, 2, 2, 2, 3, 1])
        dom = [rand_float(rng) for _ in range(n)]
        if rng.random() < 0.2:
            dom = [float(rng.randint(-20, 20)), float(rng.randint(-20, 20))]
        if rng.random() < 0.05:
            dom[-1] = dom[0]
        m = rng.choice(ms)
        d = list(dom)
        R.call("tickRange", scale.d3_scale_linearTickRange, d, m)
        R.note("tickRange-dom", d)
        R.call("tickRange-default", scale.d3_scale_linearTickRange, list(dom))
        R.call("linearTicks", scale.d3_scale_linearTicks, list(dom), m)
        xs = [rand_float(rng) for _ in range(3)] + [dom[0], dom[-1]]
        R.call(
            "linearTickFormat",
            lambda: [scale.d3_scale_linearTickFormat(list(dom), m)(x) for x in xs],
        )
        R.call(
            "linearTickFormat-fmt",
            lambda: scale.d3_scale_linearTickFormat(list(dom), m, "e")(xs[0]),
        )
        d = list(dom)
        R.call("linearNice", scale.d3_scale_linearNice, d, m)
        R.note("linearNice-dom", d)
        d = list(dom)
        R.call("linearNice-default", scale.d3_scale_linearNice, d)
        R.note("linearNice-default-dom", d)
        R.call("precision", scale.d3_scale_linearPrecision, abs(dom[0]))
        R.call("precision-raw", scale.d3_scale_linearPrecision, dom[0])
    for v in (0, 0.0, None, 1, 10, 100, 0.1, 0.01, 0.001, 1e-7, 5, 2.5, 0.25, float("inf"), float("nan"), -1, "a"):
        R.call("precision-edge", scale.d3_scale_linearPrecision, v)
    for dom in ([float("nan"), 1.0], [0.0, float("inf")], [float("-inf"), float("inf")], [], ["a", "b"], [None, 1], [1e308, -1e308]):
        R.call("tickRange-edge", scale.d3_scale_linearTickRange, list(dom), 10)
        R.call("linearTicks-edge", scale.d3_scale_linearTicks, list(dom), 10)
        R.call("linearNice-edge", scale.d3_scale_linearNice, list(dom), 10)
        R.call("tickFormat-edge", lambda: scale.d3_scale_linearTickFormat(list(dom), 10)(1.5))

    # bisect
    for k in range(400):
        n = rng.randint(0, 12)
        arr = sorted(rand_float(rng) for _ in range(n))
        x = rand_float(rng) if (not arr or rng.random() < 0.6) else rng.choice(arr)
        R.call("bisect", scale.d3_bisect, arr, x)
        lo = rng.randint(0, n)
        hi = rng.randint(lo, n)
        R.call("bisect-lohi", scale.d3_bisect, arr, x, lo, hi)
    for t in (0, 1, 999.9, 1e3, 1e3 + 1, 6e4, 31536e6, 1e20, -5, float("nan"), float("inf")):
        R.call("bisect-steps", scale.d3_bisect, scale.d3_time_scaleSteps, t)
    R.call("bisect-bad", scale.d3_bisect, [1, 2, 3], None)
    R.call("bisect-bad2", scale.d3_bisect, None, 1)
    R.call("bisect-oob", scale.d3_bisect, [1, 2, 3], 2, 0, 10)

    # milliseconds pseudo-interval
    msi = scale.d3_time_scaleMilliseconds
    for k in range(400):
        a = rand_dt(rng)
        span = rng.randint(0, 400)
        b = a + timedelta(milliseconds=span, microseconds=rng.choice([0, 0, 500]))
        step = rng.choice([1, 2, 5, 10, 20, 50, 100, 1.0, 2.0, 2.5, 0.5, 0, -1, 7, 3.9])
        R.call("ms-range", msi.range, a, b, step)
        R.call("ms-range-rev", msi.range, b, a, step)
        R.call("ms-floor", msi.floor, a)
        R.call("ms-ceil", msi.ceil, a)
    R.call("ms-range-bad-start", msi.range, None, EDGE_DATES[0], 1)
    R.call("ms-range-bad-stop", msi.range, EDGE_DATES[0], None, 1)
    R.call("ms-range-bad-step", msi.range, EDGE_DATES[0], EDGE_DATES[1], None)
    R.call("ms-range-bad-step2", msi.range, EDGE_DATES[0], EDGE_DATES[1], "a")
    R.call("ms-range-bad-both", msi.range, None, None, None)
    R.call("ms-range-bad-both2", msi.range, EDGE_DATES[0], None, None)
    R.call("ms-range-bad-zero", msi.range, EDGE_DATES[0], None, 0)
    R.call("ms-range-nan", msi.range, EDGE_DATES[0], EDGE_DATES[3], float("nan"))

    # formatMulti
    def mk(tag, pred):
        return [lambda d, tag=tag: tag + ":" + d.isoformat(), pred]

    for k in range(300):
        d = rand_dt(rng)
        formats = [
            mk("ms", lambda d: d.microsecond),
            mk("s", lambda d: d.second),
            mk("m", lambda d: d.minute),
            mk("h", lambda d: d.hour),
            mk("d", lambda d: d.day != 1),
            mk("mo", lambda d: d.month != 1),
        ]
        if rng.random() < 0.7:
            formats.append(mk("y", lambda d: True))
        cut = rng.randint(0, len(formats))
        use = formats[cut:] if rng.random() < 0.3 else formats
        R.call("formatMulti", lambda: scale.d3_time_formatMulti(use)(d))
        R.call("formatMulti-tuple", lambda: scale.d3_time_formatMulti(tuple(use))(d))
        R.call(
            "formatMulti-tuples",
            lambda: scale.d3_time_formatMulti([tuple(f) + ("extra",) for f in use])(d),
        )
    R.call("formatMulti-empty", lambda: scale.d3_time_formatMulti([])(EDGE_DATES[0]))
    R.call("formatMulti-emptytuple", lambda: scale.d3_time_formatMulti(())(EDGE_DATES[0]))
    R.call("formatMulti-none", lambda: scale.d3_time_formatMulti(None)(EDGE_DATES[0]))
    R.call("formatMulti-dict", lambda: scale.d3_time_formatMulti({0: mk("a", lambda d: False), 1: mk("b", lambda d: True)})(EDGE_DATES[0]))
    R.call("formatMulti-dict-miss", lambda: scale.d3_time_formatMulti({0: mk("a", lambda d: False)})(EDGE_DATES[0]))
    R.call("formatMulti-short", lambda: scale.d3_time_formatMulti([[str]])(EDGE_DATES[0]))
    R.call("formatMulti-raise", lambda: scale.d3_time_formatMulti([mk("a", lambda d: d.nope)])(EDGE_DATES[0]))
    R.call("formatMulti-lazy", lambda: scale.d3_time_formatMulti(None) is not None)

    # mytimeformat
    for k in range(600):
        R.call("mytimeformat", scale.mytimeformat, rand_dt(rng))
    for d in EDGE_DATES:
        R.call("mytimeformat-edge", scale.mytimeformat, d)
    R.call("mytimeformat-date", scale.mytimeformat, date_cls(2023, 1, 1))
    R.call("mytimeformat-date2", scale.mytimeformat, date_cls(2023, 10, 1))
    R.call("mytimeformat-date3", scale.mytimeformat, date_cls(2023, 10, 3))
    R.call("mytimeformat-none", scale.mytimeformat, None)

    # time_nice_floor / time_nice_ceil
    from_d3 = scale.d3_time
    for k in range(200):
        name = rng.choice(["second", "minute", "hour", "day", "week", "month", "year"])
        itv = from_d3[name]
        skip = rng.choice([2, 3, 5, 6, 12, 15, 30] if name != "year" else [2, 5, 10, 20])
        if name == "week":
            skip = rng.choice([2, 3])
        if name == "month":
            skip = rng.choice([2, 3, 6])
        d = rand_dt(rng)

        def skipped(x, itv=itv, skip=skip):
            return not len(itv.range(x, x + timedelta(milliseconds=1), skip))

        R.call("time_nice_floor-" + name, scale.time_nice_floor, d, skipped, itv)
        R.call("time_nice_ceil-" + name, scale.time_nice_ceil, d, skipped, itv)


def linear_ops(scale, R, rng, s, tag):
    R.call(tag + "state", lambda: s)
    R.call(tag + "domain()", s.domain)
    R.call(tag + "range()", s.range)
    R.call(tag + "clamp()", s.clamp)
    R.call(tag + "interpolate()", lambda: s.interpolate() is scale.d3_interpolate)
    dom = list(s._domain) if isinstance(s._domain, (list, tuple)) else [0, 1]
    xs = [rand_float(rng) for _ in range(3)]
    for v in dom[:2]:
        if isinstance(v, (int, float)):
            xs.append(v)
            xs.append(v + rng.uniform(-1, 1))
    if len(dom) >= 2 and all(isinstance(v, (int, float)) for v in dom[:2]):
        xs.append(dom[0] + (dom[1] - dom[0]) * rng.random())
    for x in xs:
        R.call(tag + "call", s, x)
        R.call(tag + "scale", s.scale, x)
        R.call(tag + "invert", s.invert, x)
    R.call(tag + "rangeRound", s.rangeRound, [0, 1])
    for m in (None, rng.choice([1, 2, 3, 5, 7, 10, 15, 20, 50, 0, -2, 2.5])):
        R.call(tag + "ticks", s.ticks, m)
        R.call(tag + "tickFormat", lambda: [s.tickFormat(m)(x) for x in xs[:4]])
        R.call(
            tag + "tick-labels",
            lambda: [s.tickFormat(m)(t) for t in itertools.islice(s.ticks(m), 200)],
        )
    R.call(tag + "tickFormat-default", lambda: s.tickFormat()(xs[0]))
    R.call(tag + "tickFormat-fmt", lambda: s.tickFormat(10, "g")(xs[0]))


def battery_linear(scale, R, rng):
    LS = scale.LinearScale
    R.call("LS-default", lambda: LS())
    R.call("LS-default-call", lambda: LS()(0.25))
    R.call("LS-default-ticks", lambda: LS().ticks())
    R.call("LS-default-ticks5", lambda: LS().ticks(5))
    R.call("LS-default-labels", lambda: [LS().tickFormat(10)(t) for t in LS().ticks(10)])
    for k in range(450):
        tag = "LS%d-" % (k % 7)
        n = rng.choice([2, 2, 2, 2, 2, 3, 1])
        dom = [rand_float(rng) for _ in range(n)]
        if rng.random() < 0.25:
            dom = [rng.randint(-100, 100), rng.randint(-100, 100)]
        if rng.random() < 0.05:
            dom[-1] = dom[0]
        rg = [rand_float(rng), rand_float(rng)]
        if rng.random() < 0.05:
            rg[1] = rg[0]
        clamp = rng.choice([False, False, True, 0, 1, None, "yes", ""])
        how = rng.randrange(4)
        try:
            if how == 0:
                s = LS(list(dom), list(rg), None, clamp)
            elif how == 1:
                s = LS()
                r1 = s.domain(list(dom))
                r2 = s.range(list(rg))
                r3 = s.clamp(clamp)
                R.note(tag + "chain", [r1 is s, r2 is s, r3 is s])
            elif how == 2:
                s = LS(clamp=clamp).range(tuple(rg)).domain(tuple(dom))
            else:
                s = LS(domain=list(dom), _range=list(rg), clamp=clamp)
                R.call(tag + "set-interp", lambda: s.interpolate(scale.d3_interpolateNumber) is s)
        except Exception as exc:  # noqa
            R.note(tag + "construct-exc", (type(exc).__name__, str(exc)))
            continue
        linear_ops(scale, R, rng, s, tag)
        c = R.call(tag + "copy", s.copy)
        cp = s.copy()
        R.call(tag + "copy-distinct", lambda: (cp is not s, cp._domain is not s._domain, cp._range is not s._range))
        m = rng.choice([None, None, 1, 2, 5, 10, 20, 3, 0, 2.5])
        R.call(tag + "nice-returns-self", lambda: s.nice(m) is s)
        R.call(tag + "after-nice", lambda: s)
        R.call(tag + "copy-untouched", lambda: cp)
        linear_ops(scale, R, rng, s, tag + "niced-")
        R.call(tag + "nice-again", lambda: s.nice())
        R.call(tag + "clamp-toggle", lambda: s.clamp(not s.clamp()))
        x = rand_float(rng)
        R.call(tag + "toggled-call", s, x)
        R.call(tag + "toggled-invert", s.invert, x)
    for dom in (["a", "b"], [None, 1], [], [1], "12", None, 5, [float("nan"), 1], [float("inf"), 0]):
        R.call("LS-baddomain", lambda: LS().domain(dom))
        R.call("LS-baddomain-ctor", lambda: LS(dom))
        R.call("LS-baddomain-ctor-ticks", lambda: LS(dom).ticks())
        R.call("LS-baddomain-ctor-nice", lambda: LS(dom).nice())
        R.call("LS-baddomain-ctor-call", lambda: LS(dom)(0.5))
    for rg in ([], [1], None, "ab", [None, 2]):
        R.call("LS-badrange", lambda: LS().range(rg))
        R.call("LS-badrange-call", lambda: LS(_range=rg)(0.5))
    R.call("LS-badcall", lambda: LS()("x"))
    R.call("LS-badcall2", lambda: LS()(None))
    R.call("LS-badinvert", lambda: LS().invert(None))


def time_ops(scale, R, rng, s, tag, a, b):
    R.call(tag + "state", lambda: s)
    R.call(tag + "domain()", s.domain)
    R.call(tag + "range()", s.range)
    R.call(tag + "clamp()", s.clamp)
    lo, hi = (a, b) if a <= b else (b, a)
    span = hi - lo
    xs = [a, b, lo + span * rng.random(), lo - span * 0.1, hi + span * 0.1, rand_dt(rng)]
    for x in xs:
        R.call(tag + "call", s, x)
    rg = s.range()
    ys = [rand_float(rng)]
    if isinstance(rg, (list, tuple)) and len(rg) >= 2:
        try:
            ys += [rg[0], rg[1], rg[0] + (rg[1] - rg[0]) * rng.random()]
        except Exception:  # noqa
            pass
    for y in ys:
        R.call(tag + "invert", s.invert, y)
    R.call(tag + "rangeRound", s.rangeRound, [0, 1])
    fmt = s.tickFormat()
    counts = [None, rng.choice([1, 2, 3, 4, 5, 7, 10, 12, 15, 20, 30])]
    for n in counts:
        if n is None:
            res = R.call(tag + "ticks", s.ticks)
            R.call(tag + "labels", lambda: [fmt(t) for t in s.ticks()])
        else:
            R.call(tag + "ticks-n", s.ticks, n)
            R.call(tag + "labels-n", lambda: [fmt(t) for t in s.ticks(n)])
    ext = sorted([scale.dt2milli(a), scale.dt2milli(b)])
    for n in (10, counts[1]):
        R.call(
            tag + "tickMethod",
            lambda: (lambda m: [canon(m[0]), m[1], m[0] is scale.d3_time_scaleMilliseconds]
                     + [m[0] is scale.d3_time[k] for k in ("second", "minute", "hour", "day", "week", "month", "year")])(
                s.tickMethod(list(ext), n)
            ),
        )


def battery_time(scale, R, rng):
    TS = scale.TimeScale
    R.call("TS-default", lambda: TS())
    R.call("TS-default-domain", lambda: TS().domain())
    R.call("TS-default-ticks", lambda: TS().ticks())
    R.call("TS-default-nice", lambda: TS().nice())
    pairs = [rand_dt_pair(rng) for _ in range(520)]
    # edge pairs
    for i in range(len(EDGE_DATES) - 3):
        pairs.append((EDGE_DATES[i], EDGE_DATES[i + 1]))
    pairs.append((datetime(1900, 1, 1), datetime(2200, 1, 1)))
    pairs.append((datetime(2200, 1, 1), datetime(1900, 1, 1)))
    pairs.append((datetime(2000, 1, 1), datetime(2010, 1, 1)))
    pairs.append((datetime(2000, 1, 1), datetime(2000, 1, 1, 0, 0, 0, 1000)))
    pairs.append((datetime(2000, 1, 1), datetime(2000, 1, 1, 0, 0, 0, 5000)))
    pairs.append((datetime(2000, 1, 1), datetime(2000, 1, 1, 0, 0, 0, 250000)))
    pairs.append((datetime(2000, 1, 1), datetime(2000, 1, 1)))
    pairs = [p for p in pairs if 1900 <= p[0].year <= 2200 and 1900 <= p[1].year <= 2200]
    for k, (a, b) in enumerate(pairs):
        tag = "TS%d-" % (k % 5)
        rg = [rand_float(rng), rand_float(rng)]
        if rng.random() < 0.6:
            rg = [0, rng.choice([100, 500, 960, 1000.0])]
        clamp = rng.choice([False, False, True])
        s = TS()
        r1 = s.domain([a, b])
        r2 = s.range(list(rg))
        r3 = s.clamp(clamp)
        R.note(tag + "chain", [r1 is s, r2 is s, r3 is s])
        time_ops(scale, R, rng, s, tag, a, b)
        cp = s.copy()
        R.call(tag + "copy", lambda: cp)
        R.call(tag + "copy-distinct", lambda: (cp is not s, cp._linear is not s._linear))
        mode = rng.randrange(6)
        if mode <= 2:
            R.call(tag + "nice", lambda: s.nice() is s)
        elif mode == 3:
            n = rng.choice([2, 3, 5, 10, 20])
            R.call(tag + "nice-n", lambda: s.nice(n) is s)
        elif mode == 4:
            name = rng.choice(["second", "minute", "hour", "day", "week", "month", "year"])
            R.call(tag + "nice-interval", lambda: s.nice(scale.d3_time[name]) is s)
        else:
            name = rng.choice(["day", "month", "year", "hour"])
            skip = rng.choice([0, 1, 2, 3])
            R.call(tag + "nice-interval-skip", lambda: s.nice(scale.d3_time[name], skip) is s)
        R.call(tag + "after-nice", lambda: s)
        R.call(tag + "after-nice-domain", s.domain)
        R.call(tag + "copy-untouched", lambda: cp)
        R.call(tag + "after-nice-ticks", s.ticks)
        R.call(tag + "after-nice-labels", lambda: [s.tickFormat()(t) for t in s.ticks()])
        R.call(tag + "after-nice-call", s, a)
        R.call(tag + "copy-call", cp, a)
        R.call(tag + "copy-ticks", cp.ticks)
    # bad input
    for dom in ([None, None], [1, 2], [], "ab", None, [datetime(2000, 1, 1)], [datetime(2000, 1, 1), None]):
        R.call("TS-baddomain", lambda: TS().domain(dom))
        R.call("TS-baddomain-ticks", lambda: TS().domain(dom).ticks())
        R.call("TS-baddomain-nice", lambda: TS().domain(dom).nice())
    R.call("TS-badcall", lambda: TS()(None))
    R.call("TS-badcall2", lambda: TS()(5))
    R.call("TS-badinvert", lambda: TS().invert(None))
    R.call("TS-invert-overflow", lambda: TS().invert(1e30))
    s = TS().domain([datetime(2000, 1, 1), datetime(2001, 1, 1)])
    for iv in (0, -1, "5", "x", 2.5, None, True):
        R.call("TS-ticks-odd", lambda: s.copy().ticks(iv))
        R.call("TS-nice-odd", lambda: s.copy().nice(iv).domain())
    for skip in (None, "a", -1, 0, 1, 2, 2.5):
        R.call("TS-nice-skip-odd", lambda: s.copy().nice(scale.d3_time["month"], skip).domain())
        R.call("TS-ticks-skip-odd", lambda: s.copy().ticks(None, skip))
    R.call("TS-tickMethod-bad", lambda: s.tickMethod([0], 10))
    R.call("TS-tickMethod-bad2", lambda: s.tickMethod([0, 1], 0))
    R.call("TS-tickMethod-bad3", lambda: s.tickMethod([0, 1e15, 5], 10))
    R.call("TS-tickMethod-3", lambda: s.tickMethod([0, 1e15, 3e15], 10)[1])
    R.call("TS-tickMethod-tuple", lambda: s.tickMethod((0, 4e12), 10)[1])
    R.call("TS-tickMethod-none", lambda: s.tickMethod(None, 10))
    R.call("TS-custom", lambda: TS(scale.LinearScale([0.0, 1e9], [0, 1]), scale.d3_time_scaleLocalMethods, str).ticks())
    R.call("TS-custom-fmt", lambda: TS(fmt=str).tickFormat() is str)
    R.call("TS-default-fmt", lambda: TS().tickFormat() is scale.mytimeformat)


UNIT_MS = {
    "second": 1000,
    "minute": 60000,
    "hour": 3600000,
    "day": 86400000,
    "week": 7 * 86400000,
    "month": 30 * 86400000,
    "year": 365 * 86400000,
}


def battery_intervals(d3t, R, rng):
    d3 = d3t.d3_time
    R.note("keys", sorted(d3.keys()))
    R.note("kinds", [(k, type(d3[k]).__name__) for k in sorted(d3.keys())])
    R.note("EPOCH", d3t.EPOCH)
    names = [k for k in sorted(d3.keys()) if type(d3[k]).__name__ == "d3_time_interval"]
    R.note("interval-names", names)
    for name in names:
        itv = d3[name]
        plural = d3.get(name + "s")
        dates = [rand_dt(rng) for _ in range(260)] + [
            d for d in EDGE_DATES if 1900 <= d.year <= 2200
        ]
        for d in dates:
            tag = name + "-"
            R.call(tag + "floor", itv.floor, d)
            R.call(tag + "call", itv, d)
            R.call(tag + "ceil", itv.ceil, d)
            R.call(tag + "round", itv.round, d)
            R.call(tag + "number", itv._number, d)
            R.call(tag + "local", itv._local, d)
            k = rng.choice([0, 1, 1, 2, 3, 5, 7, 11, 12, 13, 24, 25, 60, -1, -2, -13, 1.5, 2.9, -0.5, 100])
            R.call(tag + "offset", itv.offset, d, k)
            R.call(tag + "step", itv._step, d, k)
            nunits = rng.choice([0, 1, 2, 3, 5, 10, 25, 60, 130])
            t1 = d + timedelta(milliseconds=int(UNIT_MS[name] * nunits * rng.uniform(0.5, 1.2)))
            dt = rng.choice([1, 1, 2, 3, 4, 5, 6, 7, 10, 12, 15, 20, 30, 0, -1, 0.5, 1.5, 2.0, 2.5])
            R.call(tag + "range", itv.range, d, t1, dt)
            if plural is not None:
                R.call(tag + "plural", plural, d, t1, dt)
            if rng.random() < 0.1:
                R.call(tag + "range-rev", itv.range, t1, d, dt)
                res = itv.range(d, t1, 1)
                R.call(tag + "range-fresh", lambda: all(x is not y for x, y in zip(res, itv.range(d, t1, 1))))
        # extreme dates and bad input
        for d in (datetime(1, 1, 1), datetime(9999, 12, 31, 23, 59, 59), datetime(9999, 1, 1)):
            R.call(name + "-x-floor", itv.floor, d)
            R.call(name + "-x-ceil", itv.ceil, d)
            R.call(name + "-x-round", itv.round, d)
            R.call(name + "-x-offset", itv.offset, d, 1)
            R.call(name + "-x-offset-neg", itv.offset, d, -1)
            R.call(name + "-x-range", itv.range, d, d + timedelta(days=0) if d.year > 9000 else d + timedelta(days=3), 2)
        for bad in (None, "x", 5, date_cls(2020, 5, 17)):
            R.call(name + "-bad-floor", itv.floor, bad)
            R.call(name + "-bad-ceil", itv.ceil, bad)
            R.call(name + "-bad-round", itv.round, bad)
            R.call(name + "-bad-offset", itv.offset, bad, 1)
            R.call(name + "-bad-offset-both", itv.offset, bad, None)
            R.call(name + "-bad-offset-both2", itv.offset, bad, "a")
            R.call(name + "-bad-number", itv._number, bad)
            R.call(name + "-bad-range", itv.range, bad, datetime(2020, 1, 1), 1)
            R.call(name + "-bad-range2", itv.range, datetime(2020, 1, 1), bad, 2)
        for badk in (None, "a", float("nan"), float("inf"), 1e30, [1]):
            R.call(name + "-bad-k", itv.offset, datetime(2020, 1, 31), badk)
        for baddt in (None, "a", float("nan")):
            R.call(name + "-bad-dt", itv.range, datetime(2020, 1, 1), datetime(2020, 1, 1) + timedelta(milliseconds=3 * UNIT_MS[name]), baddt)

    # helpers
    for k in range(500):
        d = rand_dt(rng)
        R.call("dayOfYear", d3["dayOfYear"], d)
        R.call("day_of_year", d3t.day_of_year, d)
        R.call("daysThisMonth", d3t.daysThisMonth, d)
        R.call("getTimezoneOffset", d3t.getTimezoneOffset, d)
        R.call("milli2dt", d3t.milli2dt, rand_float(rng) * rng.choice([1, 1e3, 1e6, 1e9]))
        R.call("dt2milli", d3t.dt2milli, d)
        R.call("hour_local", d3t.d3_time_hour_local, d)
        R.call("day_offset", d3t.d3_time_day_offset, d, rng.choice([0, 1, -1, 2.5, 30, 365]))
        R.call("week_local", d3t.d3_time_week_local, d)
        R.call("week_number", d3t.d3_time_week_number, d)
        R.call("month_local", d3t.d3_time_month_local, d)
        R.call("month_offset", d3t.d3_time_month_offset, d, rng.choice([0, 1, 2, 11, 12, 13, 24, 25, 37, -1, -12, 1.0, 0.5]))
        R.call("year_local", d3t.d3_time_year_local, d)
    for d in EDGE_DATES:
        R.call("dayOfYear-edge", d3["dayOfYear"], d)
        R.call("daysThisMonth-edge", d3t.daysThisMonth, d)
        R.call("week_number-edge", d3t.d3_time_week_number, d)
        R.call("week_local-edge", d3t.d3_time_week_local, d)
        R.call("hour_local-edge", d3t.d3_time_hour_local, d)
        R.call("dt2milli-edge", d3t.dt2milli, d)
    for m in range(1, 13):
        for y in (1900, 2000, 2023, 2024):
            R.call("daysThisMonth-all", d3t.daysThisMonth, datetime(y, m, 28, 5))
            R.call("daysThisMonth-first", d3t.daysThisMonth, datetime(y, m, 1))
    for bad in (None, "x", 5, date_cls(2020, 5, 17), float("nan")):
        R.call("dayOfYear-bad", d3["dayOfYear"], bad)
        R.call("day_of_year-bad", d3t.day_of_year, bad)
        R.call("daysThisMonth-bad", d3t.daysThisMonth, bad)
        R.call("getTimezoneOffset-bad", d3t.getTimezoneOffset, bad)
        R.call("milli2dt-bad", d3t.milli2dt, bad)
        R.call("dt2milli-bad", d3t.dt2milli, bad)
        R.call("hour_local-bad", d3t.d3_time_hour_local, bad)
        R.call("week_local-bad", d3t.d3_time_week_local, bad)
        R.call("week_number-bad", d3t.d3_time_week_number, bad)
        R.call("month_local-bad", d3t.d3_time_month_local, bad)
        R.call("month_offset-bad", d3t.d3_time_month_offset, bad, 1)
        R.call("month_offset-bad2", d3t.d3_time_month_offset, bad, "a")
        R.call("month_offset-bad3", d3t.d3_time_month_offset, datetime(2020, 1, 1), "a")
        R.call("year_local-bad", d3t.d3_time_year_local, bad)
        R.call("day_offset-bad", d3t.d3_time_day_offset, bad, 1)
        R.call("day_offset-bad2", d3t.d3_time_day_offset, bad, None)
    R.call("month_offset-overflow", d3t.d3_time_month_offset, datetime(9999, 12, 1), 1)
    R.call("month_offset-day31", d3t.d3_time_month_offset, datetime(2020, 1, 31), 1)
    # a custom interval built from the class
    cust = d3t.d3_time_interval(
        lambda d: d.replace(minute=d.minute - d.minute % 10, second=0, microsecond=0),
        lambda d, k: d + timedelta(minutes=10 * k),
        lambda d: d.minute // 10,
    )
    for k in range(100):
        d = rand_dt(rng)
        R.call("custom-floor", cust.floor, d)
        R.call("custom-ceil", cust.ceil, d)
        R.call("custom-round", cust.round, d)
        R.call("custom-offset", cust.offset, d, rng.randint(-3, 3))
        R.call("custom-range", cust.range, d, d + timedelta(hours=2), rng.choice([1, 2, 3]))


def run_all(root):
    scale, d3t = load(root)
    R = Recorder()
    battery_helpers(scale, R, random.Random(SEED))
    battery_linear(scale, R, random.Random(SEED + 1))
    battery_time(scale, R, random.Random(SEED + 2))
    battery_intervals(d3t, R, random.Random(SEED + 3))
    return R.records


def main(argv):
    if len(argv) != 3:
        print("usage: equiv.py <original-checkout> <refactored-checkout>")
        return 2
    rec_a = run_all(argv[1])
    rec_b = run_all(argv[2])
    n = min(len(rec_a), len(rec_b))
    for i in range(n):
        if rec_a[i] != rec_b[i]:
            print("DIFFERENT at case %d" % i)
            print("  original  : %r" % (rec_a[i],))
            print("  refactored: %r" % (rec_b[i],))
            return 1
    if len(rec_a) != len(rec_b):
        print("DIFFERENT number of cases: %d vs %d" % (len(rec_a), len(rec_b)))
        return 1
    print("EQUIVALENT (%d cases)" % n)
    return 0


if __name__ == "__main__":
    sys.exit(main(sys.argv))
