#!/usr/bin/env python
# -*- coding: utf-8 -*-
"""
Differential test for refactorings of labella/scale.py and labella/d3_time.py.

Usage:  python equiv.py <original-checkout> <refactored-checkout>

The ``labella`` package is imported from each checkout in turn (sys.modules
is purged of ``labella*`` in between, the checkout is put at sys.path[0] and
every imported module's __file__ is asserted to lie under that checkout).
The same pre-generated inputs are then pushed through the public behaviour
of the linear scale, the time scale and the calendar-interval registry in
both trees; every observation (return value, exception type + message,
object state after the call) is canonicalised and compared exactly.

Prints ``EQUIVALENT (<n> cases)`` and exits 0 when every observation is
identical, otherwise prints the first difference and exits 1.
"""

import importlib
import itertools
import os
import random
import signal
import sys
import types

from datetime import datetime
from datetime import timedelta

sys.dont_write_bytecode = True

SEED = 20261001
ITER_CAP = 3000  # longest prefix of a tick generator that is compared
CALL_TIMEOUT = 2.0  # seconds; the library can loop forever on some inputs


class Timeout(BaseException):
    """Raised by the watchdog inside a call that does not terminate."""


def _on_alarm(signum, frame):
    raise Timeout()


signal.signal(signal.SIGALRM, _on_alarm)


# --------------------------------------------------------------------------
# loading
# --------------------------------------------------------------------------


def purge():
    for name in [
        n for n in sys.modules if n == "labella" or n.startswith("labella.")
    ]:
        del sys.modules[name]
    importlib.invalidate_caches()


def load(root):
    root = os.path.realpath(root)
    purge()
    sys.path.insert(0, root)
    try:
        import labella
        import labella.d3_time
        import labella.scale

        mods = (labella, labella.d3_time, labella.scale)
        for mod in mods:
            path = os.path.realpath(mod.__file__)
            assert path.startswith(root + os.sep), (
                "module %s loaded from %s, expected under %s"
                % (mod.__name__, path, root)
            )
        assert sys.modules["labella.scale"] is labella.scale
        return labella.scale, labella.d3_time
    finally:
        # remove exactly the entry we inserted
        assert sys.path[0] == root
        del sys.path[0]


# --------------------------------------------------------------------------
# canonical form of observations
# --------------------------------------------------------------------------


class Ctx(object):
    """Per-tree context: maps interval objects to registry names."""

    def __init__(self, scale, d3t):
        self.scale = scale
        self.d3t = d3t
        self.names = {}
        for key, val in d3t.d3_time.items():
            if isinstance(val, d3t.d3_time_interval):
                self.names[id(val)] = key
        self.names[id(scale.d3_time_scaleMilliseconds)] = "<milliseconds>"


def canon(v, ctx):
    if v is None or isinstance(v, (bool, str, bytes)):
        return (type(v).__name__, v)
    if isinstance(v, int):
        return ("int", v)
    if isinstance(v, float):
        return ("float", v.hex())
    if isinstance(v, datetime):
        return (type(v).__name__, v.isoformat(), repr(v.tzinfo))
    if isinstance(v, timedelta):
        return ("timedelta", v.days, v.seconds, v.microseconds)
    if isinstance(v, (list, tuple)):
        return (type(v).__name__, [canon(x, ctx) for x in v])
    if isinstance(v, dict):
        return (
            "dict",
            [(canon(k, ctx), canon(x, ctx)) for k, x in v.items()],
        )
    if isinstance(v, (types.GeneratorType, range, map, filter)):
        items = list(itertools.islice(v, ITER_CAP))
        return (type(v).__name__, [canon(x, ctx) for x in items])
    if id(v) in ctx.names:
        return ("interval", ctx.names[id(v)])
    if isinstance(v, (ctx.scale.LinearScale, ctx.scale.TimeScale)):
        return ("scale", type(v).__name__)
    if callable(v):
        return ("callable",)
    return ("object", type(v).__name__)


class Recorder(object):
    def __init__(self, ctx):
        self.ctx = ctx
        self.records = []
        self.timeouts = 0
        self.abandoned = False

    def begin_input(self):
        self.abandoned = False

    def put(self, label, value):
        if self.abandoned:
            return
        self.records.append((label, canon(value, self.ctx)))

    def call(self, label, fn, *args, **kwargs):
        """Record the outcome of fn(*args); return (ok, raw value).

        A call that runs into the watchdog is recorded as TIMEOUT (it has to
        time out in both trees to count as equal) and the rest of the current
        input is skipped, because the interrupted object may be half-updated.
        """
        if self.abandoned:
            return False, None
        signal.setitimer(signal.ITIMER_REAL, CALL_TIMEOUT)
        try:
            try:
                value = fn(*args, **kwargs)
            finally:
                signal.setitimer(signal.ITIMER_REAL, 0)
        except Timeout:
            self.records.append((label, ("TIMEOUT",)))
            self.timeouts += 1
            self.abandoned = True
            return False, None
        except RecursionError:
            raise
        except Exception as err:  # noqa: BLE001 - exceptions are observations
            self.records.append(
                (label, ("EXC", type(err).__name__, str(err)))
            )
            return False, None
        # generators raise lazily: drain them under the same guard
        try:
            self.records.append((label, canon(value, self.ctx)))
        except RecursionError:
            raise
        except Exception as err:  # noqa: BLE001
            self.records.append(
                (label, ("EXC-ITER", type(err).__name__, str(err)))
            )
            return False, None
        return True, value


# --------------------------------------------------------------------------
# input generation (independent of the code under test)
# --------------------------------------------------------------------------


def rand_number(rng):
    kind = rng.randrange(9)
    if kind == 0:
        return rng.randint(-1000, 1000)
    if kind == 1:
        return rng.uniform(-1.0, 1.0)
    if kind == 2:
        return rng.uniform(-1e6, 1e6)
    if kind == 3:
        return float(rng.randint(-50, 50))
    if kind == 4:
        return rng.uniform(-1, 1) * 10 ** rng.randint(-12, 12)
    if kind == 5:
        return rng.choice([0, 0.0, 1, -1, 0.1, 0.5, 1e-9, 1e9, 100, 1000.0])
    if kind == 6:
        return round(rng.uniform(-500, 500), rng.randint(0, 3))
    if kind == 7:
        return rng.randint(0, 10) * 10 ** rng.randint(0, 6)
    return rng.uniform(0, 100)


def rand_domain(rng):
    kind = rng.randrange(12)
    a = rand_number(rng)
    if kind == 0:  # degenerate
        return [a, a]
    if kind == 1:  # tiny span around a moderate value
        a = rng.uniform(-100, 100)
        return [a, a + rng.uniform(1e-9, 1e-3)]
    if kind == 2:  # three entries (only the outer two matter for extent)
        return sorted([a, rand_number(rng), rand_number(rng)])
    if kind == 3:  # integers
        lo = rng.randint(-100, 100)
        return [lo, lo + rng.randint(0, 200)]
    if kind == 4:  # exact powers / round numbers
        return [0, rng.choice([1, 2, 5, 10, 20, 50, 100, 1000, 0.1, 0.01])]
    b = rand_number(rng)
    dom = [a, b]
    if kind in (5, 6, 7):  # descending or ascending at random
        dom.sort(reverse=(kind == 5))
    return dom


def rand_range(rng):
    kind = rng.randrange(6)
    if kind == 0:
        return [0, 1]
    if kind == 1:
        return [0, rng.randint(1, 2000)]
    if kind == 2:
        return [rng.randint(100, 2000), 0]
    if kind == 3:
        a = rng.uniform(-500, 500)
        return [a, a]
    return [rng.uniform(-1000, 1000), rng.uniform(-1000, 1000)]


def rand_m(rng):
    kind = rng.randrange(10)
    if kind == 0:
        return None
    if kind == 1:
        return rng.choice([0, -1, -3.5, 0.5, 0.1])
    if kind == 2:
        return rng.uniform(0.5, 40)
    if kind == 3:
        return rng.choice([1, 2, 3, 4, 5, 10, 20, 25, 50, 100])
    return rng.randint(1, 30)


def make_linear_inputs(rng, n):
    out = []
    for _ in range(n):
        dom = rand_domain(rng)
        rg = rand_range(rng)
        lo, hi = min(dom), max(dom)
        span = (hi - lo) or 1.0
        xs = [
            dom[0],
            dom[-1],
            lo - span * rng.uniform(0, 2),
            hi + span * rng.uniform(0, 2),
        ] + [lo + span * rng.random() for _ in range(3)]
        rlo, rhi = min(rg), max(rg)
        rspan = (rhi - rlo) or 1.0
        ys = [rg[0], rg[1], rlo - rspan * rng.random(), rhi + rspan]
        ys += [rlo + rspan * rng.random() for _ in range(2)]
        out.append(
            {
                "domain": dom,
                "range": rg,
                "clamp": rng.random() < 0.4,
                "ctor": rng.random() < 0.3,
                "xs": xs,
                "ys": ys,
                "ms": [rand_m(rng) for _ in range(3)],
                "nice_m": rand_m(rng),
                "dom2": rand_domain(rng),
                "custom_interp": rng.random() < 0.15,
                "bad": rng.randrange(8),
            }
        )
    return out


MIN_DT = datetime(1900, 1, 1)
MAX_DT = datetime(2200, 12, 31, 23, 59, 59, 999000)
TOTAL_MS = int((MAX_DT - MIN_DT).total_seconds() * 1000)

SPECIAL_INSTANTS = [
    datetime(1900, 1, 1),
    datetime(1970, 1, 1),
    datetime(1969, 12, 31, 23, 59, 59, 999000),
    datetime(1999, 12, 31, 23, 59, 59, 999999),
    datetime(2000, 1, 1),
    datetime(2000, 2, 29),
    datetime(2000, 2, 29, 12, 30, 15, 500000),
    datetime(2000, 3, 1),
    datetime(2004, 2, 29, 23, 59, 59),
    datetime(2100, 2, 28, 23, 59, 59, 999000),
    datetime(2100, 3, 1),
    datetime(2016, 1, 31),
    datetime(2016, 3, 31, 6),
    datetime(2016, 5, 31, 23, 59, 59),
    datetime(2016, 12, 31, 23, 59, 59, 999000),
    datetime(2017, 1, 1, 0, 0, 0, 1),
    datetime(2017, 10, 29, 2, 30),
    datetime(2018, 4, 30),
    datetime(2019, 12, 29),  # a Sunday
    datetime(2019, 12, 28, 23, 59, 59),  # Saturday night
    datetime(2200, 12, 31, 23, 59, 59),
]


def rand_instant(rng):
    kind = rng.randrange(10)
    if kind == 0:
        return rng.choice(SPECIAL_INSTANTS)
    if kind == 1:  # month end
        year = rng.randint(1900, 2200)
        month = rng.randint(1, 12)
        nxt = datetime(year + (month == 12), month % 12 + 1, 1)
        last = nxt - timedelta(days=1)
        return last.replace(
            hour=rng.choice([0, 12, 23]),
            minute=rng.choice([0, 30, 59]),
            second=rng.choice([0, 59]),
            microsecond=rng.choice([0, 999000, 500]),
        )
    if kind == 2:  # leap day
        year = rng.choice([y for y in range(1904, 2200, 4) if y % 100 or y % 400 == 0])
        return datetime(
            year, 2, 29, rng.randint(0, 23), rng.randint(0, 59), rng.randint(0, 59)
        )
    if kind == 3:  # exact boundary of some unit
        base = MIN_DT + timedelta(days=rng.randint(0, 109000))
        return base.replace(hour=rng.choice([0, 0, 6, 12]), minute=0, second=0)
    if kind == 4:  # whole seconds
        return MIN_DT + timedelta(seconds=rng.randint(0, TOTAL_MS // 1000))
    if kind == 5:  # sub-millisecond detail
        return MIN_DT + timedelta(
            milliseconds=rng.randint(0, TOTAL_MS), microseconds=rng.randint(0, 999)
        )
    return MIN_DT + timedelta(milliseconds=rng.randint(0, TOTAL_MS))


def rand_time_domain(rng):
    """Pair of naive datetimes; span log-uniform from 1 ms to ~300 years."""
    kind = rng.randrange(12)
    a = rand_instant(rng)
    if kind == 0:
        return [a, a]
    span_ms = 10 ** rng.uniform(0, 12.97)  # 1 ms .. ~296 years
    if kind == 1:
        span_ms = float(int(span_ms))
    b = a + timedelta(milliseconds=span_ms)
    if b > MAX_DT:
        b = a - timedelta(milliseconds=span_ms)
        if b < MIN_DT:
            # span does not fit on either side: anchor it near the start.
            # Keep the end below 2200 so that nice() rarely has to walk past
            # the year ~2243, where the library's millisecond round trip
            # loses precision and its nice loop never terminates (in either
            # tree - such calls are recorded as TIMEOUT).
            a = MIN_DT + timedelta(days=rng.randint(0, 400), hours=rng.randint(0, 23))
            b = min(a + timedelta(milliseconds=span_ms), datetime(2199, 12, 31, 23, 59, 59, rng.choice([0, 999000])))
    if kind == 2:
        # aligned start
        a = a.replace(hour=0, minute=0, second=0, microsecond=0)
    dom = [a, b]
    if rng.random() < 0.35:
        dom.reverse()
    return dom


def make_time_inputs(rng, n):
    out = []
    for _ in range(n):
        dom = rand_time_domain(rng)
        lo, hi = min(dom), max(dom)
        span = hi - lo
        pts = [lo, hi]
        for _ in range(3):
            pts.append(lo + span * rng.random())
        pts.append(lo - span * rng.random())
        pts.append(hi + span * rng.random())
        pts = [p for p in pts if MIN_DT.replace(year=1800) < p < MAX_DT.replace(year=2300)]
        rg = rand_range(rng)
        rlo, rhi = min(rg), max(rg)
        rspan = (rhi - rlo) or 1.0
        ys = [rg[0], rg[1], rlo + rspan * rng.random(), rlo - rspan, rhi + rspan * 0.5]
        out.append(
            {
                "domain": dom,
                "range": rg,
                "clamp": rng.random() < 0.3,
                "pts": pts,
                "ys": ys,
                "counts": [
                    rng.choice([1, 2, 3, 5, 10, 15, 20, 40]),
                    rng.randint(1, 30),
                    rng.choice([0, -2, 0.5, 7.5, 1000]),
                ],
                "nice_kind": rng.randrange(10),
                "nice_count": rng.choice([1, 2, 5, 10, 20, 33]),
                "nice_interval": rng.choice(
                    ["second", "minute", "hour", "day", "week", "month", "year"]
                ),
                "nice_skip": rng.choice([0, 1, 2, 3, 5, 6, 10, 15]),
                "dom2": rand_time_domain(rng),
            }
        )
    return out


UNIT_SECONDS = {
    "second": 1,
    "minute": 60,
    "hour": 3600,
    "day": 86400,
    "week": 7 * 86400,
    "month": 30.5 * 86400,
    "year": 365.25 * 86400,
}
INTERVALS = ["second", "minute", "hour", "day", "week", "month", "year"]


def make_interval_inputs(rng, n):
    out = []
    for _ in range(n):
        t = rand_instant(rng)
        item = {"t": t, "spans": {}, "ks": {}}
        for name in INTERVALS:
            units = rng.choice([0, 0.3, 1, 2, 3.5, 6, 12, 25])
            t1 = t + timedelta(seconds=UNIT_SECONDS[name] * units)
            if rng.random() < 0.08:
                t1 = t - timedelta(seconds=UNIT_SECONDS[name] * (units + 1))
            item["spans"][name] = t1
            item["ks"][name] = [
                rng.randint(-3, 3),
                rng.choice([0, 1, -1, 12, 13, 24, 25, -12, 40]),
                rng.choice([0.5, 1.7, -0.5, 2.0]),
            ]
        out.append(item)
    return out


def make_inputs():
    rng = random.Random(SEED)
    return {
        "linear": make_linear_inputs(rng, 1500),
        "time": make_time_inputs(rng, 1200),
        "interval": make_interval_inputs(rng, 700),
    }


# --------------------------------------------------------------------------
# exercising one tree
# --------------------------------------------------------------------------


def linear_state(rec, tag, s):
    rec.call(tag + ".domain()", s.domain)
    rec.call(tag + ".range()", s.range)
    rec.call(tag + ".clamp()", s.clamp)


def run_linear(rec, ctx, inputs):
    S = ctx.scale
    for idx, inp in enumerate(inputs):
        rec.begin_input()
        tag = "linear[%d]" % idx
        dom = list(inp["domain"])
        rg = list(inp["range"])
        if inp["ctor"]:
            ok, s = rec.call(
                tag + ".ctor",
                S.LinearScale,
                dom,
                rg,
                None,
                inp["clamp"],
            )
            if not ok:
                continue
            # constructor keeps the caller's lists (aliasing is observable)
            rec.put(tag + ".ctor.alias", [s.domain() is dom, s.range() is rg])
        else:
            s = S.LinearScale()
            linear_state(rec, tag + ".default", s)
            rec.put(tag + ".default.call", [s(0.25), s.invert(0.25)])
            ok, r = rec.call(tag + ".domain(x)", s.domain, dom)
            rec.put(tag + ".domain(x) chain", r is s)
            ok, r = rec.call(tag + ".range(x)", s.range, rg)
            rec.put(tag + ".range(x) chain+alias", [r is s, s.range() is rg])
            ok, r = rec.call(tag + ".clamp(x)", s.clamp, inp["clamp"])
            rec.put(tag + ".clamp(x) chain", r is s)
        linear_state(rec, tag + ".state0", s)
        rec.put(
            tag + ".interpolate()",
            s.interpolate() is S.d3_interpolate,
        )
        rec.call(tag + ".rangeRound", s.rangeRound, rg)

        for j, x in enumerate(inp["xs"]):
            rec.call("%s.call[%d]" % (tag, j), s, x)
            rec.call("%s.scale[%d]" % (tag, j), s.scale, x)
        for j, y in enumerate(inp["ys"]):
            rec.call("%s.invert[%d]" % (tag, j), s.invert, y)

        for j, m in enumerate(inp["ms"]):
            ok, ticks = rec.call("%s.ticks(%r)" % (tag, m), s.ticks, m)
            tick_list = []
            if ok:
                try:
                    tick_list = list(itertools.islice(s.ticks(m), 60))
                except Exception:  # noqa: BLE001 - recorded above already
                    tick_list = []
            ok, fmt = rec.call("%s.tickFormat(%r)" % (tag, m), s.tickFormat, m)
            if ok:
                rec.put(
                    "%s.tickFormat(%r) texts" % (tag, m),
                    [fmt(t) for t in tick_list]
                    + [fmt(v) for v in inp["xs"][:3]],
                )
            rec.call(
                "%s.tickRange(%r)" % (tag, m),
                S.d3_scale_linearTickRange,
                s.domain(),
                m,
            )
        rec.call(tag + ".ticks()", s.ticks)
        ok, fmt = rec.call(tag + ".tickFormat()", s.tickFormat)
        if ok:
            rec.put(tag + ".tickFormat() text", fmt(inp["xs"][4]))
        linear_state(rec, tag + ".state1", s)

        # copy independence
        ok, c = rec.call(tag + ".copy", s.copy)
        if ok:
            rec.put(
                tag + ".copy fresh",
                [
                    c is not s,
                    c.domain() is not s.domain(),
                    c.range() is not s.range(),
                    c.interpolate() is s.interpolate(),
                ],
            )
            linear_state(rec, tag + ".copy.state", c)
            rec.call(tag + ".copy.nice", c.nice, inp["nice_m"])
            rec.call(tag + ".copy.domain(x)", c.domain, list(inp["dom2"]))
            rec.call(tag + ".copy.range(x)", c.range, [5, 10])
            rec.call(tag + ".copy.clamp(x)", c.clamp, not inp["clamp"])
            linear_state(rec, tag + ".copy.state2", c)
            rec.call(tag + ".copy.call", c, inp["xs"][4])
            rec.call(tag + ".copy.invert", c.invert, 7.5)
            # in-place edits of the copy's lists must not leak either
            try:
                c.domain()[0] = 12345.0
                c.range()[0] = -1
            except Exception:  # noqa: BLE001
                pass
            linear_state(rec, tag + ".orig-after-copy-edit", s)
            rec.call(tag + ".orig-after-copy-edit.call", s, inp["xs"][4])

        # nice
        ok, r = rec.call(tag + ".nice(%r)" % (inp["nice_m"],), s.nice, inp["nice_m"])
        rec.put(tag + ".nice chain", r is s if ok else None)
        linear_state(rec, tag + ".state-after-nice", s)
        rec.put(tag + ".dom-list-after-nice", dom)
        for j, x in enumerate(inp["xs"][:4]):
            rec.call("%s.call-after-nice[%d]" % (tag, j), s, x)
        for j, y in enumerate(inp["ys"][:3]):
            rec.call("%s.invert-after-nice[%d]" % (tag, j), s.invert, y)
        rec.call(tag + ".ticks-after-nice", s.ticks, 10)
        rec.call(tag + ".nice()", s.nice)
        linear_state(rec, tag + ".state-after-nice()", s)

        # custom interpolator: output uses it, invert does not
        if inp["custom_interp"]:
            def interp(a, b):
                return lambda t: round(a * (1 - t) + b * t)

            ok, r = rec.call(tag + ".interpolate(x)", s.interpolate, interp)
            rec.put(
                tag + ".interpolate(x) chain",
                [r is s, s.interpolate() is interp],
            )
            for j, x in enumerate(inp["xs"][:4]):
                rec.call("%s.call-custom[%d]" % (tag, j), s, x)
            rec.call(tag + ".invert-custom", s.invert, inp["ys"][2])
            ok, c = rec.call(tag + ".copy-custom", s.copy)
            if ok:
                rec.put(tag + ".copy-custom interp", c.interpolate() is interp)
                rec.call(tag + ".copy-custom call", c, inp["xs"][4])

        # failing setters must leave the same state behind
        bad = inp["bad"]
        if bad == 0:
            rec.call(tag + ".domain(bad)", s.domain, ["a", 1])
        elif bad == 1:
            rec.call(tag + ".domain(bad2)", s.domain, 5)
        elif bad == 2:
            rec.call(tag + ".range(bad)", s.range, [1])
        elif bad == 3:
            rec.call(tag + ".range(bad2)", s.range, 3)
        elif bad == 4:
            rec.call(tag + ".domain(one)", s.domain, [1])
        elif bad == 5:
            rec.call(tag + ".nice(0)", s.nice, 0)
        elif bad == 6:
            rec.call(tag + ".domain(tuple)", s.domain, (3, "7"))
        elif bad == 7:
            rec.call(tag + ".range(tuple)", s.range, (3, 9))
        linear_state(rec, tag + ".state-after-bad", s)
        rec.call(tag + ".call-after-bad", s, inp["xs"][5])
        rec.call(tag + ".invert-after-bad", s.invert, inp["ys"][4])
        rec.call(tag + ".ticks-after-bad", s.ticks, 5)


def run_linear_functions(rec, ctx, inputs, rng):
    """Module-level helpers of scale.py called directly."""
    S = ctx.scale
    for idx, inp in enumerate(inputs[:600]):
        rec.begin_input()
        tag = "fn[%d]" % idx
        dom = list(inp["domain"])
        m = inp["ms"][0]
        rec.call(tag + ".extent", S.d3_scaleExtent, dom)
        rec.call(tag + ".tickRange", S.d3_scale_linearTickRange, dom, m)
        rec.call(tag + ".tickRange-default", S.d3_scale_linearTickRange, dom)
        rec.call(tag + ".ticks", S.d3_scale_linearTicks, dom, m)
        ok, fmt = rec.call(tag + ".tickFormat", S.d3_scale_linearTickFormat, dom, m)
        if ok:
            rec.put(tag + ".tickFormat texts", [fmt(x) for x in inp["xs"]])
        rec.put(tag + ".dom-unchanged", dom)
        for j, v in enumerate(inp["xs"][:3] + [0, 0.0, 1, 10, 0.001, 1e-7, 250.0]):
            rec.call("%s.precision[%d]" % (tag, j), S.d3_scale_linearPrecision, v)
        step = rng.choice([0, 0.0, 1, 2, 5, 0.1, 0.25, 2.5, 10, 1e-3, 100.0, None])
        ok, ns = rec.call(tag + ".niceStep", S.d3_scale_niceStep, step)
        if ok:
            rec.put(tag + ".niceStep keys", sorted(ns.keys()))
            for j, x in enumerate(inp["xs"][:4]):
                rec.call("%s.niceStep.floor[%d]" % (tag, j), ns["floor"], x)
                rec.call("%s.niceStep.ceil[%d]" % (tag, j), ns["ceil"], x)
            d2 = list(inp["dom2"])
            ok2, r = rec.call(tag + ".scale_nice(dict)", S.d3_scale_nice, d2, ns)
            rec.put(tag + ".scale_nice(dict) inplace", [r is d2, d2])

            class Obj(object):
                floor = staticmethod(ns["floor"])
                ceil = staticmethod(ns["ceil"])

            d3 = list(inp["dom2"])
            ok2, r = rec.call(tag + ".scale_nice(obj)", S.d3_scale_nice, d3, Obj())
            rec.put(tag + ".scale_nice(obj) inplace", [r is d3, d3])
        d4 = list(inp["dom2"])
        rec.call(tag + ".scale_nice(missing ceil)", S.d3_scale_nice, d4, {"floor": lambda x: x - 1})
        rec.put(tag + ".scale_nice(missing ceil) state", d4)
        d5 = list(inp["dom2"])
        ok, r = rec.call(tag + ".linearNice", S.d3_scale_linearNice, d5, inp["nice_m"])
        rec.put(tag + ".linearNice inplace", [r is d5, d5])

        a, b = inp["domain"][0], inp["domain"][-1]
        for name in ("d3_uninterpolateNumber", "d3_uninterpolateClamp",
                     "d3_interpolateNumber", "d3_interpolate"):
            ok, f = rec.call("%s.%s" % (tag, name), getattr(S, name), a, b)
            if ok:
                for j, x in enumerate(inp["xs"][:4] + [0, 1, 0.5, -0.25, 1.25]):
                    rec.call("%s.%s[%d]" % (tag, name, j), f, x)
        for uname in ("d3_uninterpolateNumber", "d3_uninterpolateClamp"):
            ok, f = rec.call(
                "%s.bilinear.%s" % (tag, uname),
                S.d3_scale_bilinear,
                inp["domain"],
                inp["range"],
                getattr(S, uname),
                S.d3_interpolate,
            )
            if ok:
                for j, x in enumerate(inp["xs"]):
                    rec.call("%s.bilinear.%s[%d]" % (tag, uname, j), f, x)
        rec.call(tag + ".extent-fn", S.d3_extent, inp["xs"], lambda v: v * 2)
        rec.call(tag + ".ascending", S.d3_ascending, a, b)
        rec.call(tag + ".ascending-rev", S.d3_ascending, b, a)
        rec.call(tag + ".identity", S.d3_identity, a)
        arr = sorted(inp["xs"])
        for j, x in enumerate(inp["ys"][:3] + inp["xs"][:3]):
            rec.call("%s.bisect[%d]" % (tag, j), S.d3_bisect, arr, x)
        rec.call(tag + ".bisect-lo-hi", S.d3_bisect, arr, inp["xs"][4], 1, 5)
        rec.call(tag + ".bisect-steps", S.d3_bisect, S.d3_time_scaleSteps, abs(a) * 1e3)
        rec.call(tag + ".zfrs", S.zero_fill_right_shift, rng.randint(-2 ** 33, 2 ** 33), rng.randint(0, 5))
        start, stop = sorted([inp["xs"][0], inp["xs"][1]])
        stepv = rng.choice([1, 2, 0.5, 0.1, (stop - start) / 7 or 1])
        if stepv > 0 and (stop - start) / stepv < 5000:
            rec.call(tag + ".drange", S.drange, start, stop, stepv)
        rec.call(tag + ".drange-default", S.drange, 0, rng.randint(-2, 8))
    rec.call("fn.ascending-nan", S.d3_ascending, float("nan"), 1.0)
    rec.call("fn.ascending-eq", S.d3_ascending, 2, 2.0)
    rec.call("fn.precision-neg", S.d3_scale_linearPrecision, -1.0)
    rec.call("fn.extent-empty", S.d3_extent, [], lambda v: v)
    rec.call("fn.scaleExtent-empty", S.d3_scaleExtent, [])
    rec.put("fn.steps", S.d3_time_scaleSteps)
    rec.put("fn.methods", S.d3_time_scaleLocalMethods)
    rec.put("fn.EPOCH", [S.EPOCH, ctx.d3t.EPOCH])


def time_state(rec, tag, ts):
    rec.call(tag + ".domain()", ts.domain)
    rec.call(tag + ".range()", ts.range)
    rec.call(tag + ".clamp()", ts.clamp)


def run_time(rec, ctx, inputs):
    S = ctx.scale
    reg = ctx.d3t.d3_time
    for idx, inp in enumerate(inputs):
        rec.begin_input()
        tag = "time[%d]" % idx
        ts = S.TimeScale()
        if idx % 50 == 0:
            time_state(rec, tag + ".default", ts)
        ok, r = rec.call(tag + ".domain(x)", ts.domain, list(inp["domain"]))
        rec.put(tag + ".domain(x) chain", r is ts)
        ok, r = rec.call(tag + ".range(x)", ts.range, list(inp["range"]))
        rec.put(tag + ".range(x) chain", r is ts)
        ok, r = rec.call(tag + ".clamp(x)", ts.clamp, inp["clamp"])
        rec.put(tag + ".clamp(x) chain", r is ts)
        time_state(rec, tag + ".state0", ts)
        rec.put(tag + ".interpolate()", ts.interpolate() is S.d3_interpolate)
        rec.call(tag + ".rangeRound", ts.rangeRound, [0, 1])
        ok, fmt = rec.call(tag + ".tickFormat()", ts.tickFormat)
        rec.put(tag + ".tickFormat is default", fmt is S.mytimeformat)

        for j, p in enumerate(inp["pts"]):
            rec.call("%s.call[%d]" % (tag, j), ts, p)
        for j, y in enumerate(inp["ys"]):
            rec.call("%s.invert[%d]" % (tag, j), ts.invert, y)

        ok, ticks = rec.call(tag + ".ticks()", ts.ticks)
        if ok:
            rec.put(tag + ".ticks() texts", [fmt(t) for t in ticks])
            rec.put(tag + ".ticks() pos", [ts(t) for t in ticks])
        for count in inp["counts"]:
            ok, ticks = rec.call("%s.ticks(%r)" % (tag, count), ts.ticks, count)
            if ok:
                rec.put(
                    "%s.ticks(%r) texts" % (tag, count),
                    [fmt(t) for t in ticks[:200]],
                )
            extent = [S.dt2milli(min(inp["domain"])), S.dt2milli(max(inp["domain"]))]
            rec.call("%s.tickMethod(%r)" % (tag, count), ts.tickMethod, extent, count)
        time_state(rec, tag + ".state1", ts)

        # copy independence
        ok, c = rec.call(tag + ".copy", ts.copy)
        if ok:
            time_state(rec, tag + ".copy.state", c)
            rec.put(tag + ".copy fmt", c.tickFormat() is ts.tickFormat())
            rec.call(tag + ".copy.nice", c.nice)
            rec.call(tag + ".copy.domain(x)", c.domain, list(inp["dom2"]))
            rec.call(tag + ".copy.range(x)", c.range, [3, 4])
            rec.call(tag + ".copy.clamp(x)", c.clamp, not inp["clamp"])
            time_state(rec, tag + ".copy.state2", c)
            rec.call(tag + ".copy.ticks", c.ticks, 5)
            time_state(rec, tag + ".orig-after-copy-edit", ts)
            rec.call(tag + ".orig-after-copy-edit.call", ts, inp["pts"][2])

        # nice in its various calling conventions
        kind = inp["nice_kind"]
        if kind <= 3:
            label, args = ".nice()", ()
        elif kind <= 5:
            label, args = ".nice(%d)" % inp["nice_count"], (inp["nice_count"],)
        elif kind <= 7:
            label = ".nice(%s,%d)" % (inp["nice_interval"], inp["nice_skip"])
            args = (reg[inp["nice_interval"]], inp["nice_skip"])
        elif kind == 8:
            label, args = ".nice(%s)" % inp["nice_interval"], (reg[inp["nice_interval"]],)
        else:
            label, args = rnd_bad_nice(idx)
        ok, r = rec.call(tag + label, ts.nice, *args)
        rec.put(tag + label + " chain", r is ts if ok else None)
        time_state(rec, tag + ".state-after-nice", ts)
        for j, p in enumerate(inp["pts"][:4]):
            rec.call("%s.call-after-nice[%d]" % (tag, j), ts, p)
        rec.call(tag + ".invert-after-nice", ts.invert, inp["ys"][2])
        ok, ticks = rec.call(tag + ".ticks-after-nice", ts.ticks)
        if ok:
            rec.put(tag + ".ticks-after-nice texts", [fmt(t) for t in ticks])
        rec.call(tag + ".nice-again", ts.nice)
        time_state(rec, tag + ".state-after-nice-again", ts)

        if idx % 7 == 0:
            custom = S.TimeScale(
                S.LinearScale([0.0, 1000.0], [0, 10]),
                [[reg["day"], 1]] * 18,
                lambda d: d.isoformat(),
            )
            rec.call(tag + ".custom.domain(x)", custom.domain, list(inp["domain"]))
            ok, ticks = rec.call(tag + ".custom.ticks", custom.ticks, inp["counts"][0])
            if ok:
                rec.put(
                    tag + ".custom.texts",
                    [custom.tickFormat()(t) for t in ticks[:100]],
                )
            ok, c = rec.call(tag + ".custom.copy", custom.copy)
            if ok:
                rec.call(tag + ".custom.copy.ticks", c.ticks, inp["counts"][0])
                rec.put(
                    tag + ".custom.copy.fmt",
                    c.tickFormat() is custom.tickFormat(),
                )
            rec.call(tag + ".custom.domain(bad)", custom.domain, [1, 2])
            time_state(rec, tag + ".custom.state", custom)


def rnd_bad_nice(idx):
    options = [
        (".nice('5')", ("5",)),
        (".nice(2.5)", (2.5,)),
        (".nice(0)", (0,)),
        (".nice(None,3)", (None, 3)),
        (".nice('x')", ("x",)),
    ]
    return options[idx % len(options)]


def run_time_functions(rec, ctx, inputs, rng):
    S = ctx.scale
    D = ctx.d3t
    reg = D.d3_time
    ms = S.d3_time_scaleMilliseconds
    for idx, inp in enumerate(inputs[:500]):
        rec.begin_input()
        tag = "tfn[%d]" % idx
        a, b = inp["domain"]
        for mod, mname in ((S, "scale"), (D, "d3_time")):
            ok, v = rec.call("%s.%s.dt2milli" % (tag, mname), mod.dt2milli, a)
            if ok:
                rec.call("%s.%s.milli2dt" % (tag, mname), mod.milli2dt, v)
                rec.call("%s.%s.milli2dt+" % (tag, mname), mod.milli2dt, v + 0.75)
        rec.call(tag + ".milli2dt-overflow", S.milli2dt, 1e18)
        rec.call(tag + ".dt2milli-bad", D.dt2milli, 5)
        lo, hi = min(a, b), max(a, b)
        hi2 = min(hi, lo + timedelta(milliseconds=rng.randint(0, 400)))
        for step in (1, 2, 5, 2.9, 0.4, 0, -1):
            rec.call("%s.ms.range(%r)" % (tag, step), ms.range, lo, hi2, step)
        rec.call(tag + ".ms.range-rev", ms.range, hi2, lo, 1)
        rec.put(tag + ".ms.floor-ceil", [ms.floor(a), ms.ceil(a), ms.floor(a) is a])
        rec.call(tag + ".mytimeformat", S.mytimeformat, a)
        rec.call(tag + ".mytimeformat-b", S.mytimeformat, b)
        for name in INTERVALS:
            skip = rng.choice([2, 3, 5])
            interval = reg[name]

            def skipped(date, interval=interval, skip=skip):
                return not len(
                    interval.range(date, S.milli2dt(S.dt2milli(date) + 1), skip)
                )

            rec.call("%s.nice_floor.%s/%d" % (tag, name, skip), S.time_nice_floor, a, skipped, interval)
            rec.call("%s.nice_ceil.%s/%d" % (tag, name, skip), S.time_nice_ceil, a, skipped, interval)
        multi = S.d3_time_formatMulti(
            [
                [lambda d: "ms", lambda d: d.microsecond],
                [lambda d: "s", lambda d: d.second],
                [lambda d: "m", lambda d: d.minute],
                [lambda d: "h", lambda d: d.hour],
                [lambda d: "d", lambda d: d.day != 1],
                [lambda d: "M", lambda d: d.month != 1],
                [lambda d: "Y", lambda d: True],
            ]
        )
        rec.call(tag + ".formatMulti", multi, a)
        rec.call(tag + ".formatMulti-b", multi, b.replace(microsecond=0, second=0))
    exhausted = S.d3_time_formatMulti([[lambda d: "never", lambda d: False]])
    rec.call("tfn.formatMulti-exhausted", exhausted, datetime(2000, 1, 1))
    for t in SPECIAL_INSTANTS:
        rec.call("tfn.mytimeformat.%s" % t.isoformat(), S.mytimeformat, t)
        for unit in ("hour", "minute", "second", "microsecond"):
            rec.call(
                "tfn.mytimeformat0.%s.%s" % (t.isoformat(), unit),
                S.mytimeformat,
                t.replace(**{unit: 0}),
            )


def run_intervals(rec, ctx, inputs):
    D = ctx.d3t
    reg = D.d3_time
    rec.put("registry.keys", list(reg.keys()))
    rec.put(
        "registry.kinds",
        [
            (k, isinstance(v, D.d3_time_interval), callable(v))
            for k, v in reg.items()
        ],
    )
    for name in INTERVALS:
        rec.put(
            "registry.plural.%s" % name,
            [
                getattr(reg[name + "s"], "__self__", None) is reg[name],
                getattr(getattr(reg[name + "s"], "__func__", None), "__name__", None),
            ],
        )
    helpers = [
        "daysThisMonth",
        "getTimezoneOffset",
        "day_of_year",
        "d3_time_hour_local",
        "d3_time_week_local",
        "d3_time_week_number",
        "d3_time_month_local",
        "d3_time_year_local",
    ]
    for idx, inp in enumerate(inputs):
        rec.begin_input()
        tag = "iv[%d]" % idx
        t = inp["t"]
        for name in INTERVALS:
            interval = reg[name]
            itag = "%s.%s" % (tag, name)
            ok, fl = rec.call(itag + ".floor", interval.floor, t)
            rec.call(itag + ".call", interval, t)
            ok, ce = rec.call(itag + ".ceil", interval.ceil, t)
            rec.call(itag + ".round", interval.round, t)
            if ok:
                rec.call(itag + ".floor(ceil)", interval.floor, ce)
                rec.call(itag + ".ceil(ceil)", interval.ceil, ce)
                rec.call(itag + ".round(ceil)", interval.round, ce)
            for k in inp["ks"][name]:
                rec.call("%s.offset(%r)" % (itag, k), interval.offset, t, k)
            t1 = inp["spans"][name]
            for dt in (1, 2, 3):
                rec.call("%s.range(%d)" % (itag, dt), interval.range, t, t1, dt)
            rec.call(itag + ".plural(2)", reg[name + "s"], t, t1, 2)
            if idx % 10 == 0:
                rec.call(itag + ".range(0)", interval.range, t, t1, 0)
                rec.call(itag + ".range(1.5)", interval.range, t, t1, 1.5)
                rec.call(itag + ".range(None)", interval.range, t, t1, None)
                rec.call(itag + ".range(bad t1)", interval.range, t, 5, 1)
                rec.call(itag + ".floor(bad)", interval.floor, "x")
                rec.call(itag + ".ceil(bad)", interval.ceil, None)
                rec.call(itag + ".offset(bad)", interval.offset, t, "1")
        rec.call(tag + ".dayOfYear", reg["dayOfYear"], t)
        for h in helpers:
            rec.call("%s.%s" % (tag, h), getattr(D, h), t)
        for k in inp["ks"]["month"]:
            rec.call("%s.month_offset(%r)" % (tag, k), D.d3_time_month_offset, t, k)
        for k in inp["ks"]["day"]:
            rec.call("%s.day_offset(%r)" % (tag, k), D.d3_time_day_offset, t, k)
    # range results are fresh lists
    t0 = datetime(2016, 2, 27, 22, 30)
    for name in INTERVALS:
        t1 = t0 + timedelta(seconds=UNIT_SECONDS[name] * 40)
        r1 = reg[name].range(t0, t1, 1)
        r2 = reg[name].range(t0, t1, 1)
        rec.put(
            "iv.range-fresh.%s" % name,
            [r1 is not r2, type(r1).__name__, len(r1), r1 == r2],
        )


def public_names(mod):
    """Public names the library itself provides in a module.

    Re-exported standard-library imports (``math``, ``datetime``,
    ``deepcopy`` ...) are not part of the library's interface; everything
    else - functions, classes, lambdas and data defined by labella,
    whichever labella module they were defined in - is.
    """
    names = []
    for name, value in vars(mod).items():
        if name.startswith("_") or isinstance(value, types.ModuleType):
            continue
        if isinstance(value, type) or callable(value):
            owner = getattr(value, "__module__", None) or ""
            if not (owner == "labella" or owner.startswith("labella.")):
                continue
        names.append(name)
    return sorted(names)


def interface(root):
    scale, d3t = load(root)
    names = {
        "labella.scale": public_names(scale),
        "labella.d3_time": public_names(d3t),
    }
    purge()
    return names


def observe(root, inputs):
    scale, d3t = load(root)
    ctx = Ctx(scale, d3t)
    rec = Recorder(ctx)
    run_linear(rec, ctx, inputs["linear"])
    run_linear_functions(rec, ctx, inputs["linear"], random.Random(SEED + 1))
    run_time(rec, ctx, inputs["time"])
    run_time_functions(rec, ctx, inputs["time"], random.Random(SEED + 2))
    run_intervals(rec, ctx, inputs["interval"])
    purge()
    return rec.records


def main(argv):
    if len(argv) != 3:
        print(__doc__)
        return 2
    orig_root, new_root = argv[1], argv[2]
    assert os.path.realpath(orig_root) != os.path.realpath(new_root), (
        "the two checkouts must be different directories"
    )
    # every public module-level name of the original must still be there
    names_a = interface(orig_root)
    names_b = interface(new_root)
    for modname in names_a:
        missing = [n for n in names_a[modname] if n not in names_b[modname]]
        if missing:
            print("DIFFERENT: %s lost public names %r" % (modname, missing))
            return 1

    inputs = make_inputs()
    rec_a = observe(orig_root, inputs)
    rec_b = observe(new_root, inputs)

    for i, (a, b) in enumerate(zip(rec_a, rec_b)):
        if a != b:
            print("DIFFERENT at observation %d" % i)
            print("  original  : %s -> %r" % a)
            print("  refactored: %s -> %r" % b)
            return 1
    if len(rec_a) != len(rec_b):
        print(
            "DIFFERENT: number of observations %d vs %d"
            % (len(rec_a), len(rec_b))
        )
        return 1
    hung = sum(1 for _, v in rec_a if v == ("TIMEOUT",))
    if hung:
        print(
            "note: %d calls do not terminate in either tree "
            "(watchdog, counted as equal observations)" % hung
        )
    print("EQUIVALENT (%d cases)" % len(rec_a))
    return 0


if __name__ == "__main__":
    sys.exit(main(sys.argv))
