#!/usr/bin/env python
# -*- coding: utf-8 -*-
"""Differential test: python equiv.py <original-checkout> <refactored-checkout>

Imports the ``labella`` package from each of the two checkouts in turn, runs
the public behaviour of labella.scale / labella.d3_time (and a handful of
timelines built on top of them) on randomised and edge-case inputs with the
same seeds, and compares every outcome exactly (floats through float.hex,
exceptions by type and message, object identity relations that a caller can
observe).
"""

import itertools
import os
import random
import sys
import types

from datetime import date, datetime, timedelta

SEED = 20261002
MODULES = [
    "labella",
    "labella.d3_time",
    "labella.scale",
    "labella.utils",
    "labella.vpsc",
    "labella.removeOverlap",
    "labella.node",
    "labella.metrics",
    "labella.force",
    "labella.distributor",
    "labella.renderer",
    "labella.tex",
    "labella.timeline",
]


class Lib(object):
    pass


def load(root):
    root = os.path.realpath(root)
    for name in [
        m for m in sys.modules if m == "labella" or m.startswith("labella.")
    ]:
        del sys.modules[name]
    sys.path.insert(0, root)
    import importlib

    importlib.invalidate_caches()
    lib = Lib()
    for name in MODULES:
        mod = importlib.import_module(name)
        fname = os.path.realpath(mod.__file__)
        assert fname.startswith(root + os.sep), (name, fname, root)
        setattr(lib, name.split(".")[-1], mod)
    lib.root = root
    return lib


def unload(lib):
    while lib.root in sys.path:
        sys.path.remove(lib.root)
    for name in [
        m for m in sys.modules if m == "labella" or m.startswith("labella.")
    ]:
        del sys.modules[name]


# ---------------------------------------------------------------------------
# canonical forms


def canon(v, L):
    if v is None or isinstance(v, (bool, str, bytes)):
        return (type(v).__name__, v)
    if isinstance(v, int):
        return ("int", v)
    if isinstance(v, float):
        return ("float", v.hex())
    if isinstance(v, datetime):
        return ("datetime", type(v).__name__, v.isoformat(), repr(v.tzinfo))
    if isinstance(v, date):
        return ("date", v.isoformat())
    if isinstance(v, timedelta):
        return ("timedelta", v.days, v.seconds, v.microseconds)
    if isinstance(v, (list, tuple)):
        return (type(v).__name__, [canon(x, L) for x in v])
    if isinstance(v, dict):
        return ("dict", [(canon(k, L), canon(x, L)) for k, x in v.items()])
    if isinstance(v, types.GeneratorType):
        return ("generator", [canon(x, L) for x in itertools.islice(v, 3000)])
    reg = L.d3_time.d3_time
    for key in list(reg.keys()):
        if reg[key] is v:
            return ("registry", key)
    if v is L.scale.d3_time_scaleMilliseconds:
        return ("interval", "milliseconds")
    if isinstance(v, (L.scale.LinearScale, L.scale.TimeScale)):
        return ("scale", type(v).__name__, scale_state(v, L))
    if callable(v):
        return ("callable",)
    return ("object", type(v).__name__)


def scale_state(s, L):
    out = []
    for name in ("domain", "range", "clamp"):
        try:
            out.append(canon(getattr(s, name)(), L))
        except Exception as e:  # pragma: no cover
            out.append(("EXC", type(e).__name__, str(e)))
    return out


class Recorder(object):
    def __init__(self, L):
        self.L = L
        self.out = []

    def __call__(self, label, thunk):
        try:
            res = canon(thunk(), self.L)
        except Exception as e:
            res = ("EXC", type(e).__name__, str(e))
        self.out.append((label, res))


# ---------------------------------------------------------------------------
# input generators (consume the rng independently of library results)

SPECIAL_DATES = [
    datetime(1970, 1, 1),
    datetime(1969, 12, 31, 23, 59, 59, 999999),
    datetime(1900, 1, 1),
    datetime(1900, 2, 28, 23, 59, 59),
    datetime(1900, 3, 1),
    datetime(2000, 2, 29),
    datetime(2000, 2, 29, 12, 30, 15, 500000),
    datetime(2000, 12, 31, 23, 59, 59, 999000),
    datetime(2001, 1, 1),
    datetime(2016, 2, 29, 23, 59, 59, 999999),
    datetime(2020, 2, 29, 0, 0, 0, 1),
    datetime(2100, 2, 28),
    datetime(2100, 3, 1),
    datetime(2199, 12, 31, 23, 59, 59),
    datetime(2011, 1, 31),
    datetime(2011, 3, 31, 1, 2, 3),
    datetime(2011, 5, 31),
    datetime(2011, 8, 31),
    datetime(2011, 10, 31, 23),
    datetime(2011, 12, 31),
    datetime(2011, 12, 1),
    datetime(2011, 11, 30, 23, 59, 59, 999999),
    datetime(2012, 1, 1),
    datetime(2012, 1, 1, 0, 0, 0, 1000),
    datetime(2017, 1, 1),  # a Sunday
    datetime(2017, 1, 7, 23, 59, 59),
    datetime(2017, 1, 8),
    datetime(2023, 1, 1),  # a Sunday
    datetime(2024, 12, 29),
    datetime(2024, 12, 31, 12),
    datetime(2009, 1, 1, 0, 12),
    datetime(2009, 1, 1, 23, 48),
    datetime(2010, 6, 15, 12, 0, 0),
    datetime(2010, 6, 15, 12, 0, 30),
    datetime(2010, 6, 15, 12, 0, 59, 999999),
]

EXTREME_DATES = [
    datetime(1, 1, 1),
    datetime(1, 1, 3, 4, 5, 6),
    datetime(1, 1, 7),
    datetime(1, 12, 31),
    datetime(2, 1, 1),
    datetime(4, 2, 29),
    datetime(9999, 1, 1),
    datetime(9999, 11, 30),
    datetime(9999, 12, 1),
    datetime(9999, 12, 31, 23, 59, 59, 999999),
    datetime(9998, 12, 31),
]


def rand_date(rng, lo=1900, hi=2199):
    mode = rng.random()
    year = rng.randint(lo, hi)
    month = rng.randint(1, 12)
    if mode < 0.15:
        day = rng.choice([1, 28])
    elif mode < 0.3:
        # last day of the month
        nxt = datetime(year + (month == 12), month % 12 + 1, 1)
        day = (nxt - timedelta(days=1)).day
    else:
        day = rng.randint(1, 28)
    mode = rng.random()
    if mode < 0.2:
        return datetime(year, month, day)
    if mode < 0.3:
        return datetime(year, month, day, 23, 59, 59, 999999)
    if mode < 0.4:
        return datetime(year, month, day, rng.randint(0, 23))
    if mode < 0.5:
        return datetime(
            year, month, day, rng.randint(0, 23), rng.randint(0, 59)
        )
    if mode < 0.6:
        return datetime(
            year,
            month,
            day,
            rng.randint(0, 23),
            rng.randint(0, 59),
            rng.randint(0, 59),
        )
    if mode < 0.8:
        return datetime(
            year,
            month,
            day,
            rng.randint(0, 23),
            rng.randint(0, 59),
            rng.randint(0, 59),
            rng.randint(0, 999) * 1000,
        )
    return datetime(
        year,
        month,
        day,
        rng.randint(0, 23),
        rng.randint(0, 59),
        rng.randint(0, 59),
        rng.randint(0, 999999),
    )


def rand_number(rng):
    mode = rng.random()
    if mode < 0.2:
        return rng.randint(-1000, 1000)
    if mode < 0.3:
        return float(rng.randint(-50, 50))
    if mode < 0.5:
        return rng.uniform(-1, 1)
    if mode < 0.7:
        return rng.uniform(-1e4, 1e4)
    if mode < 0.8:
        return rng.uniform(-1, 1) * 10 ** rng.randint(-12, 12)
    if mode < 0.9:
        return rng.choice([0, 0.0, -0.0, 1, 1.0, 0.5, 10, 100, 0.1, 0.15])
    return rng.gauss(0, 100)


SPANS_MS = [
    1,
    7,
    50,
    999,
    1e3,
    5e3,
    2.5e3,
    15e3,
    3e4,
    6e4,
    3e5,
    9e5,
    18e5,
    36e5,
    108e5,
    216e5,
    432e5,
    864e5,
    1728e5,
    6048e5,
    2592e6,
    7776e6,
    31536e6,
]


def rand_time_domain(rng):
    start = rand_date(rng, 1900, 2100)
    mode = rng.random()
    if mode < 0.5:
        # span near count * step for count ~ 10
        span = rng.choice(SPANS_MS) * rng.choice([1, 3, 8, 10, 10, 12, 30])
        span *= rng.uniform(0.5, 1.5)
    elif mode < 0.7:
        span = rng.choice(SPANS_MS) * 10
    elif mode < 0.9:
        span = 10 ** rng.uniform(0, 12.4)
    else:
        span = rng.randint(0, 3)
    stop = start + timedelta(milliseconds=min(span, 31536e5 * 9))
    if stop.year >= 2200:
        stop = datetime(2199, 12, 31, 23, 59, 59)
    if rng.random() < 0.12:
        return [stop, start]
    if rng.random() < 0.1:
        mid = start + (stop - start) / 2
        return [start, mid, stop]
    return [start, stop]


# ---------------------------------------------------------------------------
# scenarios


def sc_numeric_helpers(L, rng, rec):
    S = L.scale
    for n in range(500):
        a, b = rand_number(rng), rand_number(rng)
        if rng.random() < 0.1:
            b = a
        xs = [rand_number(rng) for _ in range(4)] + [a, b, (a + b) / 2]
        for name in ("d3_uninterpolateNumber", "d3_uninterpolateClamp"):
            rec(
                "%s#%d" % (name, n),
                lambda: [getattr(S, name)(a, b)(x) for x in xs],
            )
        ts = [rng.random() for _ in range(3)] + [0, 1, 0.0, 1.0, 0.5, -1, 2]
        rec(
            "d3_interpolateNumber#%d" % n,
            lambda: [S.d3_interpolateNumber(a, b)(t) for t in ts],
        )
        rec(
            "d3_interpolate#%d" % n,
            lambda: [S.d3_interpolate(a, b)(t) for t in ts],
        )
        c, d = rand_number(rng), rand_number(rng)
        for un in ("d3_uninterpolateNumber", "d3_uninterpolateClamp"):
            rec(
                "d3_scale_bilinear/%s#%d" % (un, n),
                lambda: [
                    S.d3_scale_bilinear(
                        [a, b], [c, d], getattr(S, un), S.d3_interpolate
                    )(x)
                    for x in xs
                ],
            )
        rec("d3_scaleExtent#%d" % n, lambda: S.d3_scaleExtent([a, c, b]))
        rec("d3_ascending#%d" % n, lambda: S.d3_ascending(a, b))
    rec("d3_scale_bilinear/short", lambda: S.d3_scale_bilinear(
        [1], [0, 1], S.d3_uninterpolateNumber, S.d3_interpolate))
    rec("d3_scale_bilinear/empty", lambda: S.d3_scale_bilinear(
        [0, 1], [], S.d3_uninterpolateNumber, S.d3_interpolate))
    rec("d3_identity", lambda: [S.d3_identity(x) for x in (1, 2.5, "a")])
    rec("d3_ascending/nan", lambda: S.d3_ascending(float("nan"), 1))
    rec(
        "d3_extent",
        lambda: S.d3_extent([{"t": 3}, {"t": -1.5}, {"t": 7}], lambda d: d["t"]),
    )
    rec("d3_extent/empty", lambda: S.d3_extent([], lambda d: d))
    for n in range(300):
        bits = rng.randint(0, 31)
        val = rng.randint(-(2 ** 40), 2 ** 40)
        rec(
            "zero_fill_right_shift#%d" % n,
            lambda: S.zero_fill_right_shift(val, bits),
        )
    # bisect, ties included
    for n in range(600):
        size = rng.randint(0, 25)
        if rng.random() < 0.5:
            arr = sorted(rng.randint(0, 12) for _ in range(size))
        else:
            arr = sorted(rng.uniform(0, 10) for _ in range(size))
        probes = [rng.uniform(-1, 13), rng.randint(-1, 13)]
        if arr:
            probes += [rng.choice(arr), arr[0], arr[-1]]
        rec("d3_bisect#%d" % n, lambda: [S.d3_bisect(arr, p) for p in probes])
        lo = rng.randint(0, size)
        hi = rng.randint(lo, size)
        rec(
            "d3_bisect/lohi#%d" % n,
            lambda: [S.d3_bisect(arr, p, lo, hi) for p in probes],
        )
    rec(
        "d3_bisect/steps",
        lambda: [
            S.d3_bisect(S.d3_time_scaleSteps, x)
            for x in list(S.d3_time_scaleSteps)
            + [x - 1 for x in S.d3_time_scaleSteps]
            + [x + 0.5 for x in S.d3_time_scaleSteps]
            + [0, -1, float("inf"), float("nan")]
        ],
    )


def sc_drange(L, rng, rec):
    S = L.scale
    rec("drange/type", lambda: type(S.drange(0, 1)).__name__)
    rec("drange/default", lambda: S.drange(0, 10))
    rec("drange/lazy-args", lambda: type(S.drange("a", 1, None)).__name__)
    rec("drange/bad-args", lambda: list(S.drange("a", 1, None)))
    rec("drange/bad-step", lambda: list(S.drange(0, 1, "x")))
    rec(
        "drange/infinite-lazy",
        lambda: list(itertools.islice(S.drange(0, 1, 0), 5)),
    )
    for n in range(400):
        start = rand_number(rng)
        step = abs(rand_number(rng)) or 1
        count = rng.randint(0, 40)
        stop = start + step * count + step * rng.random()
        rec(
            "drange#%d" % n,
            lambda: list(itertools.islice(S.drange(start, stop, step), 200)),
        )
    rec("drange/0.1", lambda: list(S.drange(0, 1.05, 0.1)))
    rec("drange/empty", lambda: list(S.drange(5, 5, 0)))
    rec("drange/negative", lambda: list(S.drange(5, 1, 1)))


def sc_linear_ticks(L, rng, rec):
    S = L.scale
    ms = [None, 1, 2, 3, 5, 7, 10, 12, 20, 50, 100, 0, -3, 2.5]
    for n in range(700):
        mode = rng.random()
        if mode < 0.3:
            a = rng.randint(-100, 100)
            b = a + rng.randint(0, 200)
        elif mode < 0.6:
            a = rng.uniform(-10, 10)
            b = a + 10 ** rng.uniform(-8, 8)
        elif mode < 0.8:
            a = rand_number(rng)
            b = rand_number(rng)
        else:
            # spans that put err close to the ladder thresholds
            m0 = rng.choice([5, 10, 20])
            step = 10.0 ** rng.randint(-3, 3)
            err = rng.choice([0.15, 0.35, 0.75, 0.1, 0.2, 0.5, 1.0])
            a = float(rng.randint(-5, 5))
            b = a + m0 * step / err
        dom = [a, b]
        if rng.random() < 0.15:
            dom = [b, a]
        if rng.random() < 0.1:
            dom = [a, (a + b) / 2, b]
        m = rng.choice(ms)
        rec(
            "linearTickRange#%d" % n,
            lambda: S.d3_scale_linearTickRange(list(dom), m),
        )
        rec(
            "linearTickRange/default#%d" % n,
            lambda: S.d3_scale_linearTickRange(list(dom)),
        )

        def ticks():
            g = S.d3_scale_linearTicks(list(dom), m)
            return [type(g).__name__, list(itertools.islice(g, 400))]

        rec("linearTicks#%d" % n, ticks)

        def fmt():
            f = S.d3_scale_linearTickFormat(list(dom), m)
            return [f(x) for x in (a, b, 0, 1.23456789, -7, 1e6, 2.5e-7)]

        rec("linearTickFormat#%d" % n, fmt)

        def nice():
            d = list(dom)
            r = S.d3_scale_linearNice(d, m)
            return [r is d, r]

        rec("linearNice#%d" % n, nice)
        v = rng.choice([a, b, abs(a), abs(b) + 1e-9, 0, 0.0, 1, 10, 0.1])
        rec(
            "linearPrecision#%d" % n, lambda: S.d3_scale_linearPrecision(v)
        )
    for v in (0, 0.0, None, 1, 10, 100, 1000, 0.1, 0.01, 0.001, 0.5, 5, 2e-7,
              1e21, -1, float("inf"), float("nan"), 0.977, 0.978, 9.77, 9.78):
        rec("linearPrecision/%r" % (v,),
            lambda: S.d3_scale_linearPrecision(v))
    rec("linearTickRange/empty", lambda: S.d3_scale_linearTickRange([], 10))
    rec("linearTickRange/one", lambda: S.d3_scale_linearTickRange([3], 10))
    rec("linearTickRange/inf",
        lambda: S.d3_scale_linearTickRange([0, float("inf")], 10))
    rec("linearTickRange/nan",
        lambda: S.d3_scale_linearTickRange([0, float("nan")], 10))
    rec("linearTickRange/str", lambda: S.d3_scale_linearTickRange(["a", "b"]))
    # nice steps
    for n in range(400):
        step = rng.choice(
            [0, 0.0, None, 1, 2, 5, 10, 0.1, 0.25, 1e-3, 100.0, -2,
             abs(rand_number(rng))]
        )
        xs = [rand_number(rng) for _ in range(4)]

        def nstep():
            d = S.d3_scale_niceStep(step)
            return [
                type(d).__name__,
                list(d.keys()),
                [d["floor"](x) for x in xs],
                [d["ceil"](x) for x in xs],
            ]

        rec("niceStep#%d" % n, nstep)

        def nice_dict():
            d = [xs[0], xs[1], xs[2]]
            r = S.d3_scale_nice(d, S.d3_scale_niceStep(step))
            return [r is d, r]

        rec("scale_nice/dict#%d" % n, nice_dict)
    rec("niceStep/str", lambda: S.d3_scale_niceStep(2)["floor"]("a"))
    rec("scale_nice/empty", lambda: S.d3_scale_nice([], S.d3_scale_niceStep(1)))


def make_linear(L, rng):
    S = L.scale
    a, b = rand_number(rng), rand_number(rng)
    c, d = rand_number(rng), rand_number(rng)
    r = rng.random()
    if r < 0.08:
        b = a
    elif r < 0.16:
        d = c
    clamp = rng.random() < 0.4
    mode = rng.random()
    if mode < 0.3:
        s = S.LinearScale([a, b], [c, d], None, clamp)
    elif mode < 0.6:
        s = S.LinearScale().domain([a, b]).range([c, d]).clamp(clamp)
    elif mode < 0.8:
        s = S.LinearScale(clamp=clamp).range([c, d]).domain([a, b])
    else:
        s = S.LinearScale(_range=[c, d], domain=[a, b])
    return s, (a, b, c, d)


def sc_linear_scale(L, rng, rec):
    S = L.scale
    rec("LinearScale/default", lambda: S.LinearScale())
    rec("LinearScale/default/interp",
        lambda: S.LinearScale().interpolate() is S.d3_interpolate)
    for n in range(500):
        try:
            s, (a, b, c, d) = make_linear(L, rng)
        except Exception as e:
            rec("LinearScale/make#%d" % n, lambda: (_ for _ in ()).throw(e))
            continue
        xs = [rand_number(rng) for _ in range(5)] + [a, b, c, d, (a + b) / 2]
        rec("LinearScale/state#%d" % n, lambda: s)
        rec("LinearScale/scale#%d" % n, lambda: [s.scale(x) for x in xs])
        rec("LinearScale/call#%d" % n, lambda: [s(x) for x in xs])
        rec("LinearScale/invert#%d" % n, lambda: [s.invert(x) for x in xs])
        rec("LinearScale/rangeRound#%d" % n, lambda: s.rangeRound([0, 1]))
        m = rng.choice([None, None, 2, 5, 10, 20, 0])

        def ticks():
            g = s.ticks(m)
            return [type(g).__name__, list(itertools.islice(g, 400))]

        rec("LinearScale/ticks#%d" % n, ticks)
        rec(
            "LinearScale/tickFormat#%d" % n,
            lambda: [s.tickFormat(m)(x) for x in xs],
        )
        rec("LinearScale/tickFormat0#%d" % n,
            lambda: [s.tickFormat()(x) for x in xs[:2]])

        def chaining():
            lst = [c, d]
            dl = [a, b]
            out = [
                s.domain(dl) is s,
                s.domain() is dl,
                s.domain() is s.domain(),
                s.range(lst) is s,
                s.range() is lst,
                s.clamp(s.clamp()) is s,
                s.interpolate(s.interpolate()) is s,
                s.interpolate() is S.d3_interpolate,
                s.rescale() is s,
                s.domain(None) is s.domain(),
                s.range(None) is lst,
                s.clamp(None),
                s.interpolate(None) is S.d3_interpolate,
            ]
            return out

        rec("LinearScale/chaining#%d" % n, chaining)

        def copying():
            cp = s.copy()
            out = [
                type(cp).__name__,
                cp is s,
                cp,
                cp.domain() is s.domain(),
                cp.range() is s.range(),
                cp.interpolate() is s.interpolate(),
                [cp(x) for x in xs],
                [cp.invert(x) for x in xs],
                sorted(vars(cp)) == sorted(vars(s)),
                list(vars(cp)) == list(vars(s)),
            ]
            cp.domain().append(5.0)
            cp.range().append(7.0)
            out.append(s)
            cp.domain([1, 2]).range([3, 4]).clamp(not s.clamp())
            out.append(s)
            out.append(cp)
            out.append([s(x) for x in xs])
            s.domain()[0] = 99.0
            s.rescale()
            out.append([cp(x) for x in xs])
            out.append([s(x) for x in xs])
            return out

        rec("LinearScale/copy#%d" % n, copying)

        def nicing():
            s2, _ = s.copy(), None
            before = s2.domain()
            r = s2.nice(m)
            return [r is s2, s2, s2.domain() is before, before,
                    [s2(x) for x in xs]]

        rec("LinearScale/nice#%d" % n, nicing)

        def clamp_toggle():
            s2 = s.copy()
            out = [s2.clamp(True) is s2, [s2(x) for x in xs],
                   [s2.invert(x) for x in xs]]
            out += [s2.clamp(False) is s2, [s2(x) for x in xs]]
            out += [s2.clamp(0) is s2, s2.clamp(), s2.clamp(1).clamp()]
            return out

        rec("LinearScale/clamp#%d" % n, clamp_toggle)

        def custom_interp():
            s2 = s.copy()
            calls = []

            def interp(p, q):
                calls.append((p, q))
                return lambda t: [p, q, t]

            s2.interpolate(interp)
            return [s2.interpolate() is interp, calls, [s2(x) for x in xs],
                    [s2.invert(x) for x in xs],
                    s2.copy().interpolate() is interp]

        rec("LinearScale/custom-interp#%d" % n, custom_interp)
    # setters with unusual arguments
    for label, arg in [
        ("empty", []),
        ("one", [1]),
        ("three", [1, 2, 3]),
        ("tuple", (3, 4)),
        ("strs", ["1", "2"]),
        ("bad", ["a", "b"]),
        ("zero", 0),
        ("false", False),
        ("str", "12"),
        ("gen", None),
    ]:
        for meth in ("domain", "range", "clamp", "interpolate"):

            def setter():
                s = S.LinearScale([0, 10], [0, 100])
                out = []
                try:
                    r = getattr(s, meth)(arg)
                    out.append(r is s)
                    out.append(canon(r, L))
                except Exception as e:
                    out.append(("EXC", type(e).__name__, str(e)))
                out.append(s)
                try:
                    out.append([s(2), s.invert(30)])
                except Exception as e:
                    out.append(("EXC", type(e).__name__, str(e)))
                return out

            rec("LinearScale/%s(%s)" % (meth, label), setter)
    rec("LinearScale/ctor-empty", lambda: S.LinearScale([], []))
    rec("LinearScale/ctor-shared",
        lambda: (lambda d, r: [S.LinearScale(d, r).domain() is d,
                               S.LinearScale(d, r).range() is r])([0, 1],
                                                                  [2, 3]))


INTERVALS = ["second", "minute", "hour", "day", "week", "month", "year"]
APPROX_MS = {
    "second": 1e3,
    "minute": 6e4,
    "hour": 36e5,
    "day": 864e5,
    "week": 6048e5,
    "month": 2592e6,
    "year": 31536e6,
}


def sc_registry(L, rng, rec):
    T = L.d3_time
    S = L.scale
    reg = T.d3_time
    rec("registry/keys", lambda: list(reg.keys()))
    rec("registry/len", lambda: len(reg))
    rec("registry/in", lambda: ["day" in reg, "fortnight" in reg])
    rec("registry/missing", lambda: reg["fortnight"])
    rec("registry/get", lambda: [reg.get("day") is reg["day"],
                                 reg.get("nope"), reg.get("nope", 3)])
    rec("registry/items", lambda: [k for k, _ in reg.items()])
    rec("registry/values", lambda: len(list(reg.values())))
    rec("registry/iter", lambda: list(iter(reg)))
    rec("registry/same", lambda: S.d3_time is T.d3_time)
    rec(
        "registry/kinds",
        lambda: [
            (k, type(reg[k]).__name__, callable(reg[k])) for k in reg.keys()
        ],
    )
    rec(
        "registry/plural-bound",
        lambda: [
            getattr(reg[k + "s"], "__self__", None) is reg[k]
            for k in INTERVALS
        ],
    )
    rec(
        "interval/attrs",
        lambda: [
            sorted(a for a in dir(reg[k]) if not a.startswith("_"))
            for k in INTERVALS
        ],
    )
    rec("interval/class", lambda: [
        T.d3_time_interval.__name__,
        isinstance(reg["day"], T.d3_time_interval),
        S.d3TimeScaleMilliseconds.__name__,
        isinstance(S.d3_time_scaleMilliseconds, S.d3TimeScaleMilliseconds),
        callable(S.d3_time_scaleMilliseconds),
        sorted(a for a in dir(S.d3_time_scaleMilliseconds)
               if not a.startswith("_")),
    ])
    rec("interval/new", lambda: (lambda iv: [iv.floor(5), iv.ceil(
        datetime(2000, 1, 1)), iv.offset(3, 2), iv(7)])(T.d3_time_interval(
            lambda d: d, lambda d, k: d, lambda d: 0)))
    rec("ms/new", lambda: (lambda iv: [iv.floor(5), iv.ceil(6), iv.range(
        datetime(2000, 1, 1), datetime(2000, 1, 1, 0, 0, 0, 5000), 2)])(
            S.d3TimeScaleMilliseconds()))
    rec("tables/steps", lambda: S.d3_time_scaleSteps)
    rec("tables/steps-types",
        lambda: [type(x).__name__ for x in S.d3_time_scaleSteps])
    rec("tables/methods", lambda: S.d3_time_scaleLocalMethods)
    rec(
        "tables/methods-types",
        lambda: [
            (type(m).__name__, type(m[1]).__name__, len(m))
            for m in S.d3_time_scaleLocalMethods
        ],
    )
    rec(
        "tables/methods-distinct",
        lambda: len(set(map(id, S.d3_time_scaleLocalMethods))),
    )
    rec("tables/types", lambda: [type(S.d3_time_scaleSteps).__name__,
                                 type(S.d3_time_scaleLocalMethods).__name__])
    rec("tables/default-methods", lambda: S.TimeScale()._methods
        is S.d3_time_scaleLocalMethods)
    rec("epoch", lambda: [S.EPOCH, T.EPOCH])


def sc_intervals(L, rng, rec):
    T = L.d3_time
    reg = T.d3_time
    dates = (
        list(SPECIAL_DATES)
        + list(EXTREME_DATES)
        + [rand_date(rng) for _ in range(450)]
    )
    for n, dt in enumerate(dates):
        for name in INTERVALS:
            iv = reg[name]
            rec("%s.floor#%d" % (name, n), lambda: iv.floor(dt))
            rec("%s.call#%d" % (name, n), lambda: iv(dt))
            rec("%s.ceil#%d" % (name, n), lambda: iv.ceil(dt))
            rec("%s.round#%d" % (name, n), lambda: iv.round(dt))
            k = rng.choice([0, 1, 1, 2, 3, 5, 11, 12, 13, 24, 25, 40, -1, -2,
                            1.0, 2.5, -0.5, 1200])
            rec("%s.offset(%r)#%d" % (name, k, n), lambda: iv.offset(dt, k))
            rec("%s.offset(1)#%d" % (name, n), lambda: iv.offset(dt, 1))
            rec("%s._number#%d" % (name, n), lambda: iv._number(dt))
            rec("%s._step#%d" % (name, n), lambda: iv._step(dt, 1))
            rec("%s._local#%d" % (name, n), lambda: iv._local(dt))
            # ranges
            count = rng.randint(0, 30)
            span = APPROX_MS[name] * count * rng.uniform(0.9, 1.1)
            step = rng.choice([1, 1, 2, 3, 4, 5, 6, 7, 10, 12, 15, 30, 0, 0.5,
                               -1, 1.5, 100])
            try:
                t1 = dt + timedelta(milliseconds=span)
            except OverflowError:
                t1 = dt
            rec(
                "%s.range(%r)#%d" % (name, step, n),
                lambda: iv.range(dt, t1, step),
            )
            if n % 5 == 0:
                rec(
                    "%ss(%r)#%d" % (name, step, n),
                    lambda: reg[name + "s"](dt, t1, step),
                )

                def fresh():
                    r = iv.range(dt, t1, 1)
                    r2 = iv.range(dt, t1, 1)
                    return [r == r2, r is r2, type(r).__name__]

                rec("%s.range/fresh#%d" % (name, n), fresh)
        rec("dayOfYear#%d" % n, lambda: reg["dayOfYear"](dt))
        rec("day_of_year#%d" % n, lambda: T.day_of_year(dt))
        rec("week_number#%d" % n, lambda: T.d3_time_week_number(dt))
        rec("week_local#%d" % n, lambda: T.d3_time_week_local(dt))
        rec("month_local#%d" % n, lambda: T.d3_time_month_local(dt))
        rec("year_local#%d" % n, lambda: T.d3_time_year_local(dt))
        rec("hour_local#%d" % n, lambda: T.d3_time_hour_local(dt))
        rec("daysThisMonth#%d" % n, lambda: T.daysThisMonth(dt))
        rec("tz#%d" % n, lambda: T.getTimezoneOffset(dt))
        k = rng.choice([0, 1, 2, 7, 11, 12, 13, 23, 24, 25, 36, 100, -1, 1.0])
        rec("month_offset(%r)#%d" % (k, n),
            lambda: T.d3_time_month_offset(dt, k))
        rec("day_offset(%r)#%d" % (k, n), lambda: T.d3_time_day_offset(dt, k))
        rec("milli#%d" % n, lambda: [T.dt2milli(dt), L.scale.dt2milli(dt),
                                     T.milli2dt(T.dt2milli(dt)),
                                     L.scale.milli2dt(T.dt2milli(dt) + 0.5)])
    # plain dates and other argument kinds
    for n, d in enumerate([date(2020, 2, 29), date(1999, 12, 31),
                           date(2017, 1, 1), date(2011, 5, 18)]):
        for name in INTERVALS:
            iv = reg[name]
            rec("%s.floor/date#%d" % (name, n), lambda: iv.floor(d))
            rec("%s.ceil/date#%d" % (name, n), lambda: iv.ceil(d))
            rec("%s.offset/date#%d" % (name, n), lambda: iv.offset(d, 2))
            rec("%s.range/date#%d" % (name, n),
                lambda: iv.range(d, d + timedelta(days=40), 1))
        rec("year_local/date#%d" % n, lambda: T.d3_time_year_local(d))
        rec("week_local/date#%d" % n, lambda: T.d3_time_week_local(d))
        rec("month_local/date#%d" % n, lambda: T.d3_time_month_local(d))
    for name in INTERVALS:
        iv = reg[name]
        for bad in (None, 5, "2020-01-01", 3.5):
            rec("%s.floor/bad(%r)" % (name, bad), lambda: iv.floor(bad))
            rec("%s.ceil/bad(%r)" % (name, bad), lambda: iv.ceil(bad))
            rec("%s.range/bad(%r)" % (name, bad),
                lambda: iv.range(bad, datetime(2000, 1, 1), 1))
        rec("%s.range/none-step" % name,
            lambda: iv.range(datetime(2000, 1, 1), datetime(2000, 1, 2), None))
        rec("%s.range/none-stop" % name,
            lambda: iv.range(datetime(2000, 1, 1), None, 1))
        rec("%s.range/reversed" % name,
            lambda: iv.range(datetime(2000, 1, 2), datetime(2000, 1, 1), 1))
        rec("%s.offset/none" % name,
            lambda: iv.offset(datetime(2000, 1, 1), None))

    class Stamp(datetime):
        pass

    sub = Stamp(2015, 7, 19, 13, 14, 15, 161718)
    for name in INTERVALS:
        iv = reg[name]
        rec("%s/subclass" % name, lambda: [iv.floor(sub), iv.ceil(sub),
                                           iv.offset(sub, 1),
                                           iv.range(sub, sub + timedelta(
                                               milliseconds=APPROX_MS[name]
                                               * 20), 3)])


def sc_milliseconds(L, rng, rec):
    S = L.scale
    ms = S.d3_time_scaleMilliseconds
    for n in range(300):
        t0 = rand_date(rng)
        step = rng.choice([1, 2, 5, 10, 20, 50, 100, 200, 500, 1.0, 2.5, 7])
        t1 = t0 + timedelta(milliseconds=rng.uniform(0, 40) * step)
        rec("ms.range#%d" % n, lambda: ms.range(t0, t1, step))
        rec("ms.floor#%d" % n, lambda: ms.floor(t0) is t0)
        rec("ms.ceil#%d" % n, lambda: ms.ceil(t0) is t0)
    t0 = datetime(2000, 1, 1)
    rec("ms.range/zero", lambda: ms.range(t0, t0, 0))
    rec("ms.range/frac", lambda: ms.range(t0, t0, 0.5))
    rec("ms.range/none", lambda: ms.range(t0, t0, None))
    rec("ms.range/bad", lambda: ms.range(None, t0, 1))
    rec("ms.range/neg", lambda: ms.range(t0, t0 + timedelta(seconds=1), -100))


def sc_format(L, rng, rec):
    S = L.scale
    dates = list(SPECIAL_DATES) + EXTREME_DATES[:4] + [
        rand_date(rng) for _ in range(500)]
    for n, dt in enumerate(dates):
        rec("mytimeformat#%d" % n, lambda: S.mytimeformat(dt))
    for n, d in enumerate([date(2020, 1, 1), date(2020, 3, 1),
                           date(2020, 3, 8), date(2020, 3, 9)]):
        rec("mytimeformat/date#%d" % n, lambda: S.mytimeformat(d))
    rec("mytimeformat/none", lambda: S.mytimeformat(None))
    fm = S.d3_time_formatMulti(
        [
            [lambda d: d.strftime(".%f"), lambda d: d.microsecond],
            [lambda d: d.strftime(":%S"), lambda d: d.second],
            [lambda d: d.strftime("%H:%M"), lambda d: d.minute],
            [lambda d: d.strftime("%Y"), lambda d: d.month == 1],
        ]
    )
    for n, dt in enumerate(dates[:120]):
        rec("formatMulti#%d" % n, lambda: fm(dt))
    rec("tickFormat/default", lambda: S.TimeScale().tickFormat() is
        S.mytimeformat)
    f = lambda d: "x"
    rec("tickFormat/custom", lambda: S.TimeScale(fmt=f).tickFormat() is f)


def sc_time_scale(L, rng, rec):
    S = L.scale
    T = L.d3_time
    reg = T.d3_time
    rec("TimeScale/default", lambda: S.TimeScale())
    for n in range(650):
        dom = rand_time_domain(rng)
        rng_pair = [rand_number(rng), rand_number(rng)]
        count = rng.choice([None, None, None, 1, 2, 3, 5, 8, 10, 15, 20, 40])
        probes = [rand_date(rng) for _ in range(3)] + list(dom)
        ys = [rand_number(rng) for _ in range(3)] + rng_pair

        def build():
            return S.TimeScale().domain(list(dom)).range(list(rng_pair))

        rec("TimeScale/state#%d" % n, build)
        rec("TimeScale/call#%d" % n,
            lambda: (lambda s: [s(p) for p in probes])(build()))
        rec("TimeScale/invert#%d" % n,
            lambda: (lambda s: [s.invert(y) for y in ys])(build()))

        def ticks():
            s = build()
            t = s.ticks() if count is None else s.ticks(count)
            return [type(t).__name__, len(t), t, s,
                    [s.tickFormat()(x) for x in t], [s(x) for x in t]]

        rec("TimeScale/ticks(%r)#%d" % (count, n), ticks)

        def nice():
            s = build()
            r = s.nice() if count is None else s.nice(count)
            return [r is s, s, s.ticks()]

        rec("TimeScale/nice(%r)#%d" % (count, n), nice)

        def method():
            s = build()
            ext = list(map(S.dt2milli, S.d3_scaleExtent(s.domain())))
            m = s.tickMethod(ext, 10 if count is None else count)
            return [type(m).__name__, m, ext]

        rec("TimeScale/tickMethod(%r)#%d" % (count, n), method)

        if n % 3 == 0:
            name = rng.choice(INTERVALS)
            skip = rng.choice([0, 1, 1, 2, 3, 4, 5, 6, 10, 12])
            span = abs((dom[-1] - dom[0]).total_seconds() * 1000.0)
            if span / APPROX_MS[name] < 3000:

                def nice_iv():
                    s = build()
                    r = s.nice(reg[name])
                    out = [r is s, canon(s, L)]
                    s2 = build()
                    r2 = s2.nice(reg[name], skip)
                    out += [r2 is s2, canon(s2, L)]
                    return out

                rec("TimeScale/nice(%s,%r)#%d" % (name, skip, n), nice_iv)

                def ticks_iv():
                    s = build()
                    return s.ticks(reg[name], skip)

                rec("TimeScale/ticks(%s,%r)#%d" % (name, skip, n), ticks_iv)

        if n % 4 == 0:

            def chaining():
                s = build()
                lst = [3, 4]
                f = lambda a, b: (lambda t: a * (1 - t) + b * t)
                out = [
                    s.domain(list(dom)) is s,
                    s.domain() == s.domain(),
                    s.domain() is s.domain(),
                    s.domain(None),
                    s.range(lst) is s,
                    s.range() is lst,
                    s.range(None) is lst,
                    s.clamp(True) is s,
                    s.clamp(),
                    s.clamp(None),
                    [s(p) for p in probes],
                    s.clamp(False) is s,
                    s.clamp(),
                    s.interpolate() is S.d3_interpolate,
                    s.interpolate(f) is s,
                    s.interpolate() is f,
                    s.interpolate(None) is f,
                    [s(p) for p in probes],
                    s.rangeRound([0, 1]),
                    s.tickFormat() is S.mytimeformat,
                    canon(s, L),
                ]
                return out

            rec("TimeScale/chaining#%d" % n, chaining)

            def copying():
                s = build()
                cp = s.copy()
                out = [
                    type(cp).__name__,
                    cp is s,
                    canon(cp, L),
                    cp._linear is s._linear,
                    type(cp._linear).__name__,
                    cp._methods is s._methods,
                    cp._format is s._format,
                    cp.range() is s.range(),
                    [cp(p) for p in probes],
                ]
                cp.range().append(1)
                cp.domain([datetime(2000, 1, 1), datetime(2001, 1, 1)])
                cp.range([5, 6]).clamp(True)
                out += [canon(s, L), canon(cp, L), [s(p) for p in probes]]
                cp.nice()
                out += [canon(s, L), canon(cp, L)]
                return out

            rec("TimeScale/copy#%d" % n, copying)

    # tickMethod on raw extents, around every threshold
    s = S.TimeScale()
    steps = list(S.d3_time_scaleSteps)
    for n in range(900):
        count = rng.choice([1, 2, 3, 5, 7, 10, 10, 10, 20, 50])
        mode = rng.random()
        if mode < 0.35:
            target = rng.choice(steps)
            target *= rng.choice([1, 1, 0.5, 2, 0.999999, 1.000001, 1.5, 3])
        elif mode < 0.6:
            i = rng.randrange(len(steps) - 1)
            target = (steps[i] * steps[i + 1]) ** 0.5
            target *= rng.choice([1, 1 - 1e-12, 1 + 1e-12, 0.99, 1.01])
        elif mode < 0.9:
            target = 10 ** rng.uniform(-1, 13)
        else:
            target = rng.choice([0, 0.5, 1, 999, 1e3, 31536e6, 4e10, 1e13])
        start = float(rng.randint(-2 * 10 ** 12, 4 * 10 ** 12))
        ext = [start, start + target * count]
        rec("tickMethod/raw#%d" % n, lambda: s.tickMethod(list(ext), count))
    rec("tickMethod/zero-count", lambda: s.tickMethod([0.0, 1e6], 0))
    rec("tickMethod/nan", lambda: s.tickMethod([0.0, float("nan")], 10))
    rec("tickMethod/inf", lambda: s.tickMethod([0.0, float("inf")], 10))
    rec("tickMethod/neg", lambda: s.tickMethod([1e6, 0.0], 10))
    rec("tickMethod/short", lambda: s.tickMethod([1e6], 10))
    rec("tickMethod/ints", lambda: s.tickMethod([0, 10 ** 9], 10))
    rec("tickMethod/none", lambda: s.tickMethod([0.0, 1e9], None))
    custom = [[reg["day"], k] for k in range(18)]
    s3 = S.TimeScale(methods=custom)
    rec("tickMethod/custom", lambda: [
        s3.tickMethod([0.0, x * 10], 10) is custom[i]
        for i, x in enumerate(steps)])
    rec("tickMethod/custom-short", lambda: S.TimeScale(
        methods=custom[:3]).tickMethod([0.0, 864e6], 10))
    rec("TimeScale/ctor", lambda: (lambda lin: [
        S.TimeScale(lin)._linear is lin,
        S.TimeScale(lin, custom)._methods is custom])(S.LinearScale()))
    d0 = [datetime(2009, 1, 1, 0, 12), datetime(2009, 1, 1, 23, 48)]
    for label, arg in [("empty", []), ("one", [d0[0]]), ("numbers", [1, 2]),
                       ("tuple", tuple(d0)), ("zero", 0), ("str", "ab")]:
        for meth in ("domain", "range", "clamp", "interpolate"):

            def setter():
                sc = S.TimeScale().domain(list(d0)).range([0, 100])
                out = []
                try:
                    r = getattr(sc, meth)(arg)
                    out.append(r is sc)
                    out.append(canon(r, L))
                except Exception as e:
                    out.append(("EXC", type(e).__name__, str(e)))
                out.append(canon(sc, L))
                try:
                    out.append(sc(d0[1]))
                except Exception as e:
                    out.append(("EXC", type(e).__name__, str(e)))
                return out

            rec("TimeScale/%s(%s)" % (meth, label), setter)
    for label, args in [("str-num", ("7",)), ("float", (7.5,)),
                        ("zero", (0,)), ("neg", (-5,)), ("str", ("day",)),
                        ("bool", (True,)), ("iv-none-skip", (reg["day"], None)),
                        ("none-skip5", (None, 5)),
                        ("list", ([reg["day"], 2],))]:

        def nice_args():
            sc = S.TimeScale().domain(list(d0)).range([0, 100])
            out = []
            try:
                out.append(sc.nice(*args) is sc)
            except Exception as e:
                out.append(("EXC", type(e).__name__, str(e)))
            out.append(canon(sc, L))
            sc = S.TimeScale().domain(list(d0)).range([0, 100])
            try:
                out.append(canon(sc.ticks(*args), L))
            except Exception as e:
                out.append(("EXC", type(e).__name__, str(e)))
            return out

        rec("TimeScale/nice-ticks(%s)" % label, nice_args)
    rec("TimeScale/nice-empty", lambda: S.TimeScale().domain([]))
    rec("time_nice_floor", lambda: S.time_nice_floor(
        datetime(2011, 5, 18, 13), lambda d: d.day % 2, reg["day"]))
    rec("time_nice_ceil", lambda: S.time_nice_ceil(
        datetime(2011, 5, 18, 13), lambda d: d.day % 2 == 0, reg["day"]))


def rand_color(rng):
    return "#%06x" % rng.randint(0, 0xFFFFFF)


def sc_timelines(L, rng, rec):
    TL = L.timeline
    S = L.scale
    words = ["alpha", "beta", "gamma", "delta", "epsilon", "zeta", "eta",
             "theta", "iota", "kappa", "lambda", "mu"]
    for n in range(36):
        numeric = n % 3 == 2
        nitems = rng.randint(2, 24)
        direction = rng.choice(["up", "down", "left", "right"])
        items = []
        if numeric:
            lo = rng.uniform(-100, 100)
            span = 10 ** rng.uniform(0, 4)
            for _ in range(nitems):
                items.append({"time": lo + span * rng.random()})
        else:
            start = rand_date(rng, 1950, 2100)
            span = rng.choice(SPANS_MS[8:]) * rng.uniform(2, 30)
            for _ in range(nitems):
                items.append(
                    {"time": start + timedelta(
                        milliseconds=span * rng.random())})
        for it in items:
            it["text"] = rng.choice(words)
            it["width"] = rng.randint(20, 70)
        options = {
            "direction": direction,
            "initialWidth": rng.choice([400, 600, 804, 1000]),
            "initialHeight": rng.choice([250, 400, 600]),
            "layerGap": rng.choice([40, 60]),
            "dotColor": rand_color(rng),
            "labelBgColor": rand_color(rng),
            "linkColor": rand_color(rng),
            "showTicks": rng.random() < 0.9,
            "latex": {"reproducible": True},
        }
        use_domain = rng.random() < 0.4
        for kind in ("svg", "tex"):

            def export():
                opts = dict(options)
                opts["latex"] = dict(options["latex"])
                data = [dict(d) for d in items]
                if numeric:
                    opts["scale"] = S.LinearScale()
                    if use_domain:
                        ts = [d["time"] for d in data]
                        opts["domain"] = [min(ts) - 1, max(ts) + 1]
                elif use_domain:
                    ts = [d["time"] for d in data]
                    opts["domain"] = [min(ts) - timedelta(days=1),
                                      max(ts) + timedelta(days=1)]
                if kind == "svg":
                    tl = TL.TimelineSVG(data, options=opts)
                    text = tl.export()
                else:
                    tl = TL.TimelineTex(data, options=opts)
                    text = tl.export(None, build_pdf=False)
                if numeric and not use_domain:
                    # LinearScale.nice() takes a tick count, the timeline
                    # calls it without one: fine either way, keep the text
                    pass
                return [text, canon(tl.options["scale"], L)]

            rec("timeline/%s#%d" % (kind, n), export)


SCENARIOS = [
    sc_registry,
    sc_numeric_helpers,
    sc_drange,
    sc_linear_ticks,
    sc_linear_scale,
    sc_intervals,
    sc_milliseconds,
    sc_format,
    sc_time_scale,
    sc_timelines,
]


def run(root):
    L = load(root)
    try:
        out = []
        for i, sc in enumerate(SCENARIOS):
            rng = random.Random(SEED + i)
            rec = Recorder(L)
            sc(L, rng, rec)
            out.extend(rec.out)
        return out
    finally:
        unload(L)


def main(argv):
    if len(argv) != 3:
        print("usage: equiv.py <original-checkout> <refactored-checkout>")
        return 2
    a = run(argv[1])
    b = run(argv[2])
    if len(a) != len(b):
        print("DIFFERENT number of cases: %d vs %d" % (len(a), len(b)))
        return 1
    for (la, ra), (lb, rb) in zip(a, b):
        if la != lb or ra != rb:
            print("DIFFERENCE in case %s / %s" % (la, lb))
            print("  original  : %r" % (ra,))
            print("  refactored: %r" % (rb,))
            return 1
    print("EQUIVALENT (%d cases)" % len(a))
    return 0


if __name__ == "__main__":
    sys.exit(main(sys.argv))
