#!/usr/bin/env python
"""Differential equivalence test (see meta.json for the refactoring).

Usage: python equiv.py <original-checkout> <refactored-checkout>
"""
import datetime
import importlib
import math
import sys
import types


def load_tree(path):
    """Import the labella package found in `path`; return {modname: module}.

    The package uses absolute imports, so both trees are imported under the
    real name one after the other and sys.modules is purged in between.
    """
    def purge():
        for k in list(sys.modules):
            if k == "labella" or k.startswith("labella."):
                del sys.modules[k]

    purge()
    sys.path.insert(0, path)
    try:
        importlib.invalidate_caches()
        for name in ("labella.utils", "labella.tex", "labella.timeline",
                     "labella.scale", "labella.node"):
            importlib.import_module(name)
        mods = {k: v for k, v in sys.modules.items()
                if k == "labella" or k.startswith("labella.")}
    finally:
        sys.path.remove(path)
        purge()
    for m in mods.values():
        f = getattr(m, "__file__", None)
        assert f is None or f.startswith(path.rstrip("/") + "/"), (f, path)
    return mods


def canon(x, depth=0):
    """Turn a value into a comparable, tree-independent structure."""
    if depth > 8:
        return "<deep>"
    if isinstance(x, bool) or x is None or isinstance(x, (int, str, bytes)):
        return (type(x).__name__, x)
    if isinstance(x, float):
        return ("float", "nan" if math.isnan(x) else x.hex())
    if isinstance(x, (datetime.datetime, datetime.date, datetime.time)):
        return (type(x).__name__, x.isoformat())
    if isinstance(x, tuple):
        return ("tuple", [canon(v, depth + 1) for v in x])
    if isinstance(x, list):
        return ("list", [canon(v, depth + 1) for v in x])
    if isinstance(x, dict):
        return ("dict", [(canon(k, depth + 1), canon(v, depth + 1))
                         for k, v in x.items()])
    if isinstance(x, BaseException):
        return ("EXC", type(x).__name__, str(x))
    name = type(x).__name__
    if name in ("Item", "Node", "LinearScale", "TimeScale", "Renderer"):
        d = {}
        for k, v in vars(x).items():
            if isinstance(v, (types.FunctionType, types.BuiltinFunctionType,
                              types.MethodType)):
                continue
            if name == "Node" and k in ("parent", "child", "overlap"):
                # avoid cycles through the stub links
                v = None if v is None else "<node>"
            d[k] = v
        return (name, canon(d, depth + 1))
    if callable(x):
        return ("callable", getattr(x, "__name__", "?"))
    return ("obj", name, repr(x))


def attempt(fn, *args, **kwargs):
    try:
        return ("OK", canon(fn(*args, **kwargs)))
    except Exception as e:  # noqa
        return canon(e)


def compare(res_a, res_b):
    ok = True
    if len(res_a) != len(res_b):
        print("DIFFERENT: number of results %d vs %d" % (len(res_a), len(res_b)))
        return False
    ndiff = 0
    for (la, ra), (lb, rb) in zip(res_a, res_b):
        if la != lb or ra != rb:
            ok = False
            ndiff += 1
            if ndiff <= 20:
                print("DIFFERENT at %s\n   original : %r\n   refactored: %r"
                      % (la, ra, rb))
    return ok


def main(run):
    if len(sys.argv) != 3:
        print(__doc__)
        sys.exit(2)
    orig = run(load_tree(sys.argv[1]))
    new = run(load_tree(sys.argv[2]))
    if compare(orig, new):
        print("EQUIVALENT (%d cases)" % len(orig))
        sys.exit(0)
    print("DIFFERENT")
    sys.exit(1)


import unicodedata

ACCENT_MARKS = [0x0300, 0x0301, 0x0302, 0x0308, 0x030B, 0x0303, 0x0327,
                0x0328, 0x0304, 0x0331, 0x0307, 0x0323, 0x030A, 0x0306,
                0x030C]
OTHER_MARKS = [0x0305, 0x0309, 0x030D, 0x0315, 0x031B, 0x0338, 0x0344,
               0x0340, 0x0341, 0x0343, 0x0345, 0x20D7, 0x3099, 0x05B0,
               0x0E31, 0x1AB0, 0xFE20]


def inputs():
    texts = ["", " ", "a", "abc", "hello world", "\\", "{}", "%$#&_^~",
             "\n", "\t a \n", "naïve café", "Ångström", "Gödel", "Erdős",
             "Łukasiewicz", "Dvořák", "Çelik", "ąęįų", "ṩ", "ǖǘǚǜ", "ệ",
             "ﬁ", "①", "Å", "Ω", "K", " ", "¨", "¯", "´",
             " ", "Ω", "`", "̀", "́", "̓",
             "̈́", "ʹ", ";", "·", "豈", "יִ",
             "\U0001d15e", "\U0001d1bb", "\U0002f800", "\U0001f600",
             "힣", "가", "가", "日本語", "\x00", "\x7f", "\ud800"]
    # every assigned code point that has a decomposition, and a sweep of
    # the low planes (single characters)
    for cp in range(0x0, 0x3100):
        texts.append(chr(cp))
    for cp in range(0x3100, 0x110000):
        if unicodedata.decomposition(chr(cp)):
            texts.append(chr(cp))
    # base + mark(s), leading marks, marks after precomposed characters
    bases = ["a", "E", "o", "ı", " ", "é", "ǖ", "Å", "¨", "̈́",
             "ﬁ", "가", "\\", "x"]
    marks = ACCENT_MARKS + OTHER_MARKS
    for b in bases:
        for m in marks:
            texts.append(b + chr(m))
            texts.append(chr(m) + b)
            texts.append(b + chr(m) + "z")
    for i, m1 in enumerate(marks):
        m2 = marks[(i * 7 + 3) % len(marks)]
        m3 = marks[(i * 11 + 5) % len(marks)]
        texts.append("a" + chr(m1) + chr(m2))
        texts.append("é" + chr(m1) + chr(m2) + chr(m3) + "b" + chr(m3))
        texts.append(chr(m1) + chr(m2))
        texts.append(chr(m1) + chr(m2) + "q" + chr(m1))
        texts.append("uv" + chr(m1) + "w" + chr(m2) + chr(m2) + "é" + "¨" + chr(m3))
    # deterministic pseudo-random mixtures
    alphabet = ([chr(m) for m in marks] + list("aeiouAEIOU nñçšžÿ {}\\")
                + ["¨", "ṩ", "ǖ", "Å", "ﬁ", "̈́"])
    state = 2024
    for n in range(400):
        s = []
        for _ in range(1 + n % 9):
            state = (state * 6364136223846793005 + 1442695040888963407) % 2 ** 64
            s.append(alphabet[(state >> 33) % len(alphabet)])
        texts.append("".join(s))
    odd = [None, 0, 1.5, b"", b"abc", [], ["a"], ["a", "́"], ["ab"],
           ["a", b"b"], [b"a"], [1], ("e", "́", "x"), ["́", "a"],
           [""], ["a", ""], [None], {"a": 1}, {"é": 1, "́": 2},
           iter("é"), bytearray(b"a"), object, True]
    return texts, odd


def run(mods):
    tex = mods["labella.tex"]
    texts, odd = inputs()
    res = []
    for t in texts:
        res.append(("uni2tex(%a)" % t, attempt(tex.uni2tex, t)))
    texts_odd, odd2 = inputs()
    del texts_odd
    for t in odd2:
        label = "uni2tex(%a)" % (t if not hasattr(t, "__next__") else "iter",)
        before = repr(t)
        res.append((label, attempt(tex.uni2tex, t)))
        if not hasattr(t, "__next__"):
            res.append((label + " arg-after", (before, repr(t))))
    # callers of uni2tex
    for k, t in enumerate(texts[:60] + texts[-60:]):
        res.append(("get_latex_fontdoc(%a)" % t,
                    attempt(tex.get_latex_fontdoc, t, fontsize="%dpt" % (8 + k % 5),
                            preamble=texts[-1 - k])))
    return res


if __name__ == "__main__":
    main(run)
