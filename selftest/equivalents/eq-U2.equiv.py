#!/usr/bin/env python
"""Differential test: python equiv.py <original-checkout> <refactored-checkout>"""
import os
import random
import sys
import datetime as _dt
import types


class M(object):
    pass


def load(root):
    for name in [
        m for m in sys.modules if m == "labella" or m.startswith("labella.")
    ]:
        del sys.modules[name]
    root = os.path.realpath(root)
    sys.path.insert(0, root)
    try:
        import labella  # noqa
        import labella.scale
        import labella.d3_time
        import labella.utils
        import labella.timeline

        mods = M()
        for name, mod in list(sys.modules.items()):
            if name == "labella" or name.startswith("labella."):
                f = getattr(mod, "__file__", None)
                assert f and os.path.realpath(f).startswith(root + os.sep), (
                    name,
                    f,
                    root,
                )
                setattr(mods, name.rsplit(".", 1)[-1], mod)
    finally:
        sys.path.remove(root)
    return mods


def canon(v, depth=0):
    if depth > 8:
        return ("deep", type(v).__name__)
    if isinstance(v, bool) or v is None:
        return (type(v).__name__, v)
    if isinstance(v, float):
        return ("float", v.hex())
    if isinstance(v, (int, str, bytes)):
        return (type(v).__name__, v)
    if isinstance(v, _dt.datetime):
        return ("datetime", type(v).__name__, v.isoformat(), str(v.tzinfo))
    if isinstance(v, _dt.timedelta):
        return ("timedelta", v.days, v.seconds, v.microseconds)
    if isinstance(v, _dt.date):
        return ("date", type(v).__name__, v.isoformat())
    if isinstance(v, (list, tuple)):
        return (type(v).__name__, [canon(x, depth + 1) for x in v])
    if isinstance(v, dict):
        return (
            "dict",
            [(canon(k, depth + 1), canon(x, depth + 1)) for k, x in v.items()],
        )
    if isinstance(v, types.GeneratorType):
        out = []
        for i, x in enumerate(v):
            if i > 5000:
                out.append("...")
                break
            out.append(canon(x, depth + 1))
        return ("generator", out)
    if isinstance(v, (types.FunctionType, types.MethodType)):
        return ("callable",)
    return ("object", type(v).__name__)


def rand_dt(rng, lo_year=1900, hi_year=2190):
    kind = rng.random()
    year = rng.randint(lo_year, hi_year)
    month = rng.randint(1, 12)
    if kind < 0.1:
        day = rng.choice([1, 28, 29, 30, 31])
    else:
        day = rng.randint(1, 31)
    while True:
        try:
            _dt.date(year, month, day)
            break
        except ValueError:
            day -= 1
    if kind < 0.25:
        return _dt.datetime(year, month, day)
    if kind < 0.4:
        return _dt.datetime(year, month, day, rng.randint(0, 23))
    if kind < 0.55:
        return _dt.datetime(
            year, month, day, rng.randint(0, 23), rng.randint(0, 59)
        )
    if kind < 0.75:
        return _dt.datetime(
            year,
            month,
            day,
            rng.randint(0, 23),
            rng.randint(0, 59),
            rng.randint(0, 59),
        )
    return _dt.datetime(
        year,
        month,
        day,
        rng.randint(0, 23),
        rng.randint(0, 59),
        rng.randint(0, 59),
        rng.choice([0, 1, 999, 1000, 500000, 999999, rng.randint(0, 999999)]),
    )


SPANS = [
    0,
    1e-3,
    0.5,
    1,
    7,
    45,
    300,
    3600,
    4 * 3600,
    86400,
    3 * 86400,
    14 * 86400,
    60 * 86400,
    400 * 86400,
    5 * 365 * 86400,
    40 * 365 * 86400,
]


def rand_domain(rng):
    a = rand_dt(rng, 1902, 2100)
    span = rng.choice(SPANS) * rng.uniform(0.5, 2.0)
    b = a + _dt.timedelta(seconds=span)
    if rng.random() < 0.15:
        a, b = b, a
    return [a, b]


def timeline_cases(mods, rng, rec, n):
    """End-to-end: build timelines with explicit widths and export them."""
    TL = mods.timeline
    words = ["alpha", "beta", "gamma & co", "d_e", "50%", "x<y", "Zeta #1", ""]
    for c in range(n):
        numeric = rng.random() < 0.25
        tex = rng.random() < 0.4
        nitems = rng.randint(1, 9)
        if numeric:
            base = rng.choice([0, -50, 1000, 0.001])
            spread = rng.choice([1, 10, 1000, 1e5])
            times = [base + rng.random() * spread for _ in range(nitems)]
        else:
            a, b = rand_domain(rng)
            if a > b:
                a, b = b, a
            span = (b - a).total_seconds()
            if span < 2:
                span = 86400.0 * 30
            times = [
                a + _dt.timedelta(seconds=rng.random() * span)
                for _ in range(nitems)
            ]
        items = []
        for t in times:
            d = {"time": t, "width": rng.choice([10, 25, 40.5, 60])}
            w = rng.choice(words)
            if w:
                d["text"] = w
            items.append(d)
        opts = {
            "direction": rng.choice(["up", "down", "left", "right"]),
            "initialWidth": rng.choice([300, 400, 804]),
            "initialHeight": rng.choice([250, 400]),
            "showTicks": rng.random() < 0.9,
            "showBorder": rng.random() < 0.3,
        }
        if numeric:
            opts["scale"] = mods.scale.LinearScale()
        if rng.random() < 0.3:
            opts["dotColor"] = rng.choice(mods.utils.COLOR_10 + ["#abc"])
        if rng.random() < 0.2:
            opts["labelBgColor"] = lambda d, i=0: mods.utils.COLOR_20[i % 20]

        def build():
            cls = TL.TimelineTex if tex else TL.TimelineSVG
            tl = cls(items, options=opts)
            res = tl.export()
            return res

        rec("timeline %d" % c, build)


def collect(root, seed):
    mods = load(root)
    rng = random.Random(seed)
    results = []

    def rec(label, f, *a, **k):
        try:
            r = ("ok", canon(f(*a, **k)))
        except Exception as e:  # noqa
            r = ("exc", type(e).__name__, str(e))
        results.append((label, r))

    cases(mods, rng, rec)  # noqa: F821 (defined below)
    return results


def main():
    if len(sys.argv) != 3:
        print("usage: equiv.py <original-checkout> <refactored-checkout>")
        return 2
    seed = 20260206
    a = collect(sys.argv[1], seed)
    b = collect(sys.argv[2], seed)
    if len(a) != len(b):
        print("DIFFERENT number of cases: %d vs %d" % (len(a), len(b)))
        return 1
    for (la, ra), (lb, rb) in zip(a, b):
        if la != lb or ra != rb:
            print("DIFFERENCE at case %r / %r" % (la, lb))
            print("  original  :", repr(ra)[:2000])
            print("  refactored:", repr(rb)[:2000])
            return 1
    print("EQUIVALENT (%d cases)" % len(a))
    return 0



class Weird(object):
    def __add__(self, o):
        return 3


def cases(mods, rng, rec):
    f = mods.utils.int2name
    for i in range(-30, 20000):
        rec("seq %d" % i, f, i)
    for c in range(3000):
        rec("big %d" % c, f, rng.randint(0, 10 ** rng.randint(1, 40)))
    for c in range(300):
        rec("neg %d" % c, f, -rng.randint(0, 10 ** rng.randint(1, 30)))
    for v in [True, False, None, "a", "", 1.0, 0.0, -1.0, 25.0, 26.0, 0.5,
              -0.5, float("nan"), float("inf"), -float("inf"), 1e300, 2 ** 70,
              26 ** 5, 26 ** 5 - 1, 26 ** 5 + 1, [1], (1,), 1 + 2j, b"a"]:
        rec("odd %r" % (v,), f, v)
    rec("odd weird", f, Weird())
    timeline_cases(mods, rng, rec, 300)


if __name__ == "__main__":
    sys.exit(main())
