#!/usr/bin/env python
# -*- coding: utf-8 -*-
"""Differential test: python equiv.py <original-checkout> <refactored-checkout>

Imports the ``labella`` package from each of the two checkouts in turn, runs
the selected batteries of randomised and edge-case inputs with identical
seeds, and compares the canonicalised results exactly.
"""

import contextlib
import datetime
import importlib
import io
import os
import random
import subprocess
import sys
import tempfile

sys.dont_write_bytecode = True

# Batteries run by this copy of the harness (the only line that differs
# between the ten copies).
SELECT = ["timeline", "timeline_methods"]

MODULES = [
    "labella",
    "labella.timeline",
    "labella.renderer",
    "labella.utils",
    "labella.tex",
    "labella.scale",
    "labella.node",
    "labella.force",
]


# ---------------------------------------------------------------- loading


def purge():
    for name in list(sys.modules):
        if name == "labella" or name.startswith("labella."):
            del sys.modules[name]
    importlib.invalidate_caches()


def load(root):
    root = os.path.realpath(root)
    purge()
    sys.path.insert(0, root)
    try:
        mods = {}
        for name in MODULES:
            mod = importlib.import_module(name)
            mods[name.split(".")[-1]] = mod
        for name, mod in list(sys.modules.items()):
            if name == "labella" or name.startswith("labella."):
                fname = os.path.realpath(mod.__file__)
                assert fname.startswith(root + os.sep), (name, fname, root)
    finally:
        sys.path.remove(root)
    return mods


# ---------------------------------------------------------- canonical form


def canon(v, depth=0):
    if depth > 12:
        return "<deep>"
    if v is None or isinstance(v, (bool, int, str, bytes)):
        return v
    if isinstance(v, float):
        return ("f", v.hex())
    if isinstance(v, (list, tuple)):
        return (type(v).__name__, [canon(x, depth + 1) for x in v])
    if isinstance(v, dict):
        return (
            "dict",
            [(canon(k, depth + 1), canon(x, depth + 1)) for k, x in v.items()],
        )
    if isinstance(v, (datetime.datetime, datetime.date, datetime.time)):
        return ("dt", repr(v))
    tname = type(v).__name__
    if tname == "Node":
        fields = [
            "idealPos",
            "currentPos",
            "width",
            "layerIndex",
            "x",
            "y",
            "dx",
            "dy",
            "w",
            "h",
            "overlapCount",
        ]
        return (
            "Node",
            [(f, canon(getattr(v, f, "<missing>"), depth + 1)) for f in fields],
            canon(v.data, depth + 1),
            v.parent is not None,
            v.child is not None,
        )
    if tname == "Item":
        return (
            "Item",
            [
                (k, canon(x, depth + 1))
                for k, x in sorted(vars(v).items())
            ],
        )
    if callable(v):
        return "<callable>"
    return "<%s>" % tname


def capture(fn, *args, **kwargs):
    try:
        return ("ok", canon(fn(*args, **kwargs)))
    except Exception as exc:  # noqa
        return ("exc", type(exc).__name__, str(exc))


# ------------------------------------------------------- input generation

HEXDIGITS = "0123456789abcdefABCDEF"
TEXTS = [
    "A New Hope",
    "The Empire Strikes Back",
    "x",
    "",
    None,
    "café naïve Ångström",
    "éä ́lead",
    "Łódź śţǎ",
    "100% {brace} \\slash & <tag> \"q\"",
    "中文 ﬁ ½",
    "line\nbreak\ttab",
]


def rand_color(rng):
    r = rng.random()
    if r < 0.003:
        return ""
    if r < 0.01:
        return rng.choice(["zzz", "#12", "#12345", "#1234567", "red", "#ggg"])
    n = rng.choice([3, 6])
    s = "".join(rng.choice(HEXDIGITS) for _ in range(n))
    if rng.random() < 0.7:
        s = "#" + s
    return s


def rand_color_option(rng):
    r = rng.random()
    if r < 0.45:
        return rand_color(rng)
    if r < 0.75:
        return [rand_color(rng) for _ in range(rng.choice([1, 2, 3, 5, 10]))]
    if r < 0.755:
        return []
    table = [rand_color(rng) for _ in range(4)]
    return lambda d: table[int(d.get("width", 0)) % 4]


COLOR_KEYS = [
    "dotColor",
    "labelBgColor",
    "labelTextColor",
    "linkColor",
    "borderColor",
]


def rand_number(rng, lo, hi):
    if rng.random() < 0.5:
        return rng.randint(int(lo), int(hi))
    return rng.uniform(lo, hi)


def gen_timeline_case(rng, mods):
    """Return (items, options); fresh objects on every call."""
    numeric = rng.random() < 0.4
    n = rng.choice([1, 1, 2, 3, 4, 5, 6, 8, 12, 20])
    items = []
    if numeric:
        span = rng.choice([1.0, 10.0, 1000.0, 1e6])
        pool = [rng.uniform(-span, span) for _ in range(n)]
        if rng.random() < 0.3:
            pool = [float(int(x)) for x in pool]
        if rng.random() < 0.2:
            pool = [int(x) for x in pool]
    else:
        span = rng.choice([3600, 86400 * 30, 86400 * 3650, 86400 * 36500])
        base = datetime.datetime(1990, 1, 1) + datetime.timedelta(
            days=rng.randint(0, 9000)
        )
        pool = [
            base
            + datetime.timedelta(
                seconds=rng.randint(0, span),
                microseconds=rng.choice([0, 0, 0, rng.randint(0, 999999)]),
            )
            for _ in range(n)
        ]
        if rng.random() < 0.25:
            pool = [x.date() for x in pool]
    if n > 1 and rng.random() < 0.2:
        pool[1] = pool[0]
    if n > 2 and rng.random() < 0.05:
        pool = [pool[0]] * n
    text_mode = rng.choice(["all", "mixed", "mixed", "none"])
    for t in pool:
        d = {"time": t}
        if text_mode == "all":
            d["text"] = rng.choice(TEXTS[:3] + TEXTS[5:])
        elif text_mode == "mixed":
            r = rng.random()
            if r < 0.7:
                d["text"] = rng.choice(TEXTS)
            elif r < 0.72:
                d["text"] = 42
        if rng.random() < 0.1:
            d["label"] = rng.choice(["alt", "", "é"])
        d["width"] = rng.choice(
            [rng.randint(5, 150), rng.uniform(5, 150), 50, 13.0]
        )
        items.append(d)

    options = {}
    r = rng.random()
    if r < 0.88:
        options["direction"] = rng.choice(["left", "right", "up", "down"])
    elif r < 0.96:
        options["direction"] = rng.choice(
            ["diagonal", "UP", "", None, 3, ("up",), "Right ", True]
        )
    if numeric:
        options["scale"] = mods["scale"].LinearScale()
    elif rng.random() < 0.3:
        options["scale"] = mods["scale"].TimeScale()
    if rng.random() < 0.7:
        options["initialWidth"] = rand_number(rng, 100, 1200)
    if rng.random() < 0.7:
        options["initialHeight"] = rand_number(rng, 100, 1200)
    if rng.random() < 0.5:
        options["margin"] = {
            "left": rand_number(rng, 0, 60),
            "right": rand_number(rng, 0, 60),
            "top": rand_number(rng, 0, 60),
            "bottom": rand_number(rng, 0, 60),
        }
    if rng.random() < 0.4:
        options["labelPadding"] = {
            "left": rand_number(rng, 0, 6),
            "right": rand_number(rng, 0, 6),
            "top": rand_number(rng, 0, 6),
            "bottom": rand_number(rng, 0, 6),
        }
    if rng.random() < 0.5:
        options["layerGap"] = rand_number(rng, 5, 120)
    if rng.random() < 0.3:
        options["dotRadius"] = rand_number(rng, 1, 9)
    for key in COLOR_KEYS:
        if rng.random() < 0.5:
            options[key] = rand_color_option(rng)
    if rng.random() < 0.4:
        options["showBorder"] = rng.choice([True, False, 1, 0, "yes"])
    if rng.random() < 0.3:
        options["showTicks"] = rng.choice([True, False])
    r = rng.random()
    if r < 0.25:
        options["textFn"] = None
    elif r < 0.4:
        options["textFn"] = lambda d: d.get("label")
    elif r < 0.45:
        options["textFn"] = lambda d: d["text"]
    if rng.random() < 0.1:
        options["timeFn"] = lambda d: d["time"]
    if rng.random() < 0.1:
        options["textYOffset"] = rng.choice(["1em", "0.5em"])
        options["textXOffset"] = rng.choice(["0em", "0.3em"])
    if rng.random() < 0.15:
        lo, hi = min(pool), max(pool)
        options["domain"] = [lo, hi]
    if rng.random() < 0.5:
        lab = {}
        if rng.random() < 0.6:
            lab["maxPos"] = rand_number(rng, 50, 1200)
        if rng.random() < 0.3:
            lab["minPos"] = rand_number(rng, -50, 50)
        if rng.random() < 0.4:
            lab["algorithm"] = rng.choice(["overlap", "simple", "none"])
        if rng.random() < 0.3:
            lab["nodeSpacing"] = rand_number(rng, 0, 10)
        if rng.random() < 0.2:
            lab["density"] = rng.uniform(0.3, 1.0)
        if rng.random() < 0.2:
            lab["stubWidth"] = rand_number(rng, 1, 5)
        options["labella"] = lab
    if rng.random() < 0.5:
        latex = {}
        if rng.random() < 0.5:
            latex["tickCross"] = rng.choice([True, False])
        if rng.random() < 0.5:
            latex["reproducible"] = rng.choice([True, False])
        if rng.random() < 0.3:
            latex["fontsize"] = rng.choice(["10pt", "12pt"])
        if rng.random() < 0.3:
            latex["preamble"] = rng.choice(
                ["\\usepackage{lmodern}", "% preé"]
            )
        if rng.random() < 0.3:
            latex["linkThickness"] = rng.choice(["thin", "ultra thick"])
            latex["tickThickness"] = rng.choice(["thin", "ultra thick"])
            latex["axisThickness"] = rng.choice(["thin", "ultra thick"])
            latex["borderThickness"] = rng.choice(["thin", "ultra thick"])
        options["latex"] = latex
    if rng.random() < 0.03:
        options = None
    return items, options


# --------------------------------------------------------------- batteries


def battery_timeline(mods, out):
    """Full SVG and TikZ exports of random timelines."""
    T = mods["timeline"]
    for seed in range(2600):
        for cls_name in ("TimelineSVG", "TimelineTex"):
            rng = random.Random(1000 + seed)
            items, options = gen_timeline_case(rng, mods)
            cls = getattr(T, cls_name)
            try:
                tl = cls(items, options=options)
            except Exception as exc:  # noqa
                out.append(
                    (seed, cls_name, "init-exc", type(exc).__name__, str(exc))
                )
                continue
            out.append((seed, cls_name, "items", canon(tl.items)))
            out.append((seed, cls_name, "dicts", canon(items)))
            out.append((seed, cls_name, "direction", canon(tl.direction)))
            out.append((seed, cls_name, "export", capture(tl.export)))
            out.append((seed, cls_name, "nodes", canon(tl.nodes)))
            # a second export must give the same answer in both trees too
            if seed % 7 == 0:
                out.append((seed, cls_name, "export2", capture(tl.export)))
    # exporting to a file (no PDF build)
    tmpdir = tempfile.mkdtemp(prefix="equiv_")
    try:
        for seed in range(40):
            for cls_name in ("TimelineSVG", "TimelineTex"):
                rng = random.Random(77000 + seed)
                items, options = gen_timeline_case(rng, mods)
                cls = getattr(T, cls_name)
                try:
                    tl = cls(items, options=options)
                except Exception as exc:  # noqa
                    out.append((seed, "file-init", type(exc).__name__))
                    continue
                fname = os.path.join(tmpdir, "t%i.out" % seed)
                if os.path.exists(fname):
                    os.unlink(fname)
                if cls_name == "TimelineTex":
                    res = capture(tl.export, fname, build_pdf=False)
                else:
                    res = capture(tl.export, filename=fname)
                data = None
                if os.path.exists(fname):
                    with open(fname, "rb") as fid:
                        data = fid.read()
                out.append((seed, cls_name, "file", res, data))
    finally:
        import shutil

        shutil.rmtree(tmpdir, ignore_errors=True)


class FakeNode(object):
    def __init__(self, rng):
        self.x = rng.uniform(-500, 500)
        self.y = rng.uniform(-500, 500)
        self.dx = rng.uniform(0, 100)
        self.dy = rng.uniform(0, 100)
        self.w = rng.uniform(0, 100)
        self.h = rng.uniform(0, 100)


def battery_timeline_methods(mods, out):
    """Direct calls of the public helper methods of the timeline classes."""
    T = mods["timeline"]
    # module level helpers
    for v in [None, 0, 1, "abc", "#fff", [1, 2], (), 3.5]:
        f = T.d3_functor(v)
        out.append(("functor", canon(v), capture(f, {"a": 1}), capture(f, None)))
        out.append(("functor-id", capture(lambda: T.d3_functor(f) is f)))
    for fn in (len, str, lambda d: d["q"], lambda d: 7):
        f = T.d3_functor(fn)
        out.append(("functor-callable", f is fn, capture(f, {"q": 2})))
    for d in [{"time": 3, "text": "t"}, {"time": 4}, {}, {"text": None}, None]:
        out.append(("def-timeFn", capture(T.DEFAULT_OPTIONS["timeFn"], d)))
        out.append(("def-textFn", capture(T.DEFAULT_OPTIONS["textFn"], d)))
    out.append(
        (
            "defaults",
            canon(
                {
                    k: v
                    for k, v in T.DEFAULT_OPTIONS.items()
                    if k not in ("scale",)
                }
            ),
            T.DEFAULT_WIDTH,
        )
    )
    # Item
    rng = random.Random(5)
    for k in range(300):
        args = dict(
            time=rng.choice(
                [
                    rng.uniform(-5, 5),
                    rng.randint(0, 9),
                    datetime.datetime(2000, 1, 1, 3, rng.randint(0, 59)),
                    "when",
                    None,
                ]
            ),
            width=rng.choice([rng.randint(1, 99), rng.uniform(1, 99), "w"]),
            text=rng.choice(TEXTS),
            data=rng.choice([None, {"k": rng.random()}, [1, "a"], "s"]),
        )
        if rng.random() < 0.5:
            args["output_mode"] = rng.choice(["svg", "tex"])
        if rng.random() < 0.2:
            # no text -> no LaTeX call even without a width
            args["width"] = None
            args["text"] = rng.choice(["", None])
        it = T.Item(**args)
        out.append(("item", k, str(it), repr(it), canon(it), "%s" % [it]))

    for seed in range(1500):
        rng = random.Random(31000 + seed)
        items, options = gen_timeline_case(rng, mods)
        cls_name = rng.choice(["TimelineSVG", "TimelineTex", "Timeline"])
        cls = getattr(T, cls_name)
        try:
            tl = cls(items, options=options)
        except Exception as exc:  # noqa
            out.append((seed, "m-init-exc", type(exc).__name__, str(exc)))
            continue
        tag = (seed, cls_name)
        out.append((tag, "str", str(tl.items), repr(tl.items[0])))
        out.append((tag, "inner", capture(tl.getInnerDims)))
        for key in COLOR_KEYS:
            for i in (0, 1, 7, -3):
                for d in (items[0], {}, {"width": 2}):
                    out.append(
                        (tag, key, i, capture(tl.colorFunc, key, d, i=i))
                    )
                    out.append((tag, key, i, capture(getattr(tl, key), d, i)))
            out.append((tag, key, capture(getattr(tl, key), items[-1])))
        out.append((tag, "nokey", capture(tl.colorFunc, "noSuchColor", {})))
        out.append((tag, "fnkey", capture(tl.colorFunc, "textFn", items[0])))
        out.append((tag, "lstkey", capture(tl.colorFunc, "showTicks", {})))
        for d in items + [{}, {"text": ""}, {"text": 0}, {"label": "L"}, None]:
            out.append((tag, "textFn", capture(tl.textFn, d)))
            out.append((tag, "timePos", capture(tl.timePos, d)))
        for t in [0, 1.5, -2, datetime.datetime(2001, 2, 3), "x", None]:
            out.append((tag, "timePos2", capture(tl.timePos, {"time": t})))
        # colour option swapped after construction
        tl.options["dotColor"] = rng.choice(
            [[], ["#abc"], ("#abc", "#def"), None, 5, "#123456"]
        )
        for i in (0, 1, 2):
            out.append((tag, "dot2", capture(tl.dotColor, {}, i)))
        for nh in (10, 0.5):
            fnode = FakeNode(rng)
            out.append((tag, "nodePos", capture(tl.nodePos, fnode, nh)))
        out.append((tag, "get_nodes", capture(tl.get_nodes)))
        if seed % 3 == 0:
            res = capture(tl.compute)
            out.append((tag, "compute", res[0], res[1]))
        # re-run the item preparation steps
        tl.direction = rng.choice(["left", "right", "up", "down", "x", None])
        out.append((tag, "rotate", capture(tl.rotate_items), canon(tl.items)))
        for it in tl.items:
            it.height = rng.choice([1, 2.5, 13.0, 40])
        out.append((tag, "equal", capture(tl.equal_heights), canon(tl.items)))
        out.append((tag, "get_nodes2", capture(tl.get_nodes)))
        tl.options["scale"] = None
        for d in items[:3]:
            out.append((tag, "timePos-noscale", capture(tl.timePos, d)))
        tl.options["textFn"] = None
        for d in items[:3] + [{}, {"text": "q"}]:
            out.append((tag, "textFn-none", capture(tl.textFn, d)))
        tl.items = []
        out.append((tag, "equal-empty", capture(tl.equal_heights)))
        out.append((tag, "rotate-empty", capture(tl.rotate_items)))
        out.append((tag, "nodes-empty", capture(tl.get_nodes)))
        out.append((tag, "compute-empty", capture(tl.compute)))

    # the pieces of the exporters, called one by one
    from xml.etree import ElementTree

    for seed in range(700):
        rng = random.Random(52000 + seed)
        items, options = gen_timeline_case(rng, mods)
        for cls_name in ("TimelineSVG", "TimelineTex"):
            rng2 = random.Random(52000 + seed)
            items, options = gen_timeline_case(rng2, mods)
            cls = getattr(T, cls_name)
            try:
                tl = cls(items, options=options)
                tl.nodes, tl.renderer = tl.compute()
            except Exception as exc:  # noqa
                out.append((seed, "p-init-exc", type(exc).__name__, str(exc)))
                continue
            tag = (seed, cls_name)
            if rng.random() < 0.3:
                tl.direction = rng.choice(
                    ["left", "right", "up", "down", "other", None, 0]
                )
            names = [
                "add_main",
                "add_timeline",
                "add_axis",
                "add_links",
                "add_labels",
                "add_dots",
            ]
            if cls_name == "TimelineSVG":
                out.append((tag, "trans", capture(tl.getTranslation)))
                for name in names:
                    root = ElementTree.Element("root")
                    res = capture(getattr(tl, name), root)
                    txt = capture(ElementTree.tostring, root)
                    out.append((tag, name, res[0], res[1:], txt))
                tl.nodes = []
                for name in ("add_links", "add_labels", "add_dots"):
                    root = ElementTree.Element("root")
                    res = capture(getattr(tl, name), root)
                    out.append((tag, name + "-empty", res[0], res[1:]))
            else:
                names = (
                    [
                        "add_header",
                        "add_header_colors",
                        "add_header_labels",
                        "add_header_text",
                        "add_margin",
                    ]
                    + names
                    + ["close_scope", "add_footer"]
                )
                for name in names:
                    doc = ["sentinel"]
                    res = capture(getattr(tl, name), doc)
                    out.append((tag, name, res, list(doc)))
                tl.nodes = []
                for name in (
                    "add_header_colors",
                    "add_header_labels",
                    "add_header_text",
                    "add_links",
                    "add_labels",
                    "add_dots",
                ):
                    doc = []
                    res = capture(getattr(tl, name), doc)
                    out.append((tag, name + "-empty", res, list(doc)))


def make_chain(rng, N):
    """A node with a random chain of stubs above it, like the distributor."""
    node = N.Node(
        rng.choice([rng.uniform(-300, 900), rng.randint(-10, 900)]),
        rng.choice([rng.uniform(1, 80), rng.randint(1, 80)]),
        data=rng.choice([None, "d", 3]),
    )
    node.currentPos = rng.choice([node.idealPos, rng.uniform(-300, 900)])
    depth = rng.choice([0, 0, 1, 2, 3, 5])
    node.layerIndex = depth
    cur = node
    for k in range(depth):
        cur = cur.createStub(rng.choice([1, 2, rng.uniform(0.5, 4)]))
        cur.currentPos = rng.uniform(-300, 900)
        cur.layerIndex = depth - 1 - k
    return node


def battery_renderer(mods, out):
    R = mods["renderer"]
    N = mods["node"]
    rng = random.Random(9)
    for k in range(1500):
        p1 = [rng.uniform(-1e3, 1e3), rng.uniform(-1e3, 1e3)]
        p2 = [rng.choice([0, 1, -0.0, rng.uniform(-1e6, 1e6)]), rng.random()]
        p3 = (rng.randint(-5, 5), rng.uniform(-1e-9, 1e-9))
        out.append(("lineTo", capture(R.lineTo, p1), capture(R.lineTo, p3)))
        out.append(("moveTo", capture(R.moveTo, p2), capture(R.moveTo, p1[:1])))
        out.append(("curveTo", capture(R.curveTo, p1, p2, p3)))
        out.append(("vCurve", capture(R.vCurveBetween, p1, p2)))
        out.append(("hCurve", capture(R.hCurveBetween, p3, p2)))
    for bad in ([], ["a"], None, [None, 1], [float("nan"), float("inf")]):
        out.append(("bad", capture(R.lineTo, bad), capture(R.moveTo, bad)))
        out.append(("bad", capture(R.curveTo, bad, [1, 2], [3, 4])))
        out.append(("bad", capture(R.vCurveBetween, bad, [1, 2])))
        out.append(("bad", capture(R.hCurveBetween, [1, 2], bad)))
    out.append(("defaults", canon(R.DEFAULT_OPTIONS)))
    for opts in (None, {}, {"layerGap": 5}):
        out.append(("ropts", canon(R.Renderer(opts).options)))
    for seed in range(3000):
        rng = random.Random(4000 + seed)
        opts = {}
        r = rng.random()
        if r < 0.85:
            opts["direction"] = rng.choice(["left", "right", "up", "down"])
        elif r < 0.93:
            opts["direction"] = rng.choice(["sideways", None, 1, "", ("up",)])
        if rng.random() < 0.8:
            opts["nodeHeight"] = rand_number(rng, 1, 90)
        if rng.random() < 0.8:
            opts["layerGap"] = rand_number(rng, 1, 90)
        rend = R.Renderer(opts)
        nodes = [make_chain(rng, N) for _ in range(rng.choice([1, 2, 4]))]
        allnodes = []
        for n in nodes:
            allnodes.extend(n.getPathToRoot())
        res = capture(rend.layout, allnodes)
        out.append((seed, "layout", res[0], canon(allnodes)))
        for n in nodes:
            out.append((seed, "way", capture(rend.getWayPoints, n)))
            out.append((seed, "path", capture(rend.generatePath, n)))
            out.append((seed, "tikz", capture(rend.generatePath, n, True)))
            out.append((seed, "tikz0", capture(rend.generatePath, n, tikz=0)))
            stub = n.parent
            if stub is not None:
                out.append((seed, "stub", capture(rend.generatePath, stub)))
        # generatePath on hand-made way points (subclass hook)
        class Custom(R.Renderer):
            points = None

            def getWayPoints(self, node):
                return self.points

        crend = Custom(opts)
        npts = rng.choice([1, 2, 3, 5])
        pts = [[[rng.uniform(-9, 9), rng.randint(-9, 9)]]]
        for _ in range(npts - 1):
            pts.append(
                [
                    [rng.uniform(-99, 99), rng.uniform(-99, 99)]
                    for _ in range(rng.choice([1, 2, 2, 2, 3]))
                ]
            )
        if rng.random() < 0.3:
            pts = tuple(tuple(tuple(p) for p in grp) for grp in pts)
        if rng.random() < 0.05:
            pts = rng.choice([[], [[]], None, [[[1, 2]], []], "ab"])
        crend.points = pts
        out.append((seed, "custom", capture(crend.generatePath, None)))
        out.append((seed, "custom-t", capture(crend.generatePath, None, True)))
        if seed % 50 == 0:
            out.append((seed, "none", capture(rend.generatePath, None)))
            out.append((seed, "empty", capture(rend.layout, [])))
            broken = N.Node(None, None)
            out.append((seed, "broken", capture(rend.generatePath, broken)))
            out.append((seed, "broken", capture(rend.layout, [broken])))


def battery_utils(mods, out):
    U = mods["utils"]
    out.append(("colors", canon(U.COLOR_10), canon(U.COLOR_20)))
    rng = random.Random(11)
    for i in list(range(-5, 2000)) + [26 ** k + d for k in range(2, 9) for d in (-2, -1, 0, 1)]:
        out.append(("int2name", i, capture(U.int2name, i)))
    for k in range(2000):
        i = rng.choice(
            [rng.randint(0, 10 ** 6), rng.randint(0, 10 ** 30), -rng.randint(0, 99)]
        )
        out.append(("int2name-r", i, capture(U.int2name, i)))
    for bad in (None, "a", 2.5, 0.0, True, False, [1], 1e20, float("nan")):
        out.append(("int2name-bad", capture(U.int2name, bad)))
    out.append(("int2name-kw", capture(lambda: U.int2name(i=27))))
    fns = ["hex2dec", "hex2rgb", "hex2rgbf", "hex2rgbstr", "hex2html"]
    for k in range(4000):
        r = rng.random()
        n = rng.choice([3, 6]) if r < 0.8 else rng.randint(0, 9)
        pool = HEXDIGITS if rng.random() < 0.93 else HEXDIGITS + "gxz -#_"
        s = "".join(rng.choice(pool) for _ in range(n))
        if rng.random() < 0.6:
            s = "#" + s
        for name in fns:
            out.append((name, s, capture(getattr(U, name), s)))
    edge = [
        "", "#", "##", "#fff", "fff", "FFF", "#FFFFFF", "0x10", " ff", "ff ",
        "+ff", "-ff", "f_f", "#f_f", "١٢٣", None, 255, 0xFFF,
        ["f", "f", "f"], ["#", "a", "b", "c"], ("1", "2", "3"), b"fff",
        b"#fff", b"#a1b2c3", "#abcdefabcdef", "ééé", 1.5,
    ]
    for s in edge:
        for name in fns:
            out.append((name, canon(s), capture(getattr(U, name), s)))
    for name in fns[1:]:
        out.append((name, "kw", capture(lambda: getattr(U, name)(code="#1a2"))))
    out.append(("hex2dec-kw", capture(lambda: U.hex2dec(s="ff"))))


class FakeProc(object):
    """Stand-in for subprocess.check_output, records its calls."""

    def __init__(self, mode, payload):
        self.mode = mode
        self.payload = payload
        self.calls = []

    def __call__(self, *args, **kwargs):
        self.calls.append((canon(args), canon(kwargs)))
        if self.mode == "oserror":
            raise OSError(2, "No such file or directory: 'latexmk'")
        if self.mode == "ioerror":
            raise IOError("pipe broke")
        if self.mode == "called":
            raise subprocess.CalledProcessError(
                12, args[0], output=self.payload
            )
        if self.mode == "value":
            raise ValueError("embedded null byte")
        return self.payload


def rand_unicode(rng):
    pools = [
        "abcXYZ 019{}\\%&_^~$#",
        "àáâäőãçąāḇȧ"
        "ạåăǎÅÑÜŹṩǖ",
        "̧̨̱̀́̂̈̋̃̄"
        "̣̇̊̆̌",
        "ְ̛̉̀́⃗҃ͅ",
        "ﬁ½①µÅΩªẛ̈́क़",
        "中文\U0001f600ßøŁı— ",
        "가한가",
    ]
    n = rng.choice([0, 1, 2, 3, 5, 8, 13, 30])
    weights = rng.choice([[5, 3, 3, 1, 1, 1, 1], [1, 1, 1, 1, 1, 1, 1]])
    return "".join(
        rng.choice(rng.choices(pools, weights)[0]) for _ in range(n)
    )


def battery_tex(mods, out):
    X = mods["tex"]
    rng = random.Random(13)
    for k in range(6000):
        s = rand_unicode(rng)
        out.append(("uni2tex", s, capture(X.uni2tex, s)))
    for cp in list(range(0, 0x0530)) + list(range(0x1E00, 0x2000)):
        ch = chr(cp)
        out.append(("uni2tex-cp", cp, capture(X.uni2tex, ch)))
        out.append(("uni2tex-cp2", cp, capture(X.uni2tex, "a" + ch + "b")))
    for bad in (
        None, 5, b"abc", ["a", "́"], ["ab"], [b"a"], ("é",),
        [1], [""], ["a", None],
    ):
        out.append(("uni2tex-bad", capture(X.uni2tex, bad)))
    out.append(("uni2tex-kw", capture(lambda: X.uni2tex(text="é"))))
    for k in range(600):
        s = rand_unicode(rng)
        kwargs = {}
        if rng.random() < 0.5:
            kwargs["fontsize"] = rng.choice(["10pt", "12pt", "", None, 11])
        if rng.random() < 0.5:
            kwargs["preamble"] = rng.choice(
                ["", "\\usepackage{x}", rand_unicode(rng)]
            )
        out.append(("fontdoc", capture(X.get_latex_fontdoc, s, **kwargs)))
    out.append(("fontdoc-bad", capture(X.get_latex_fontdoc, None)))
    out.append(("fontdoc-bad", capture(X.get_latex_fontdoc, "a", preamble=None)))

    # compile_latex with a fake subprocess.check_output
    real = subprocess.check_output
    try:
        for k in range(600):
            mode = rng.choice(
                ["ok", "ok", "oserror", "ioerror", "called", "value"]
            )
            payload = rng.choice(
                [b"", b"Latexmk: done\n", "café\n".encode("utf-8"), b"\xff"]
            )
            fake = FakeProc(mode, payload)
            subprocess.check_output = fake
            lopts = rng.choice(
                [None, [], ["--xelatex"], ["-pdf", "-quiet"], ("-pdf",), "opt"]
            )
            fname = rng.choice(["/tmp/x/a.tex", "b.tex", "", None])
            tmpd = rng.choice(["/tmp/x", "", "d d"])
            kwargs = {}
            if rng.random() < 0.6:
                kwargs["silent"] = rng.choice([True, False, 0, 1])
            buf = io.StringIO()
            with contextlib.redirect_stdout(buf):
                res = capture(X.compile_latex, fname, tmpd, lopts, **kwargs)
            out.append(("compile", res, buf.getvalue(), fake.calls, canon(lopts)))
        out.append(("compile-bad", capture(X.compile_latex, "a.tex", None, None)))
    finally:
        subprocess.check_output = real

    # get_latex_dims / build_latex_doc / text_dimensions with a fake compiler
    real_compile = X.compile_latex
    log = {}

    def fake_compile(fname, tmpdirname, latexmk_options, silent=True):
        with open(fname, "r") as fid:
            src = fid.read()
        log["tmpdir"] = tmpdirname
        log["calls"].append(
            (
                os.path.basename(fname),
                os.path.dirname(fname) == tmpdirname,
                src,
                canon(latexmk_options),
                silent,
            )
        )
        if log["raise"]:
            raise OSError("no latexmk here")
        base = os.path.splitext(os.path.basename(fname))[0]
        if log["logtext"] is not None:
            with open(os.path.join(tmpdirname, base + ".log"), "w") as fid:
                fid.write(log["logtext"])
        if log["pdf"] is not None:
            with open(os.path.join(tmpdirname, base + ".pdf"), "wb") as fid:
                fid.write(log["pdf"])

    def scrub(res):
        # temporary directory names are random: mask them in messages
        if res[0] == "exc" and log.get("tmpdir"):
            return res[:2] + (res[2].replace(log["tmpdir"], "<TMP>"),)
        return res

    logtexts = [
        "junk\nLABELWIDTH: 12.5pt\nLABELHEIGHT: 6.94444pt\nmore\n",
        "LABELHEIGHT: 7pt\nLABELWIDTH:   100.25pt  \n",
        "LABELWIDTH: 1pt\nLABELWIDTH: 2pt\nLABELHEIGHT: 3pt\nLABELHEIGHT: 4pt\n",
        "LABELWIDTH: 12.5pt\n",
        "LABELHEIGHT: 12.5pt\n",
        "",
        None,
        "LABELWIDTH: abcpt\nLABELHEIGHT: 1pt\n",
        "LABELWIDTH: 3pt\nLABELHEIGHT: xpt\n",
        "LABELWIDTH: 1:2:3.5ptpt\nLABELHEIGHT: :4.0\n",
        " LABELWIDTH: 9pt\nLABELWIDTH: 8pt\nLABELHEIGHT: 1e3pt\n",
    ]
    X.compile_latex = fake_compile
    outdir = tempfile.mkdtemp(prefix="equiv_tex_")
    try:
        for k in range(400):
            log.update(
                calls=[],
                logtext=rng.choice(logtexts),
                pdf=rng.choice([b"%PDF-1.5 fake", b"", None]),
            )
            log["raise"] = rng.random() < 0.1
            src = rng.choice(["\\documentclass{a}", "", "café", "x\ny\n"])
            lopts = rng.choice([None, [], ["-pdf"]])
            kwargs = {}
            if rng.random() < 0.5:
                kwargs["silent"] = rng.choice([True, False])
            res = capture(X.get_latex_dims, src, lopts, **kwargs)
            out.append(("dims", scrub(res), list(log["calls"])))
            log["calls"] = []
            target = os.path.join(outdir, "out%i.pdf" % k)
            oname = rng.choice([target, target, None, ""])
            if rng.random() < 0.5:
                res = capture(X.build_latex_doc, src, lopts, oname, **kwargs)
            else:
                res = capture(
                    X.build_latex_doc, src, lopts, output_name=oname, **kwargs
                )
            data = None
            if os.path.exists(target):
                with open(target, "rb") as fid:
                    data = fid.read()
            out.append(("build", scrub(res), list(log["calls"]), data))
            log["calls"] = []
            tkw = {}
            if rng.random() < 0.5:
                tkw["fontsize"] = rng.choice(["10pt", "12pt"])
            if rng.random() < 0.5:
                tkw["preamble"] = rng.choice(["", "\\usepackage{x}"])
            if rng.random() < 0.5:
                tkw["latexmk_options"] = rng.choice([None, ["-pdf"]])
            if rng.random() < 0.3:
                tkw["silent"] = False
            res = capture(X.text_dimensions, rand_unicode(rng), **tkw)
            out.append(("textdims", scrub(res), list(log["calls"])))
    finally:
        X.compile_latex = real_compile
        import shutil

        shutil.rmtree(outdir, ignore_errors=True)


BATTERIES = {
    "timeline": battery_timeline,
    "timeline_methods": battery_timeline_methods,
    "renderer": battery_renderer,
    "utils": battery_utils,
    "tex": battery_tex,
}


def run_tree(root):
    mods = load(root)
    out = []
    for name in SELECT:
        part = []
        BATTERIES[name](mods, part)
        out.extend((name,) + tuple(x) if isinstance(x, tuple) else (name, x) for x in part)
    purge()
    return out


def main(argv):
    if len(argv) != 3:
        print("usage: python equiv.py <original-checkout> <refactored-checkout>")
        return 2
    orig, refac = argv[1], argv[2]
    assert os.path.realpath(orig) != os.path.realpath(refac)
    res_a = run_tree(orig)
    res_b = run_tree(refac)
    if len(res_a) != len(res_b):
        print("DIFFERENT number of cases: %i vs %i" % (len(res_a), len(res_b)))
        return 1
    for k, (a, b) in enumerate(zip(res_a, res_b)):
        if a != b:
            print("DIFFERENCE at case %i" % k)
            print("  original  : %r" % (a,))
            print("  refactored: %r" % (b,))
            return 1
    print("EQUIVALENT (%i cases)" % len(res_a))
    return 0


if __name__ == "__main__":
    sys.exit(main(sys.argv))
