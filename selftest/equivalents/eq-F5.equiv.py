#!/usr/bin/env python
"""Differential test for the TimelineSVG add_main/add_links/add_labels refactoring.

usage: equiv.py <original-checkout> <refactored-checkout>
"""
import itertools
import os
import random
import subprocess
import sys


def outcome(fn):
    try:
        return ("OK", fn())
    except Exception as exc:  # noqa
        return ("EXC", type(exc).__name__)


def make_items(rng, n, kind):
    """deterministic item dicts; kind selects the time type"""
    import datetime

    items = []
    for j in range(n):
        if kind == "date":
            t = datetime.date(1990 + rng.randint(0, 30), rng.randint(1, 12),
                              rng.randint(1, 28))
        elif kind == "datetime":
            t = datetime.datetime(2001, 1 + rng.randint(0, 11),
                                  rng.randint(1, 28), rng.randint(0, 23))
        elif kind == "ties":
            t = datetime.date(2000 + (j % 2), 1, 1)
        else:
            t = rng.choice([0.0, -5.0, 3.25, rng.uniform(-100, 100), float(j)])
        d = {"time": t}
        r = rng.random()
        if r < 0.5:
            d["text"] = rng.choice(["a", "Label %d" % j, "\u00e9t\u00e9", "x y z"])
            if rng.random() < 0.7:
                d["width"] = rng.choice([10, 35, 60.5, 120])
        elif r < 0.8:
            d["width"] = rng.choice([5, 50, 80])
        items.append(d)
    return items


def make_options(rng, T, kind, direction):
    from labella.scale import LinearScale

    o = {
        "direction": direction,
        "initialWidth": rng.choice([400, 150, 804]),
        "initialHeight": rng.choice([400, 120, 250]),
        "showBorder": rng.random() < 0.5,
        "showTicks": rng.random() < 0.8,
        "layerGap": rng.choice([60, 20, 33.5]),
        "dotRadius": rng.choice([3, 1.5, 0]),
        "margin": {"left": rng.choice([20, 40.5, 0]), "right": 20,
                   "top": rng.choice([20, 3]), "bottom": 20},
        "linkColor": rng.choice(["#222", "#abcdef", ["#f00", "#0f0", "#00f"],
                                 lambda d: "#123456"]),
        "dotColor": rng.choice(["#222", ["#1f77b4", "#aec7e8"], "fff"]),
        "labelBgColor": rng.choice(["#222", ["#ff7f0e", "#ffbb78", "#2ca02c"]]),
        "labelTextColor": rng.choice(["#fff", "#000"]),
        "borderColor": rng.choice(["#000", ["#111", "#eee"]]),
        "labella": rng.choice([{}, {"maxPos": 150}, {"maxPos": 60, "nodeSpacing": 1},
                               {"algorithm": "none"}]),
        "latex": {"linkThickness": rng.choice(["very thick", "thin", ""]),
                  "tickCross": rng.random() < 0.5,
                  "reproducible": rng.random() < 0.5},
    }
    if kind in ("float",):
        o["scale"] = LinearScale()
    if rng.random() < 0.2:
        o["textFn"] = None
    return o


class Doc(list):
    """list subclass, to check that only append/extend on the caller's
    object are used"""


def worker(tree):
    sys.path.insert(0, tree)
    import labella.timeline as T
    from labella.scale import LinearScale
    from xml.etree import ElementTree as ET

    assert os.path.realpath(T.__file__).startswith(os.path.realpath(tree))
    # no LaTeX available/needed: deterministic stand-in for the text measurer
    T.text_dimensions = lambda text, **kw: (6.5 * len(text) + 0.25, 9.0)

    rng = random.Random(555)
    directions = ["up", "down", "left", "right"]
    kinds = ["date", "datetime", "float", "ties"]
    count = 0

    def ser(el):
        return ET.tostring(el)

    # 1. real pipelines: the three emitters one by one and the full export
    for idx in range(120):
        d = directions[idx % 4]
        kind = kinds[(idx // 4) % 4]
        n = [1, 2, 3, 7, 15][idx % 5]
        items = make_items(rng, n, kind)
        opts = make_options(rng, T, kind, d)

        def run():
            tl = T.TimelineSVG(items, opts)
            tl.nodes, tl.renderer = tl.compute()
            root = ET.Element("svg")
            main = tl.add_main(root)
            out = [main.tag, sorted(main.attrib.items()), main is root[0]]
            out.append(tl.add_links(main))
            out.append(ser(root))
            out.append(tl.add_labels(main))
            out.append(ser(root))
            return out

        print("R", idx, d, kind, n, outcome(run))
        print("X", idx, outcome(lambda: T.TimelineSVG(items, opts).export()))
        count += 2

    tl = T.TimelineSVG([{"time": 1.0, "width": 10}],
                       {"scale": LinearScale(), "direction": "up"})

    # 2. add_main: every direction value, varied dimensions / parents
    dirs = directions + ["diagonal", "", None, "RIGHT", 0, ("up",), ["left"]]
    dims = [(400, 400, 20, 20, 20, 20), (150, 90, 0, 0, 0, 0),
            (100.9, 33.3, 0.5, 0.2, 40.5, 3), (10, 10, 20, 20, 20, 20),
            ("a", 100, 1, 1, 1, 1), (100, None, 1, 1, 1, 1)]
    for idx, (d, dm) in enumerate(itertools.product(dirs, dims)):
        tl.direction = d
        tl.options["initialWidth"], tl.options["initialHeight"] = dm[0], dm[1]
        tl.options["margin"] = {"left": dm[2], "right": dm[3], "top": dm[4],
                                "bottom": dm[5]}
        for parent in (ET.Element("g"), ET.Element("svg", width="3"), None):
            res = outcome(lambda: tl.add_main(parent))
            if res[0] == "OK":
                lay = res[1]
                res = ("OK", lay.tag, sorted(lay.attrib.items()),
                       len(parent), parent[-1] is lay, ser(parent))
            print("M", idx, repr(d), dm, res)
            count += 1
    tl.options["initialWidth"], tl.options["initialHeight"] = 400, 300
    tl.options["margin"] = {"left": 20, "right": 20, "top": 20, "bottom": 20}

    # 3. add_links / add_labels with synthetic nodes
    class Item(object):
        pass

    class N(object):
        pass

    class FakeRenderer(object):
        def __init__(self):
            self.calls = []

        def generatePath(self, node, tikz=False):
            self.calls.append((node.tag, tikz))
            if node.tag % 11 == 10:
                raise RuntimeError("path")
            return "M %d 0 L 1 %d" % (node.tag, node.tag)

    calls = []

    def rec(name, val):
        def fn(d):
            calls.append((name, repr(d)))
            return val(d) if callable(val) else val
        return fn

    colours = ["#222", "#abc", "abcdef", "#A1b2C3", ["#f00", "#0f0", "#00f"],
               ("#111", "#222"), lambda d: d["c"], lambda d: "#0a0b0c",
               "", "#12", "#xyz", None, 17, [], lambda d: None]
    names = ["linkColor", "labelBgColor", "labelTextColor", "borderColor"]
    for idx in range(480):
        nn = rng.choice([0, 1, 1, 2, 2, 3, 3, 4, 5, 8, 12])
        nodes = []
        for k in range(nn):
            nd = N()
            nd.tag = k
            it = Item()
            it.data = rng.choice([{"c": "#%06x" % rng.randrange(1 << 24)},
                                  {"c": "#fed"}, {}, None])
            it.text = rng.choice([None, "", "txt", "a<b&c", "é", 0, "0"])
            nd.data = it
            nd.w = rng.choice([0, 10, 54.0, 7.25])
            nd.h = rng.choice([0, 13.0, 18, 2.5])
            nd.x = rng.uniform(-300, 300)
            nd.y = rng.choice([0, -60.0, rng.uniform(-300, 300)])
            nd.dx = rng.choice([10, 54.0])
            nd.dy = rng.choice([13.0, 18])
            r = rng.random()
            if r < 0.03:
                del it.data
            elif r < 0.06:
                del it.text
            elif r < 0.08:
                del nd.data
            elif r < 0.10:
                del nd.w
            elif r < 0.12:
                nd.x = None
            nodes.append(nd)
        r = rng.random()
        if r < 0.05:
            nodes = tuple(nodes)
        elif r < 0.08:
            nodes = None
        tl.nodes = nodes
        tl.renderer = FakeRenderer()
        tl.direction = rng.choice(directions * 6 + ["diagonal", None])
        del calls[:]
        weird = rng.random() < 0.15
        for nm in names:
            c = rng.choice(colours) if weird else rng.choice(colours[:8])
            if callable(c) or rng.random() < 0.3:
                c = rec(nm, c)
            tl.options[nm] = c
        tl.options["showBorder"] = rng.choice([True, False, 0, 1, "", None])
        tl.options["textYOffset"] = rng.choice(["0.85em", "1em"])
        tl.options["textXOffset"] = rng.choice(["0.15em", "0"])
        tl.options["labelPadding"] = rng.choice(
            [{"left": 2, "right": 2, "top": 3, "bottom": 2},
             {"left": 0.5, "right": 0, "top": 0, "bottom": 0},
             {"left": 1, "right": 1, "top": 1, "bottom": 1},
             {"left": 4, "right": 0, "top": 2.5, "bottom": 0},
             {"left": 2}, {}])
        if rng.random() < 0.03:
            del tl.options["showBorder"]
        parent = ET.Element("g", attrib={"class": "main-layer"})
        res = outcome(lambda: tl.add_links(parent))
        print("K", idx, repr(tl.direction), res, ser(parent), tl.renderer.calls,
              list(calls))
        del calls[:]
        parent = ET.Element("g", attrib={"class": "main-layer"})
        res = outcome(lambda: tl.add_labels(parent))
        print("B", idx, repr(tl.direction), res, ser(parent), list(calls))
        count += 2
    print("COUNT", count)


def main():
    if len(sys.argv) == 3 and sys.argv[1] == "--worker":
        worker(sys.argv[2])
        return 0
    orig, new = sys.argv[1], sys.argv[2]
    outs = []
    for tree in (orig, new):
        env = dict(os.environ, PYTHONPATH=tree, PYTHONHASHSEED="0")
        p = subprocess.run(
            [sys.executable, os.path.abspath(__file__), "--worker", tree],
            env=env, stdout=subprocess.PIPE, stderr=subprocess.PIPE,
            universal_newlines=True, cwd="/tmp",
        )
        if p.returncode != 0:
            print("DIFFERENT (worker crashed for %s)\n%s" % (tree, p.stderr))
            return 1
        outs.append(p.stdout.splitlines())
    a, b = outs
    diffs = [(x, y) for x, y in zip(a, b) if x != y]
    if len(a) != len(b) or diffs or len(a) < 200:
        print("DIFFERENT")
        print("lines: %d vs %d" % (len(a), len(b)))
        for x, y in diffs[:10]:
            print("- " + x)
            print("+ " + y)
        return 1
    print("EQUIVALENT (%d cases compared)" % (len(a) - 1))
    return 0


if __name__ == "__main__":
    sys.exit(main())
