#!/usr/bin/env python
"""Differential test: python equiv.py <original-checkout> <refactored-checkout>

Imports the ``labella`` package from each of the two checkouts in turn, runs
the same seeded cases in both and compares the outcomes exactly.
"""

import contextlib
import datetime
import importlib
import io
import os
import random
import sys

MODULES = [
    "labella",
    "labella.scale",
    "labella.node",
    "labella.force",
    "labella.renderer",
    "labella.utils",
    "labella.tex",
    "labella.timeline",
]


class NS(object):
    pass


def purge():
    for name in list(sys.modules):
        if name == "labella" or name.startswith("labella."):
            del sys.modules[name]
    importlib.invalidate_caches()


def load(root):
    root = os.path.realpath(root)
    purge()
    sys.path.insert(0, root)
    try:
        ns = NS()
        for name in MODULES:
            mod = importlib.import_module(name)
            fname = os.path.realpath(mod.__file__)
            assert fname.startswith(root + os.sep), (name, fname, root)
            setattr(ns, name.split(".")[-1], mod)
    finally:
        sys.path.remove(root)
    return ns


def canon(x):
    """Turn a result into plain comparable data (floats via float.hex)."""
    if isinstance(x, bool) or x is None:
        return x
    if isinstance(x, float):
        return ("float", x.hex())
    if isinstance(x, int):
        return ("int", x)
    if isinstance(x, (str, bytes)):
        return (type(x).__name__, x)
    if isinstance(x, tuple):
        return ("tuple",) + tuple(canon(v) for v in x)
    if isinstance(x, list):
        return ("list",) + tuple(canon(v) for v in x)
    if isinstance(x, dict):
        return ("dict", type(x).__name__) + tuple(
            (canon(k), canon(v)) for k, v in x.items()
        )
    if isinstance(x, (datetime.datetime, datetime.date)):
        return (type(x).__name__, x.isoformat())
    if isinstance(x, BaseException):
        return ("EXC", type(x).__name__, str(x))
    return ("obj", type(x).__name__, repr(x))


def outcome(fn, *args, **kwargs):
    """Result of a call, or the exception (type and message) it raised."""
    try:
        return ("ok", canon(fn(*args, **kwargs)))
    except Exception as e:  # noqa
        return ("EXC", type(e).__name__, str(e))


# ---------------------------------------------------------------------------
# random timelines

WORDS = [
    "alpha",
    "Beta gamma",
    "café",
    "naïve résumé",
    "Łódź",
    "Smørrebrød",
    "áè",
    "ẋ̣",
    "q̶z",
    "ǖ ṩ",
    "ﬁn",
    "́lead",
    "100% & more_",
    "T",
    "",
]
HEXDIGITS = "0123456789abcdefABCDEF"
DIRECTIONS = ["up", "down", "left", "right"]


def rand_color(rng):
    n = rng.choice([3, 6, 6])
    code = "".join(rng.choice(HEXDIGITS) for _ in range(n))
    return ("#" if rng.random() < 0.8 else "") + code


def rand_color_option(rng):
    """A colour option: a string, a list of strings or a callable."""
    r = rng.random()
    if r < 0.4:
        return rand_color(rng)
    if r < 0.7:
        return [rand_color(rng) for _ in range(rng.randint(1, 5))]
    palette = [rand_color(rng) for _ in range(rng.randint(1, 4))]
    return lambda d, palette=palette: palette[int(d["width"]) % len(palette)]


def rand_time(rng, numeric):
    if numeric:
        r = rng.random()
        if r < 0.3:
            return rng.randint(-50, 500)
        if r < 0.9:
            return rng.uniform(-100.0, 1000.0)
        return float(rng.randint(0, 20))
    base = datetime.datetime(1900, 1, 1)
    span = rng.choice([3600, 86400 * 3, 86400 * 400, 86400 * 365 * 120])
    t = base + datetime.timedelta(
        days=rng.randint(0, 365 * 150),
        seconds=rng.randint(0, span),
        microseconds=rng.choice([0, 0, rng.randint(0, 999999)]),
    )
    if rng.random() < 0.3:
        return t.date()
    return t


def rand_timeline_args(rng, ns, direction=None, text_prob=None, n=None):
    """Return (dicts, options) for a random timeline; widths are explicit."""
    numeric = rng.random() < 0.4
    if n is None:
        n = rng.choice([1, 1, 2, 3, 4, 5, 6, 8, 12, 30])
    if text_prob is None:
        text_prob = rng.choice([0.0, 0.5, 0.8, 1.0])
    dicts = []
    for _ in range(n):
        d = {"time": rand_time(rng, numeric)}
        d["width"] = rng.choice(
            [rng.randint(1, 120), rng.randint(10, 60), rng.uniform(5.0, 80.0)]
        )
        if rng.random() < text_prob:
            d["text"] = rng.choice(WORDS)
        if rng.random() < 0.1:
            d["extra"] = rng.randint(0, 9)
        dicts.append(d)
    options = {}
    if numeric:
        options["scale"] = ns.scale.LinearScale()
    if direction is None:
        direction = rng.choice(DIRECTIONS)
    if direction != "right" or rng.random() < 0.5:
        options["direction"] = direction
    if rng.random() < 0.5:
        options["margin"] = {
            "left": rng.randint(0, 60),
            "right": rng.randint(0, 60),
            "top": rng.randint(0, 60),
            "bottom": rng.choice([rng.randint(0, 60), 7.5]),
        }
    if rng.random() < 0.5:
        options["initialWidth"] = rng.choice([200, 400, 804, 1000.5])
    if rng.random() < 0.5:
        options["initialHeight"] = rng.choice([150, 400, 250.25, 900])
    if rng.random() < 0.3:
        options["dotRadius"] = rng.choice([1, 2, 3.5, 5])
    if rng.random() < 0.4:
        options["layerGap"] = rng.choice([10, 30, 60, 45.5])
    if rng.random() < 0.3:
        options["labelPadding"] = {
            "left": rng.randint(0, 6),
            "right": rng.randint(0, 6),
            "top": rng.randint(0, 6),
            "bottom": rng.choice([0, 2, 1.5]),
        }
    for key in (
        "dotColor",
        "labelBgColor",
        "labelTextColor",
        "linkColor",
        "borderColor",
    ):
        if rng.random() < 0.5:
            options[key] = rand_color_option(rng)
    if rng.random() < 0.5:
        options["showBorder"] = rng.random() < 0.7
    if rng.random() < 0.3:
        options["showTicks"] = rng.random() < 0.5
    if rng.random() < 0.15:
        options["textFn"] = None
    elif rng.random() < 0.15:
        options["textFn"] = lambda d: d.get("text", "").upper() or None
    if rng.random() < 0.2:
        options["textXOffset"] = "0.2em"
        options["textYOffset"] = "1em"
    if rng.random() < 0.2:
        times = [d["time"] for d in dicts]
        if not numeric:
            times = [
                datetime.datetime.combine(t, datetime.time())
                if not isinstance(t, datetime.datetime)
                else t
                for t in times
            ]
            pad = datetime.timedelta(days=rng.randint(1, 400))
        else:
            pad = rng.choice([1, 2.5, 100])
        options["domain"] = [min(times) - pad, max(times) + pad]
    if rng.random() < 0.5:
        latex = {}
        if rng.random() < 0.5:
            latex["tickCross"] = rng.random() < 0.6
        if rng.random() < 0.3:
            latex["fontsize"] = rng.choice(["10pt", "12pt"])
        if rng.random() < 0.3:
            latex["reproducible"] = rng.random() < 0.6
        if rng.random() < 0.3:
            latex["preamble"] = "\\usepackage{lmodern}"
        for key in (
            "borderThickness",
            "axisThickness",
            "tickThickness",
            "linkThickness",
        ):
            if rng.random() < 0.3:
                latex[key] = rng.choice(["thin", "thick", "ultra thick"])
        options["latex"] = latex
    if rng.random() < 0.3:
        labella = {}
        if rng.random() < 0.5:
            labella["maxPos"] = rng.choice([300, 500, 764])
        if rng.random() < 0.5:
            labella["minPos"] = 0
        if rng.random() < 0.5:
            labella["nodeSpacing"] = rng.choice([1, 3, 8])
        if rng.random() < 0.5:
            labella["algorithm"] = rng.choice(["overlap", "none", "simple"])
        options["labella"] = labella
    return dicts, options


def node_state(nodes):
    out = []
    for n in nodes:
        out.append(
            tuple(
                canon(getattr(n, a, "<missing>"))
                for a in (
                    "idealPos",
                    "currentPos",
                    "width",
                    "w",
                    "h",
                    "x",
                    "y",
                    "dx",
                    "dy",
                    "layerIndex",
                )
            )
        )
    return tuple(out)


def timeline_outcome(ns, kind, dicts, options):
    """Build a TimelineSVG/TimelineTex, export it and report everything."""
    cls = ns.timeline.TimelineSVG if kind == "svg" else ns.timeline.TimelineTex
    try:
        tl = cls(dicts, options=options)
        text = tl.export()
    except Exception as e:  # noqa
        return ("EXC", type(e).__name__, str(e), canon_dicts(dicts))
    opts = {
        k: canon(v)
        for k, v in tl.options.items()
        if k not in ("scale",) and not callable(v)
    }
    return (
        "ok",
        canon(text),
        node_state(tl.nodes),
        canon_dicts(dicts),
        canon(sorted(opts.items())),
        canon([str(it) for it in tl.items]),
    )


def canon_dicts(dicts):
    return canon([sorted(d.items(), key=lambda kv: kv[0]) for d in dicts])


def timeline_cases(ns, seeds, kinds=("svg", "tex"), **kwargs):
    """Yield (label, outcome) for random timelines exported as SVG / TikZ."""
    for seed in seeds:
        for kind in kinds:
            rng = random.Random("tl-%i" % seed)
            dicts, options = rand_timeline_args(rng, ns, **kwargs)
            yield ("timeline", kind, seed), timeline_outcome(
                ns, kind, dicts, options
            )


def cases(ns):
    # whole SVG documents, ticks shown, all four directions
    for seed in range(2400):
        rng = random.Random("axis-%i" % seed)
        dicts, options = rand_timeline_args(
            rng, ns, direction=DIRECTIONS[seed % 4], n=rng.randint(1, 6)
        )
        options["showTicks"] = True
        yield ("svg-axis", seed), timeline_outcome(ns, "svg", dicts, options)
    # add_axis called directly, also for directions outside the four names
    for seed in range(1600):
        rng = random.Random("direct-%i" % seed)
        dicts, options = rand_timeline_args(rng, ns, n=rng.randint(1, 4))
        try:
            tl = ns.timeline.TimelineSVG(dicts, options=options)
        except Exception as e:  # noqa
            yield ("add_axis", seed), ("setup", canon(e))
            continue
        tl.direction = rng.choice(
            DIRECTIONS + ["diagonal", "UP", "", None, 3, ("left",)]
        )
        if rng.random() < 0.1:
            # a degenerate range: every tick at the same place
            tl.options["scale"].range([5, 5])
        if rng.random() < 0.1:
            tl.options["scale"].range([0, rng.choice([1e-9, 1e12, -400.5])])
        root = ns.timeline.ElementTree.Element("root")
        res = outcome(tl.add_axis, root)
        yield ("add_axis", seed, repr(tl.direction)), (
            res,
            canon(ns.timeline.ElementTree.tostring(root)),
        )


# ---------------------------------------------------------------------------


def run_all(root):
    ns = load(root)
    results = []
    with contextlib.redirect_stderr(io.StringIO()):
        for label, result in cases(ns):
            results.append((label, result))
    purge()
    return results


def main(argv):
    if len(argv) != 3:
        print(__doc__)
        return 2
    res_a = run_all(argv[1])
    res_b = run_all(argv[2])
    if len(res_a) != len(res_b):
        print("DIFFERENT number of cases: %i vs %i" % (len(res_a), len(res_b)))
        return 1
    for (la, ra), (lb, rb) in zip(res_a, res_b):
        if la != lb or ra != rb:
            print("DIFFERENCE in case %r / %r" % (la, lb))
            print("  original  : %r" % (ra,))
            print("  refactored: %r" % (rb,))
            return 1
    print("EQUIVALENT (%i cases)" % len(res_a))
    return 0


if __name__ == "__main__":
    sys.exit(main(sys.argv))
