#!/usr/bin/env python
# -*- coding: utf-8 -*-
"""Differential test: python equiv.py <original-checkout> <refactored-checkout>

Imports the ``labella`` package from each of the two directories in turn,
runs the same randomised and edge-case inputs (same seeds) through the
public behaviour and compares the results exactly (floats by float.hex,
exceptions by type and message, object state after the call).
"""

import datetime
import os
import random
import re
import sys
import types

FOCUS = "all"
N_TIMELINE = 1200
N_UTILS = 4000
N_UNI = 4000
N_RENDER = 1500
N_ITEMS = 600
N_OPTS = 600

MODS = [
    "labella",
    "labella.timeline",
    "labella.renderer",
    "labella.tex",
    "labella.utils",
    "labella.scale",
    "labella.node",
]


def load(path):
    path = os.path.realpath(path)
    for name in list(sys.modules):
        if name == "labella" or name.startswith("labella."):
            del sys.modules[name]
    sys.path.insert(0, path)
    try:
        import importlib

        importlib.invalidate_caches()
        out = {}
        for name in MODS:
            out[name] = importlib.import_module(name)
        for name, mod in list(sys.modules.items()):
            if name == "labella" or name.startswith("labella."):
                f = os.path.realpath(mod.__file__)
                assert f.startswith(path + os.sep), (name, f, path)
    finally:
        sys.path.remove(path)
    ns = types.SimpleNamespace()
    ns.path = path
    ns.timeline = out["labella.timeline"]
    ns.renderer = out["labella.renderer"]
    ns.tex = out["labella.tex"]
    ns.utils = out["labella.utils"]
    ns.scale = out["labella.scale"]
    ns.node = out["labella.node"]
    return ns


# ----------------------------------------------------------------- canon

ADDR = re.compile(r"0x[0-9a-fA-F]+")


def exc_info(e):
    return ("EXC", type(e).__name__, ADDR.sub("0x?", str(e)))


def canon(x, depth=0):
    if depth > 12:
        return ("deep",)
    t = type(x)
    name = t.__name__
    if x is None or t in (bool, int, str, bytes):
        return (name, x)
    if t is float:
        return ("float", x.hex())
    if t in (list, tuple):
        return (name, [canon(v, depth + 1) for v in x])
    if t is dict:
        return (
            "dict",
            [(canon(k, depth + 1), canon(v, depth + 1)) for k, v in x.items()],
        )
    if t in (datetime.datetime, datetime.date, datetime.time):
        return (name, repr(x))
    if isinstance(x, types.GeneratorType) or t in (map, zip):
        return ("iter", [canon(v, depth + 1) for v in x])
    if name in ("LinearScale", "TimeScale"):
        try:
            return (name, canon(x.domain(), depth + 1), canon(x.range(), depth + 1))
        except Exception as e:  # pragma: no cover
            return (name, exc_info(e))
    if name == "Item":
        return ("Item", canon(dict(vars(x)), depth + 1))
    if name == "Node":
        d = dict(vars(x))
        for k in ("parent", "child", "overlaps"):
            if k in d:
                d[k] = None if d[k] is None else "<set>"
        if "data" in d and type(d["data"]).__name__ == "Item":
            d["data"] = ("item", id(d["data"]) and d["data"].time)
        return ("Node", canon(d, depth + 1))
    if name == "Renderer":
        return ("Renderer", canon(x.options, depth + 1))
    if name == "Element":
        from xml.etree import ElementTree

        return ("Element", ElementTree.tostring(x))
    if callable(x):
        return ("callable",)
    if isinstance(x, float):
        return (name, float(x).hex())
    return (name, ADDR.sub("0x?", repr(x)))


def attempt(fn, *a, **k):
    try:
        return ("OK", canon(fn(*a, **k)))
    except Exception as e:
        return exc_info(e)


# ------------------------------------------------------------ generators

DIRS = ["up", "down", "left", "right"]
TEXTS = [
    "",
    None,
    "a",
    "Label",
    "A much longer label text",
    "caf\u00e9",
    "na\u00efve \u0153uvre",
    "e\u0301a\u0308\u0323",
    "\u0301lone",
    "x & y < z > \"q\" 'r'",
    "100% $5 #1 _a_ {b} \\c ~d ^e",
    "\ufb01\u00b2\u00bd\u212b",
    "\u4e2d\u6587",
    "line\nbreak\ttab",
    "\U0001f600",
]
COLORS_OK = [
    "#222",
    "#fff",
    "abc",
    "#1f77b4",
    "ff7f0e",
    "#AbCdEf",
    "#0a0",
    "00ff00ff",
    "#12345678",
]
COLORS_BAD = ["", "#", "#12", "xyz", "#ggg", "#12345", None, 12, "+1-2 3", "#+1f"]


def gen_color(rng, allow_bad):
    r = rng.random()
    if allow_bad and r < 0.04:
        return ("str", rng.choice(COLORS_BAD))
    if r < 0.45:
        return ("str", rng.choice(COLORS_OK))
    if r < 0.75:
        n = rng.randint(1, 4)
        lst = [rng.choice(COLORS_OK) for _ in range(n)]
        if allow_bad and rng.random() < 0.05:
            lst.append(rng.choice(COLORS_BAD))
        return ("list", lst)
    if allow_bad and r < 0.78:
        return ("fnbad", rng.randint(0, 6))
    return ("fn", rng.choice(COLORS_OK))


def build_color(spec):
    kind, val = spec
    if kind == "str":
        return val
    if kind == "list":
        return list(val)
    if kind == "fn":
        return lambda d, _v=val: d.get("color", _v)
    if kind == "fnbad":
        state = {"n": 0}

        def fn(d, _k=val, _s=state):
            _s["n"] += 1
            if _s["n"] > _k:
                return None
            return "#123"

        return fn
    raise AssertionError(kind)


def rnum(rng, choices):
    return rng.choice(choices)


def gen_timeline_case(rng):
    numeric = rng.random() < 0.5
    r = rng.random()
    if r < 0.6:
        n = rng.randint(1, 8)
    elif r < 0.95:
        n = rng.randint(9, 25)
    else:
        n = rng.randint(26, 60)
    items = []
    span = rng.choice([1, 10, 100, 1000, 1e6])
    tkind = rng.choice(["datetime", "date", "mixed"])
    for i in range(n):
        d = {}
        if numeric:
            if rng.random() < 0.5:
                d["time"] = rng.uniform(-span, span)
            else:
                d["time"] = rng.randint(-int(span), int(span))
        else:
            y = rng.randint(1971, 2150)
            if rng.random() < 0.5:
                y = 2000 + rng.randint(0, 3)
            dt = datetime.datetime(
                y,
                rng.randint(1, 12),
                rng.randint(1, 28),
                rng.randint(0, 23),
                rng.randint(0, 59),
                rng.randint(0, 59),
                rng.choice([0, 0, 500000, rng.randint(0, 999999)]),
            )
            k = tkind if tkind != "mixed" else rng.choice(["datetime", "date"])
            d["time"] = dt if k == "datetime" else dt.date()
        r = rng.random()
        if r < 0.7:
            d["width"] = rng.randint(5, 120)
        elif r < 0.9:
            d["width"] = rng.choice([37.5, 0.1, 99.99, 1e-3, 50.0, 12.25])
        elif r < 0.95:
            d["width"] = 0
        else:
            d["width"] = rng.choice([True, -5, -0.0, 1e9])
        if rng.random() < 0.75:
            d["text"] = rng.choice(TEXTS)
        if rng.random() < 0.3:
            d["color"] = rng.choice(COLORS_OK)
        if rng.random() < 0.1:
            d["extra"] = [1, 2.5, "x"]
        items.append(d)
    if not numeric and n > 1 and rng.random() < 0.15:
        items[1]["time"] = items[0]["time"]
    allow_bad = rng.random() < 0.25
    o = {}
    if rng.random() < 0.92:
        o["direction"] = rng.choice(DIRS)
    elif rng.random() < 0.3:
        o["direction"] = rng.choice(["diagonal", None, "UP"])
    if rng.random() < 0.5:
        vals = rng.choice(
            [[0, 10, 20, 40], [5.5, 7.25, 0.0, 19.99], [-3, 0, 8, 100], [1e3, 2, 3, 4]]
        )
        m = {
            "left": rng.choice(vals),
            "right": rng.choice(vals),
            "top": rng.choice(vals),
            "bottom": rng.choice(vals),
        }
        if rng.random() < 0.06:
            del m[rng.choice(list(m))]
        if rng.random() < 0.05:
            m["left"] = rng.choice([float("nan"), float("inf"), -0.0, "7", None, 10**30])
        o["margin"] = m
    if rng.random() < 0.5:
        o["initialWidth"] = rng.choice([200, 400, 600.5, 1000, 123, 0])
    if rng.random() < 0.5:
        o["initialHeight"] = rng.choice([200, 400, 600.5, 1000, 123, 0])
    if rng.random() < 0.3:
        o["dotRadius"] = rng.choice([1, 2, 3, 4.5, 0, 2.0, -0.0, 10**20])
    if rng.random() < 0.3:
        o["layerGap"] = rng.choice([10, 30, 60, 82.5, 0, 1e3])
    if rng.random() < 0.55:
        lab = {}
        if rng.random() < 0.5:
            lab["nodeSpacing"] = rng.choice([0, 1, 3, 5.5])
        if rng.random() < 0.4:
            lab["minPos"] = rng.choice([0, None, -20])
        if rng.random() < 0.6:
            lab["maxPos"] = rng.choice([None, 100, 250, 400, 77.7])
        if rng.random() < 0.6:
            lab["algorithm"] = rng.choice(["overlap", "none", "simple", "overlap"])
        if rng.random() < 0.3:
            lab["density"] = rng.choice([0.5, 0.75, 0.85, 1])
        if rng.random() < 0.3:
            lab["stubWidth"] = rng.choice([1, 2, 0.5])
        if rng.random() < 0.1:
            lab["direction"] = "nowhere"
        o["labella"] = lab
    for cname in ["dotColor", "labelBgColor", "labelTextColor", "linkColor", "borderColor"]:
        if rng.random() < 0.4:
            o[cname] = gen_color(rng, allow_bad)
    if rng.random() < 0.3:
        vals = rng.choice([[0, 1, 2, 3], [2.5, 0.0, 4, 1.25], [-1, 5, 10, 0]])
        p = {
            "left": rng.choice(vals),
            "right": rng.choice(vals),
            "top": rng.choice(vals),
            "bottom": rng.choice(vals),
        }
        if rng.random() < 0.08:
            del p[rng.choice(list(p))]
        o["labelPadding"] = p
    if rng.random() < 0.1:
        o["textXOffset"] = rng.choice(["0.2em", "0", "1px", 0.5, None])
    if rng.random() < 0.1:
        o["textYOffset"] = rng.choice(["0.9em", "0", "1px"])
    if rng.random() < 0.3:
        o["showTicks"] = rng.choice([False, True, 0])
    if rng.random() < 0.4:
        o["showBorder"] = rng.choice([True, True, False, 1])
    r = rng.random()
    if r < 0.5:
        lt = {}
        if rng.random() < 0.4:
            lt["fontsize"] = rng.choice(["10pt", "12pt", 11])
        for k in ["borderThickness", "axisThickness", "tickThickness", "linkThickness"]:
            if rng.random() < 0.3:
                lt[k] = rng.choice(["thin", "ultra thick", "line width=1pt", "", 3, ("a", "b")])
        if rng.random() < 0.4:
            lt["tickCross"] = rng.choice([True, False, 1])
        if rng.random() < 0.3:
            lt["preamble"] = rng.choice(["", "\\usepackage{amsmath}", "% c\n\\usepackage{x}", "caf\u00e9"])
        if rng.random() < 0.4:
            lt["reproducible"] = rng.choice([True, False])
        if rng.random() < 0.1:
            lt["unknownKey"] = [1, 2]
        if rng.random() < 0.1:
            lt["latexmkOptions"] = ["--xelatex"]
        o["latex"] = lt
    elif r < 0.53:
        o["latex"] = rng.choice(
            [("pairs", [("fontsize", "9pt"), ("tickCross", True)]), ("raw", 5), ("raw", None), ("raw", "ab"), ("raw", ["xy", "zw"])]
        )
    if rng.random() < 0.2:
        if numeric:
            a = rng.uniform(-span, span)
            o["domain"] = [a, a + rng.uniform(0.5, 2) * span]
        else:
            o["domain"] = [
                datetime.datetime(rng.randint(1980, 2000), 1, 1),
                datetime.datetime(rng.randint(2001, 2100), rng.randint(1, 12), 5),
            ]
        if rng.random() < 0.2:
            o["domain"] = tuple(o["domain"])
    r = rng.random()
    if r < 0.12:
        o["textFn"] = ("none",)
    elif r < 0.24:
        o["textFn"] = ("upper",)
    elif r < 0.28:
        o["textFn"] = ("timestr",)
    if rng.random() < 0.1:
        o["timeFn"] = ("get",)
    if rng.random() < 0.1:
        o["foo"] = {"bar": 1}
    if numeric:
        o["scale"] = ("linear",)
    else:
        r = rng.random()
        if r < 0.4:
            o["scale"] = ("time",)
        elif r < 0.43:
            o["scale"] = ("none",)
    passnone = (not numeric) and rng.random() < 0.05
    return {"items": items, "options": None if passnone else o}


def build_items(items):
    out = []
    for d in items:
        nd = {}
        for k, v in d.items():
            nd[k] = list(v) if isinstance(v, list) else v
        out.append(nd)
    return out


def build_options(lab, o):
    if o is None:
        return None
    out = {}
    for k, v in o.items():
        if k in ("dotColor", "labelBgColor", "labelTextColor", "linkColor", "borderColor"):
            out[k] = build_color(v)
        elif k in ("margin", "labelPadding", "labella", "foo"):
            out[k] = dict(v)
        elif k == "latex":
            if isinstance(v, dict):
                out[k] = {a: (list(b) if isinstance(b, list) else b) for a, b in v.items()}
            elif v[0] == "pairs":
                out[k] = list(v[1])
            else:
                out[k] = v[1]
        elif k == "domain":
            out[k] = type(v)(v)
        elif k == "textFn":
            if v[0] == "none":
                out[k] = None
            elif v[0] == "upper":
                out[k] = lambda d: d["text"].upper() if d.get("text") else None
            else:
                out[k] = lambda d: str(d["time"])[:12]
        elif k == "timeFn":
            out[k] = lambda d: d.get("time")
        elif k == "scale":
            if v[0] == "linear":
                out[k] = lab.scale.LinearScale()
            elif v[0] == "time":
                out[k] = lab.scale.TimeScale()
            else:
                out[k] = None
        else:
            out[k] = v
    return out


TEX_ADDERS = [
    "add_header",
    "add_header_colors",
    "add_header_labels",
    "add_header_text",
    "add_margin",
    "close_scope",
    "add_main",
    "add_timeline",
    "add_axis",
    "add_links",
    "add_labels",
    "add_dots",
    "add_footer",
]
SVG_ADDERS = [
    "add_main",
    "add_axis",
    "add_timeline",
    "add_dots",
    "add_links",
    "add_labels",
]


def run_timeline_case(lab, case, deep):
    from xml.etree import ElementTree

    T = lab.timeline
    res = []
    for cname in ("TimelineSVG", "TimelineTex"):
        cls = getattr(T, cname)
        dicts = build_items(case["items"])
        options = build_options(lab, case["options"])
        r = {"cls": cname}
        try:
            tl = cls(dicts, options)
        except Exception as e:
            r["init"] = exc_info(e)
            r["dicts"] = canon(dicts)
            r["options"] = canon(options)
            r["defaults"] = canon(T.DEFAULT_OPTIONS)
            res.append(r)
            continue
        r["state0"] = canon(
            [dicts, options, tl.options, tl.items, tl.direction, tl.nodes, tl.renderer]
        )
        r["ident"] = [
            tl.options["margin"] is T.DEFAULT_OPTIONS["margin"],
            tl.options["labelPadding"] is T.DEFAULT_OPTIONS["labelPadding"],
            tl.options["latex"] is T.DEFAULT_OPTIONS["latex"],
            tl.options["labella"] is T.DEFAULT_OPTIONS["labella"],
            tl.options["scale"] is T.DEFAULT_OPTIONS["scale"],
            options is not None and tl.options["latex"] is options["latex"],
            options is not None and "margin" in options and tl.options["margin"] is options["margin"],
            options is not None and "labella" in options and tl.options["labella"] is options["labella"],
            options is not None and "scale" in options and tl.options["scale"] is options["scale"],
            tl.options is options,
            [it.data is d for it, d in zip(tl.items, dicts)],
        ]
        try:
            if cname == "TimelineSVG":
                out = tl.export()
            else:
                out = tl.export(filename=None, build_pdf=False)
            r["export"] = ("OK", canon(out))
        except Exception as e:
            r["export"] = exc_info(e)
        if r["export"][0] == "OK":
            import tempfile

            with tempfile.TemporaryDirectory() as tmp:
                fn = os.path.join(tmp, "out.txt")
                if cname == "TimelineSVG":
                    ret = attempt(tl.export, fn)
                else:
                    ret = attempt(tl.export, fn, False)
                data = None
                if os.path.exists(fn):
                    with open(fn, "rb") as fid:
                        data = fid.read()
                r["file"] = (ret, data, sorted(os.listdir(tmp)))
        r["state1"] = canon(
            [dicts, options, tl.options, tl.items, tl.direction, tl.nodes, tl.renderer]
        )
        if deep:
            r["inner"] = attempt(tl.getInnerDims)
            r["get_nodes"] = attempt(tl.get_nodes)
            r["compute"] = attempt(tl.compute)
            r["timepos"] = [attempt(tl.timePos, d) for d in dicts[:5]]
            r["textfn"] = [attempt(tl.textFn, d) for d in dicts[:5]]
            r["colors"] = [
                attempt(getattr(tl, c), d, i)
                for c in ("dotColor", "linkColor", "labelBgColor", "labelTextColor", "borderColor")
                for i, d in enumerate(dicts[:4])
            ]
            r["str"] = [attempt(str, it) for it in tl.items[:3]] + [
                attempt(repr, it) for it in tl.items[:3]
            ]
            if tl.nodes:
                r["nodepos"] = [attempt(tl.nodePos, n, 10) for n in tl.nodes[:6]]
                r["paths"] = [
                    attempt(tl.renderer.generatePath, n, tk)
                    for n in tl.nodes[:6]
                    for tk in (False, True)
                ] + [attempt(tl.renderer.getWayPoints, n) for n in tl.nodes[:6]]
                adders = {}
                if cname == "TimelineSVG":
                    adders["trans"] = attempt(tl.getTranslation)
                    for a in SVG_ADDERS:
                        root = ElementTree.Element("root")
                        ret = attempt(getattr(tl, a), root)
                        adders[a] = (ret, attempt(ElementTree.tostring, root))
                else:
                    for a in TEX_ADDERS:
                        doc = ["seed"]
                        ret = attempt(getattr(tl, a), doc)
                        adders[a] = (ret, canon(doc))
                r["adders"] = sorted(adders.items())
            r["state2"] = canon([dicts, options, tl.options, tl.items])
        r["defaults"] = canon(T.DEFAULT_OPTIONS)
        res.append(r)
    return res


# ---- utils

HEXCH = "0123456789abcdefABCDEF"


def gen_utils_cases(rng, n):
    cases = []
    fixed = (
        COLORS_OK
        + COLORS_BAD
        + ["#", "##fff", "# fff", "#FFF", "fFf", " fff", "0x1", "0x10x20x3", "+f+f+f", "1_01_01_0", "#1_0", "\u0661\u0662\u0663", "#\uff11\uff12\uff13", "ab", "abcd", "abcde", "abcdefg", "g00000", "00g000", "0000g0", "g", "gg", "g0g", "0g0", "00g", b"#fff", b"abc", b"abcdef", ["f", "f", "f"], ["z", None, "f"], ["f", None, "z"], ("a", "b", "c"), ["ab", "cd", "ef"], 5, 5.5, None, True, [], {}, {"a": 1, "b": 2, "c": 3}, "#" * 7, "\n12", "12\n", "1 2 3 ", "-1-2-3", "-a", "a-b-c-", "abc\x00"]
    )
    for v in fixed:
        cases.append(("color", v))
    for v in list(range(-3, 1500)) + [26**k + d for k in range(1, 9) for d in (-2, -1, 0, 1)] + [
        10**30, 2**63, -1, -0.5, 0.0, 2.0, 2.5, 1e300, float("inf"), float("nan"), float("-inf"),
        True, False, None, "3", "", [1], (1,), 701, 702, 703, 18277, 18278, 18279,
    ]:
        cases.append(("int", v))
    while len(cases) < n:
        r = rng.random()
        if r < 0.5:
            ln = rng.choice([3, 6, 6, 6, 3, rng.randint(0, 9)])
            s = "".join(rng.choice(HEXCH) for _ in range(ln))
            if rng.random() < 0.15 and s:
                k = rng.randrange(len(s))
                s = s[:k] + rng.choice("gz +-_x#.\u00e9") + s[k + 1 :]
            if rng.random() < 0.6:
                s = "#" + s
            cases.append(("color", s))
        elif r < 0.8:
            cases.append(("int", rng.randint(0, 10 ** rng.randint(1, 12))))
        else:
            cases.append(("hexdec", "".join(rng.choice(HEXCH + " _+-x") for _ in range(rng.randint(0, 4)))))
    return cases


def run_utils_case(lab, case):
    U = lab.utils
    kind, v = case
    if kind == "color":
        return [
            attempt(U.hex2rgb, v),
            attempt(U.hex2rgbf, v),
            attempt(U.hex2rgbstr, v),
            attempt(U.hex2html, v),
        ]
    if kind == "int":
        return [attempt(U.int2name, v)]
    return [attempt(U.hex2dec, v)]


# ---- uni2tex

def uni_pools():
    import unicodedata

    accents = [0x0300, 0x0301, 0x0302, 0x0308, 0x030B, 0x0303, 0x0327, 0x0328, 0x0304, 0x0331, 0x0307, 0x0323, 0x030A, 0x0306, 0x030C]
    other_marks = [0x0305, 0x0309, 0x030D, 0x0310, 0x0324, 0x0325, 0x0330, 0x0340, 0x0341, 0x0343, 0x0344, 0x0345, 0x0483, 0x05B0, 0x064B, 0x093C, 0x20D0, 0x3099, 0xFE20, 0x1D165]
    pre = []
    compat = []
    single = []
    multi = []
    for cp in range(0x80, 0x30000):
        ch = chr(cp)
        d = unicodedata.decomposition(ch)
        if not d:
            continue
        parts = d.split()
        if parts[0].startswith("<"):
            compat.append(cp)
        elif len(parts) == 2:
            pre.append(cp)
        elif len(parts) == 1:
            single.append(cp)
        else:
            multi.append(cp)
    return {
        "accents": accents,
        "marks": other_marks,
        "pre": pre,
        "compat": compat,
        "single": single,
        "multi": multi,
    }


def gen_uni_cases(rng, n):
    P = uni_pools()
    cases = list(TEXTS) + [
        "", "\u0301", "\u0301\u0301", "\u0305", "\u0305\u0301", "a\u0305\u0301", "a\u0301\u0305", "\u0344", "a\u0344",
        "\u212b", "\u212b\u0301", "\u00c5\u0301", "\u1e69", "\u01d6", "\u1ea5", "\u0958", "\ufb01\u0301", "\u00b2\u0308",
        "\uac00", "\uac01\u0301", "\ud800", "\udfff\u0301", "\U0001d15e", "\U0002f800", "a\u0300\u0301\u0302\u0308\u030b\u0303\u0327\u0328\u0304\u0331\u0307\u0323\u030a\u0306\u030c",
        " \u0301", "\n\u0301", "{\u0301}", "\\\u0301", "%\u0308", "\u00e9\u00e8\u00ea\u00eb\u0151\u00f1\u00e7\u0105\u0113\u1e07\u0117\u1ea1\u00e5\u0103\u011b",
        None, 5, 5.5, b"abc", b"", ["a", "b"], ["ab"], ["a", "\u0301"], [b"a"], [5], ("e", "\u0301"), [""], ["a", ""], [None], iter("e\u0301"), {"a": 1}, True,
    ]
    cases.extend(chr(c) for c in P["single"][:300])
    cases.extend(chr(c) for c in P["multi"])
    cases.extend(chr(c) + "\u0301" for c in P["pre"][::7])
    cases.extend("x" + chr(c) + "y" for c in P["pre"])
    cases.extend(chr(c) for c in P["compat"][::5])
    while len(cases) < n:
        ln = rng.choice([1, 2, 3, 4, 6, 10, 30])
        s = []
        for _ in range(ln):
            r = rng.random()
            if r < 0.25:
                s.append(rng.choice("abcxyzAEIOU eo{}\\ 1"))
            elif r < 0.45:
                s.append(chr(rng.choice(P["accents"])))
            elif r < 0.55:
                s.append(chr(rng.choice(P["marks"])))
            elif r < 0.7:
                s.append(chr(rng.choice(P["pre"])))
            elif r < 0.78:
                s.append(chr(rng.choice(P["compat"])))
            elif r < 0.82:
                s.append(chr(rng.choice(P["single"])))
            elif r < 0.85:
                s.append(chr(rng.choice(P["multi"] or P["single"])))
            elif r < 0.95:
                s.append(chr(rng.randint(0, 0xFFFF)))
            else:
                s.append(chr(rng.randint(0x10000, 0x10FFFF)))
        cases.append("".join(s))
    return cases


def run_uni_case(lab, case):
    if isinstance(case, types.GeneratorType) or type(case).__name__ == "str_ascii_iterator" or type(case).__name__.endswith("iterator"):
        case = list(case)
    out = [attempt(lab.tex.uni2tex, case)]
    out.append(attempt(lab.tex.get_latex_fontdoc, case))
    out.append(attempt(lab.tex.get_latex_fontdoc, "t", 10, case))
    out.append(attempt(lab.tex.get_latex_fontdoc, "t", fontsize=case, preamble="p{}"))
    return out


def run_uni_block(lab, block):
    f = lab.tex.uni2tex
    out = []
    for cp in range(*block):
        ch = chr(cp)
        out.append((f(ch), f("e" + ch), f(ch + "\u0301\u0305"), f("\u00e9" + ch + "x")))
    return out


# ---- renderer

NUMS = [0, 1, 10, 60, -5, 2.5, 0.0, -0.0, 1e-9, 1e15, 1e308, 123456789.123456789, 10**30, True, float("inf"), float("nan")]


def gen_render_cases(rng, n):
    cases = []
    for _ in range(n):
        opts = {}
        r = rng.random()
        if r < 0.85:
            opts["direction"] = rng.choice(DIRS)
        elif r < 0.9:
            opts["direction"] = rng.choice(["sideways", None, 5, ["left"], "Left"])
        if rng.random() < 0.8:
            opts["nodeHeight"] = rng.choice(NUMS) if rng.random() < 0.3 else rng.choice([10, 13.0, 17, 54.5, rng.uniform(0, 100)])
        if rng.random() < 0.8:
            opts["layerGap"] = rng.choice(NUMS) if rng.random() < 0.3 else rng.choice([60, 30, 12.5, rng.uniform(0, 100)])
        if rng.random() < 0.03:
            opts = rng.choice([None, {}, {"nodeHeight": "a"}, {"layerGap": None}, {"extra": 1}])
        nodes = []
        for _k in range(rng.randint(1, 5)):
            depth = rng.randint(0, 3)
            chain = []
            for lv in range(depth + 1):
                chain.append(
                    {
                        "ideal": rng.choice(NUMS) if rng.random() < 0.15 else rng.choice([rng.uniform(-500, 500), rng.randint(-500, 500)]),
                        "cur": rng.choice(NUMS) if rng.random() < 0.15 else rng.choice([rng.uniform(-500, 500), rng.randint(-500, 500)]),
                        "width": rng.choice(NUMS) if rng.random() < 0.15 else rng.choice([rng.uniform(0, 100), rng.randint(0, 100)]),
                        "layer": lv if rng.random() < 0.9 else rng.choice([0, 7, 2.5, -1]),
                    }
                )
            nodes.append(chain)
        if rng.random() < 0.02:
            nodes[0][-1]["cur"] = rng.choice([None, "s"])
        pts = [[rng.choice(NUMS + [rng.uniform(-1e4, 1e4)]) for _ in range(rng.choice([2, 2, 2, 0, 1, 3]))] for _ in range(3)]
        if rng.random() < 0.05:
            pts[0] = rng.choice([None, ["a", "b"], [None, 1], "12", (1, 2), [1.5, "x"], [10**400, 1]])
        cases.append({"opts": opts, "nodes": nodes, "pts": pts})
    return cases


def run_render_case(lab, case):
    R = lab.renderer
    N = lab.node.Node
    out = []
    out.append(attempt(R.lineTo, case["pts"][0]))
    out.append(attempt(R.moveTo, case["pts"][0]))
    out.append(attempt(R.curveTo, *case["pts"]))
    out.append(attempt(R.vCurveBetween, case["pts"][0], case["pts"][1]))
    out.append(attempt(R.hCurveBetween, case["pts"][0], case["pts"][1]))
    opts = case["opts"]
    opts = dict(opts) if isinstance(opts, dict) else opts
    try:
        rd = R.Renderer(opts)
    except Exception as e:
        return out + [exc_info(e)]
    out.append(canon(rd.options))
    out.append(canon(opts))
    leaves = []
    for chain in case["nodes"]:
        parent = None
        node = None
        for spec in chain:
            node = N(spec["ideal"], spec["width"])
            node.currentPos = spec["cur"]
            node.layerIndex = spec["layer"]
            if parent is not None:
                node.parent = parent
                parent.child = node
            parent = node
        leaves.append(node)
    allnodes = []
    for lf in leaves:
        allnodes.extend(lf.getPathFromRoot())
    for lf in leaves:
        out.append(attempt(rd.getWayPoints, lf))
        out.append(attempt(rd.generatePath, lf))
        out.append(attempt(rd.generatePath, lf, True))
        out.append(attempt(rd.generatePath, lf, tikz=1))
    try:
        ret = rd.layout(allnodes)
        out.append(("OK", ret is allnodes, canon(ret)))
    except Exception as e:
        out.append(exc_info(e))
        out.append(canon(allnodes))
    out.append(attempt(rd.layout, []))
    out.append(canon(rd.options))
    out.append(canon(R.DEFAULT_OPTIONS))
    return out


# ---- items / parse_items / options plumbing

def gen_item_cases(rng, n):
    cases = []
    for _ in range(n):
        c = gen_timeline_case(rng)
        # more variety in the data dicts
        for d in c["items"]:
            r = rng.random()
            if r < 0.1:
                d.pop("width", None)
                d.pop("text", None)
            elif r < 0.15:
                d["width"] = None
                d["text"] = None
            elif r < 0.18:
                d.pop("time", None)
            elif r < 0.2:
                d["time"] = rng.choice(["2001-01-01", None])
        c["mode"] = rng.choice(["svg", "tex", "svg"])
        cases.append(c)
    return cases


def run_item_case(lab, case):
    T = lab.timeline
    out = []
    # build a valid host timeline, then use its public helpers on new data
    host_items = [{"time": 1.0, "width": 10}, {"time": 2.0, "width": 10, "text": "b"}]
    opts = build_options(lab, case["options"]) or {}
    opts["scale"] = lab.scale.LinearScale()
    opts.pop("domain", None)
    try:
        tl = T.Timeline(host_items, opts)
    except Exception as e:
        return [exc_info(e), canon(opts)]
    dicts = build_items(case["items"])
    try:
        items = tl.parse_items(dicts, output_mode=case["mode"])
        out.append(("OK", canon(items), [it.data is d for it, d in zip(items, dicts)]))
    except Exception as e:
        out.append(exc_info(e))
        items = None
    out.append(canon(dicts))
    if items:
        tl.items = items
        out.append(attempt(tl.equal_heights))
        out.append(canon(tl.items))
        out.append(attempt(tl.rotate_items))
        out.append(canon(tl.items))
        out.append(attempt(tl.get_nodes))
        out.append([attempt(str, it) for it in items[:4]])
    # Item directly
    I = T.Item
    for d in dicts[:3]:
        out.append(attempt(lambda: vars(I(d.get("time"), width=d.get("width", 7), text=None, data=d))))
        out.append(attempt(lambda: vars(I(d.get("time"), width=5, text=d.get("text"), data=d, output_mode="tex", tex_fontsize="9pt"))))
        out.append(attempt(lambda: str(I(d.get("time")))))
    out.append(canon(T.DEFAULT_OPTIONS))
    return out


def run_opts_case(lab, case):
    """Constructor option plumbing only (all three classes)."""
    T = lab.timeline
    out = []
    for cname in ("Timeline", "TimelineSVG", "TimelineTex"):
        cls = getattr(T, cname)
        dicts = build_items(case["items"])
        options = build_options(lab, case["options"])
        if cname == "Timeline":
            args = (dicts, options, case.get("mode", "svg"))
        else:
            args = (dicts, options)
        try:
            tl = cls(*args)
        except Exception as e:
            out.append((exc_info(e), canon(dicts), canon(options)))
            continue
        out.append(
            (
                canon([dicts, options, tl.options, tl.items, tl.direction]),
                [
                    (k, tl.options[k] is T.DEFAULT_OPTIONS.get(k), options is not None and k in options and tl.options[k] is options[k])
                    for k in tl.options
                ],
                [
                    (k, v is T.DEFAULT_OPTIONS["latex"].get(k))
                    for k, v in tl.options["latex"].items()
                ],
            )
        )
    # degenerate option containers
    for bad in ([], (), "abc", 5, {"latex": {"fontsize": "8pt"}, "scale": None}, {"latex": None}, {"margin": None}, {"labella": None}, {"labella": [("nodeSpacing", 1)]}, {"direction": ["left"]}):
        dicts = build_items(case["items"][:2])
        b = bad
        if isinstance(bad, dict):
            b = {k: (dict(v) if isinstance(v, dict) else v) for k, v in bad.items()}
        elif isinstance(bad, list):
            b = list(bad)
        try:
            tl = T.TimelineSVG(dicts, b)
            out.append(canon([dicts, b, tl.options]))
        except Exception as e:
            out.append((exc_info(e), canon(dicts), canon(b)))
    out.append(canon(T.DEFAULT_OPTIONS))
    return out


# ------------------------------------------------------------------ main

def suites():
    s = []
    rng = random.Random(20240607)
    tcases = [gen_timeline_case(rng) for _ in range(N_TIMELINE)]
    s.append(("timeline", tcases, lambda lab, c: run_timeline_case(lab, c, True)))
    rng = random.Random(77)
    s.append(("utils", gen_utils_cases(rng, N_UTILS), run_utils_case))
    rng = random.Random(78)
    s.append(("uni2tex", gen_uni_cases(rng, N_UNI), run_uni_case))
    if FOCUS == "uni2tex":
        blocks = [(a, min(a + 2048, 0x110000)) for a in range(0, 0x110000, 2048)]
        s.append(("uni2tex-exhaustive", blocks, run_uni_block))
    rng = random.Random(79)
    s.append(("renderer", gen_render_cases(rng, N_RENDER), run_render_case))
    rng = random.Random(80)
    icases = gen_item_cases(rng, N_ITEMS)
    s.append(("items", icases, run_item_case))
    rng = random.Random(81)
    ocases = gen_item_cases(rng, N_OPTS)
    s.append(("options", ocases, run_opts_case))
    return s


def first_diff(a, b, path="result"):
    if type(a) != type(b):
        return "%s: %r != %r" % (path, a, b)
    if isinstance(a, dict):
        for k in sorted(set(a) | set(b)):
            if k not in a or k not in b:
                return "%s[%r]: only in one side" % (path, k)
            d = first_diff(a[k], b[k], "%s[%r]" % (path, k))
            if d:
                return d
        return None
    if isinstance(a, (list, tuple)):
        if len(a) != len(b):
            return "%s: length %d != %d\n  A=%r\n  B=%r" % (path, len(a), len(b), a, b)
        for i, (x, y) in enumerate(zip(a, b)):
            d = first_diff(x, y, "%s[%d]" % (path, i))
            if d:
                return d
        return None
    if a != b:
        return "%s:\n  A=%r\n  B=%r" % (path, a, b)
    return None


def main(argv):
    if len(argv) != 3:
        print(__doc__)
        return 2
    dir_a, dir_b = argv[1], argv[2]
    all_suites = suites()
    results = []
    for d in (dir_a, dir_b):
        # uni2tex cases may contain one-shot iterators: regenerate per tree
        if d is dir_b:
            all_suites = suites()
        lab = load(d)
        res = []
        for name, cases, runner in all_suites:
            rr = []
            for c in cases:
                try:
                    rr.append(runner(lab, c))
                except Exception as e:  # harness-level failure is a result too
                    rr.append(("HARNESS", exc_info(e)))
            res.append((name, rr))
        results.append(res)
    total = 0
    for (name, ra), (_n, rb), (_m, cases, _r) in zip(results[0], results[1], all_suites):
        assert len(ra) == len(rb) == len(cases)
        for i, (x, y) in enumerate(zip(ra, rb)):
            total += 1
            if x != y:
                print("DIFFERENT: suite %s case %d" % (name, i))
                try:
                    print("input: %r" % (cases[i],))
                except Exception:
                    pass
                print(first_diff(x, y))
                return 1
    print("EQUIVALENT (%d cases)" % total)
    return 0


if __name__ == "__main__":
    sys.exit(main(sys.argv))
