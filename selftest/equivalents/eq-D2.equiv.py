#!/usr/bin/env python
"""Differential equivalence test (group D, labella/scale.py).

Usage: python equiv.py <original-checkout> <refactored-checkout>

Each tree is exercised in its own subprocess (so that the package
``labella`` is imported from exactly that tree); the printed traces are
compared line by line.
"""
import math
import os
import random
import subprocess
import sys

NAN = float("nan")
INF = float("inf")


def outcome(thunk):
    """repr of the result, or the exception type name."""
    try:
        return "ok " + repr(thunk())
    except Exception as exc:  # noqa: BLE001
        return "exc " + type(exc).__name__


def load(tree):
    tree = os.path.abspath(tree)
    sys.path.insert(0, tree)
    import labella.scale as mod

    assert os.path.abspath(mod.__file__).startswith(tree + os.sep), mod.__file__
    return mod


def main():
    if len(sys.argv) == 3 and sys.argv[1] == "--worker":
        mod = load(sys.argv[2])
        n = 0
        for label, thunk in cases(mod):
            n += 1
            print("%04d %s => %s" % (n, label, outcome(thunk)))
        return 0
    if len(sys.argv) != 3:
        print(__doc__)
        return 2
    traces = []
    for tree in sys.argv[1:3]:
        env = dict(os.environ)
        env.pop("PYTHONPATH", None)
        env["PYTHONHASHSEED"] = "0"
        proc = subprocess.run(
            [sys.executable, os.path.abspath(__file__), "--worker", tree],
            stdout=subprocess.PIPE,
            stderr=subprocess.PIPE,
            text=True,
            cwd="/",
            env=env,
        )
        if proc.returncode != 0:
            print("DIFFERENT (worker crashed on %s)" % tree)
            print(proc.stderr)
            return 1
        traces.append(proc.stdout.splitlines())
    old, new = traces
    diffs = []
    if len(old) != len(new):
        diffs.append("trace length %d vs %d" % (len(old), len(new)))
    for a, b in zip(old, new):
        if a != b:
            diffs.append("- %s\n+ %s" % (a, b))
    if len(old) < 200:
        diffs.append("only %d cases exercised" % len(old))
    if diffs:
        print("DIFFERENT")
        for d in diffs[:40]:
            print(d)
        return 1
    print("EQUIVALENT (%d cases)" % len(old))
    return 0


def domains():
    rng = random.Random(2002)
    doms = [
        [],
        [3],
        [0, 0],
        [2.5, 2.5],
        [0, 1],
        [1, 0],
        [0, 1.0],
        [-5, 5],
        [5, -5],
        [0, 100],
        [0, 7],
        [0, 15],
        [0, 35],
        [0, 75],
        [0, 1.5],
        [0, 3.5],
        [0, 7.5],
        [0, 0.15],
        [0, 0.35],
        [0, 0.75],
        [-7.25, -1.5],
        [1e-9, 3e-9],
        [1e9, 3.3e12],
        [-1e-300, 1e-300],
        [0, 5e-324],
        [0, 1e308],
        [-1e308, 1e308],
        [NAN, 1],
        [1, NAN],
        [INF, -INF],
        [0, INF],
        [1, 2, 3],
        [3, 2, 1],
        [2, 9, 2],
        [4, -1, 7, 0],
        (2, 8),
        (8, 2),
        ["a", "b"],
        [None, 1],
        [True, False],
        None,
    ]
    for _ in range(80):
        scale = 10 ** rng.randint(-6, 9)
        kind = rng.choice(["int", "float", "float"])
        if kind == "int":
            d = [rng.randint(-200, 200), rng.randint(-200, 200)]
        else:
            d = [rng.uniform(-1, 1) * scale, rng.uniform(-1, 1) * scale]
        if rng.random() < 0.2:
            d.insert(1, rng.uniform(-1, 1))
        doms.append(d)
    return doms


MS = [None, 10, 1, 2, 3, 4, 5, 7, 20, 64, 100, 1000, 0.5, 2.5, 0, -1, -10, NAN, INF, "x"]


def take(gen, limit=5000):
    out = []
    for v in gen:
        out.append(v)
        if len(out) >= limit:
            out.append("...")
            break
    return out


def cases(mod):
    import copy
    from datetime import datetime, timedelta

    doms = domains()
    for d in doms:
        for m in MS:
            yield "tickRange(%r, %r)" % (d, m), (
                lambda d=copy.deepcopy(d), m=m: (
                    mod.d3_scale_linearTickRange(d, m),
                    d,
                )
            )
    for d in doms:
        yield "tickRange-default(%r)" % (d,), (
            lambda d=copy.deepcopy(d): (mod.d3_scale_linearTickRange(d), d)
        )
    # result must be a new list each time (never the domain itself)
    for d in doms[:20]:

        def run(d=copy.deepcopy(d)):
            r1 = mod.d3_scale_linearTickRange(d, 10)
            r2 = mod.d3_scale_linearTickRange(d, 10)
            return (r1 is d, r1 is r2, len(r1), type(r1).__name__,
                    [type(v).__name__ for v in r1])

        yield "tickRange-identity(%r)" % (d,), run

    for d in doms:
        for m in (None, 1, 3, 10, 25, 100, 0, -2):
            yield "linearTicks(%r, %r)" % (d, m), (
                lambda d=copy.deepcopy(d), m=m: take(mod.d3_scale_linearTicks(d, m))
            )
            yield "linearNice(%r, %r)" % (d, m), (
                lambda d=copy.deepcopy(d), m=m: (mod.d3_scale_linearNice(d, m), d)
            )

            def fmt(d=copy.deepcopy(d), m=m):
                f = mod.d3_scale_linearTickFormat(d, m)
                return [f(v) for v in (0, 1, -2.5, 1234.56789, 1e-7)]

            yield "linearTickFormat(%r, %r)" % (d, m), fmt

    for d in doms:
        if not isinstance(d, (list, tuple)):
            continue

        def run(d=copy.deepcopy(d)):
            ls = mod.LinearScale().domain(d).range([0, 960])
            t = take(ls.ticks())
            t5 = take(ls.ticks(5))
            f = ls.tickFormat(8)
            ls.nice(6)
            return (t, t5, [f(v) for v in t5[:6] if not isinstance(v, str)],
                    ls.domain(), ls(1.0))

        yield "LinearScale ticks/nice %r" % (d,), run

    # TimeScale.tickMethod falls back to the linear tick range for very
    # short (< 1 s steps) and very long (> 1 year steps) extents.
    base = datetime(2001, 2, 3, 4, 5, 6)
    spans = [
        timedelta(milliseconds=1),
        timedelta(milliseconds=7),
        timedelta(milliseconds=40),
        timedelta(milliseconds=350),
        timedelta(milliseconds=999),
        timedelta(seconds=3),
        timedelta(seconds=90),
        timedelta(hours=5),
        timedelta(days=3),
        timedelta(days=45),
        timedelta(days=400),
        timedelta(days=365 * 8),
        timedelta(days=365 * 30),
        timedelta(days=365 * 75),
        timedelta(days=365 * 150),
        timedelta(days=365 * 700),
        timedelta(0),
    ]
    for sp in spans:
        for count in (None, 2, 5, 10, 30):

            def run(sp=sp, count=count):
                ts = mod.TimeScale().domain([base, base + sp])
                ext = list(map(mod.dt2milli, mod.d3_scaleExtent(ts.domain())))
                meth = ts.tickMethod(ext, 10 if count is None else count)
                ticks = ts.ticks(count)
                return (type(meth[0]).__name__, meth[1], len(ticks), ticks[:5], ticks[-3:])

            yield "TimeScale ticks span=%r count=%r" % (sp, count), run


if __name__ == "__main__":
    sys.exit(main())
