#!/usr/bin/env python
"""Differential test: python equiv.py <original-checkout> <refactored-checkout>"""
import datetime
import importlib
import os
import random
import sys

SEED = 20261002
MODS = [
    "node", "renderer", "utils", "tex", "scale", "timeline", "force",
    "distributor", "removeOverlap", "vpsc", "metrics", "d3_time",
]


def load(root):
    root = os.path.realpath(root)
    for name in [m for m in sys.modules
                 if m == "labella" or m.startswith("labella.")]:
        del sys.modules[name]
    sys.path.insert(0, root)
    try:
        importlib.invalidate_caches()
        mods = {"labella": importlib.import_module("labella")}
        for n in MODS:
            mods[n] = importlib.import_module("labella." + n)
    finally:
        sys.path.remove(root)
    for name, m in list(sys.modules.items()):
        if name == "labella" or name.startswith("labella."):
            f = os.path.realpath(m.__file__)
            assert f.startswith(root + os.sep), (name, f, root)
    return mods


def canon(x, depth=0):
    if depth > 12:
        return ("deep", type(x).__name__)
    if isinstance(x, bool) or x is None:
        return (type(x).__name__, x)
    if isinstance(x, float):
        return ("float", x.hex())
    if isinstance(x, (int, str, bytes)):
        return (type(x).__name__, x)
    if isinstance(x, (list, tuple)):
        return (type(x).__name__, [canon(v, depth + 1) for v in x])
    if isinstance(x, dict):
        return ("dict", [(canon(k, depth + 1), canon(v, depth + 1))
                         for k, v in x.items()])
    if isinstance(x, (datetime.datetime, datetime.date)):
        return (type(x).__name__, x.isoformat())
    if type(x).__name__ == "Node" and hasattr(x, "idealPos"):
        return ("Node", node_state(x, depth + 1))
    if type(x).__name__ == "Item" and hasattr(x, "time"):
        return ("Item", [canon(getattr(x, a, "<missing>"), depth + 1)
                         for a in ("time", "text", "width", "height")])
    if callable(x):
        return ("callable", getattr(x, "__name__", "?"))
    return ("obj", type(x).__name__)


def node_state(n, depth=0):
    out = []
    for a in ("idealPos", "currentPos", "width", "layerIndex", "x", "y",
              "dx", "dy", "w", "h", "overlap", "overlapCount"):
        out.append((a, canon(getattr(n, a, "<missing>"), depth + 1)))
    out.append(("data", canon(getattr(n, "data", None), depth + 1)))
    out.append(("hasParent", bool(getattr(n, "parent", None))))
    out.append(("hasChild", bool(getattr(n, "child", None))))
    return out


def attempt(thunk):
    try:
        return ("ok", canon(thunk()))
    except RecursionError as e:  # pragma: no cover
        return ("exc", "RecursionError", "")
    except Exception as e:
        return ("exc", type(e).__name__, str(e))


WORDS = ["alpha", "Beta", "gämma", "été", "naïve", "x",
         "Zoë K.", "éclair", "Škoda", "50% & more", "a_b",
         "ñandú", "long label text here", "ọ̈", "",
         "łódź", "q̃", "#1", "{br}", "Ångström"]
HEXCOLS = ["#222", "#fff", "#1f77b4", "#ABCDEF", "abc", "00ff7f", "#d62728",
           "#09f", "#7F7F7F"]


def rand_color(rng):
    r = rng.random()
    if r < 0.45:
        return rng.choice(HEXCOLS)
    if r < 0.75:
        return [rng.choice(HEXCOLS) for _ in range(rng.randint(1, 5))]
    if r < 0.9:
        c = rng.choice(HEXCOLS)
        return lambda d, c=c: c
    return lambda d: "#0a0" if d.get("text") else "#a00"


def rand_times(rng, n, mode):
    if mode == "num":
        lo = rng.choice([0, -50, 1, 1000, 0.5])
        span = rng.choice([1, 10, 100, 12345.678, 0.01])
        if rng.random() < 0.5:
            return [lo + rng.randint(0, 100) * span / 100 for _ in range(n)]
        return [lo + rng.random() * span for _ in range(n)]
    base = datetime.datetime(rng.randint(1950, 2100), rng.randint(1, 12),
                             rng.randint(1, 28), rng.randint(0, 23),
                             rng.randint(0, 59), rng.randint(0, 59))
    span = rng.choice([60, 3600, 86400, 86400 * 30, 86400 * 365,
                       86400 * 365 * 20])
    out = []
    for _ in range(n):
        t = base + datetime.timedelta(seconds=rng.random() * span)
        if mode == "date":
            t = t.date()
        out.append(t)
    return out


def make_timeline(mods, rng, kind, direction=None, force_opts=None):
    """Build (cls, dicts, options) from rng; everything created fresh."""
    tl = mods["timeline"]
    scale = mods["scale"]
    mode = rng.choice(["num", "num", "datetime", "date"])
    n = rng.choice([1, 1, 2, 3, 5, 8, 13, 21])
    times = rand_times(rng, n, mode)
    if rng.random() < 0.1 and n > 1:
        times[1] = times[0]
    dicts = []
    for t in times:
        d = {"time": t, "width": rng.choice([1, 5, 20, 50, 50, 80, 33.5, 120])}
        r = rng.random()
        if r < 0.7:
            d["text"] = " ".join(rng.choice(WORDS)
                                 for _ in range(rng.randint(1, 3)))
        elif r < 0.8:
            d["text"] = ""
        dicts.append(d)
    options = {}
    if mode == "num":
        options["scale"] = scale.LinearScale()
    elif rng.random() < 0.3:
        options["scale"] = scale.TimeScale()
    if direction is None:
        direction = rng.choice(["up", "down", "left", "right"] * 15 +
                               ["diagonal", "", "UP", None, ("left",),
                                ["up"]])
    if direction != "<default>":
        options["direction"] = direction
    if rng.random() < 0.5:
        options["margin"] = {k: rng.choice([0, 5, 20, 33, 12.7])
                             for k in ("left", "right", "top", "bottom")}
    if rng.random() < 0.6:
        options["initialWidth"] = rng.choice([200, 400, 804, 1000, 333.3])
        options["initialHeight"] = rng.choice([150, 400, 600, 250.5])
    if rng.random() < 0.3:
        options["dotRadius"] = rng.choice([1, 3, 4.5, 0])
    if rng.random() < 0.5:
        options["layerGap"] = rng.choice([0, 10, 30, 60, 45.5, 100])
    if rng.random() < 0.6:
        lab = {}
        if rng.random() < 0.6:
            lab["maxPos"] = rng.choice([100, 300, 764, 1000, None])
        if rng.random() < 0.3:
            lab["minPos"] = rng.choice([0, 10, None, -20])
        if rng.random() < 0.3:
            lab["algorithm"] = rng.choice(["overlap", "simple", "none"])
        if rng.random() < 0.3:
            lab["nodeSpacing"] = rng.choice([0, 1, 3, 8])
        if rng.random() < 0.2:
            lab["density"] = rng.choice([0.5, 0.75, 1.0])
        if rng.random() < 0.2:
            lab["stubWidth"] = rng.choice([1, 2, 5])
        options["labella"] = lab
    for cname in ("dotColor", "labelBgColor", "labelTextColor", "linkColor",
                  "borderColor"):
        if rng.random() < 0.4:
            options[cname] = rand_color(rng)
    if rng.random() < 0.3:
        options["labelPadding"] = {k: rng.choice([0, 2, 3, 6, 1.5])
                                   for k in ("left", "right", "top", "bottom")}
    if rng.random() < 0.2:
        options["showTicks"] = False
    if rng.random() < 0.4:
        options["showBorder"] = rng.choice([True, False])
    if rng.random() < 0.1:
        options["textFn"] = None
    elif rng.random() < 0.1:
        options["textFn"] = lambda d: d.get("text", "").upper() or None
    if rng.random() < 0.15 and len(times) > 1:
        try:
            options["domain"] = [min(times), max(times)]
            if mode == "date":
                del options["domain"]
        except Exception:
            pass
    if rng.random() < 0.2:
        options["textXOffset"] = rng.choice(["0em", "0.3em"])
        options["textYOffset"] = rng.choice(["1em", "0.7em"])
    if kind == "tex" and rng.random() < 0.6:
        lat = {}
        for k, vals in (("fontsize", ["10pt", "12pt"]),
                        ("borderThickness", ["thin", "thick"]),
                        ("axisThickness", ["thin", "ultra thick"]),
                        ("tickThickness", ["thin", "very thick"]),
                        ("linkThickness", ["thin", "semithick"]),
                        ("tickCross", [True, False]),
                        ("preamble", ["", "\\usepackage{lmodern}",
                                      "% préambule"]),
                        ("reproducible", [True, False])):
            if rng.random() < 0.4:
                lat[k] = rng.choice(vals)
        options["latex"] = lat
    if force_opts:
        options.update(force_opts)
    cls = tl.TimelineSVG if kind == "svg" else tl.TimelineTex
    return cls, dicts, options


def export_case(mods, rng, kind, **kw):
    cls, dicts, options = make_timeline(mods, rng, kind, **kw)

    def thunk():
        obj = cls(dicts, options=options)
        text = obj.export()
        nodes = [node_state(n) for n in obj.nodes]
        return [text, nodes, [canon(it) for it in obj.items]]
    return thunk


def main(cases):
    if len(sys.argv) != 3:
        print("usage: equiv.py <original-checkout> <refactored-checkout>")
        sys.exit(2)
    results = []
    for root in sys.argv[1:3]:
        mods = load(root)
        res = []
        for label, thunk in cases(mods, random.Random(SEED)):
            res.append((label, attempt(thunk)))
        results.append(res)
    a, b = results
    if len(a) != len(b):
        print("DIFFERENT number of cases: %d vs %d" % (len(a), len(b)))
        sys.exit(1)
    nexc = 0
    for i, (ra, rb) in enumerate(zip(a, b)):
        if ra != rb:
            print("DIFFERENCE at case %d (%s):" % (i, ra[0]))
            print("  original  :", repr(ra[1])[:2000])
            print("  refactored:", repr(rb[1])[:2000])
            sys.exit(1)
        if ra[1][0] == "exc":
            nexc += 1
    if os.environ.get("EQUIV_VERBOSE"):
        print("cases raising (identically): %d" % nexc)
    print("EQUIVALENT (%d cases)" % len(a))
    sys.exit(0)

def functor_case(mods, rng):
    tl = mods["timeline"]
    ut = mods["utils"]
    vals = [None, 0, 1.5, "#222", [1, 2], (3,), {"a": 1}, len, str,
            lambda d: d, lambda d: (d, d), int, dict, rng.random(),
            rng.randint(-5, 5)]
    v = rng.choice(vals)
    arg = rng.choice([None, 1, "x", [1, 2, 3], {"time": 3}])

    def thunk():
        out = []
        for fn in (tl.d3_functor, getattr(ut, "d3_functor", tl.d3_functor)):
            f = fn(v)
            out.append(f is v)
            out.append(callable(f))
            out.append(attempt(lambda: f(arg)))
            out.append(attempt(lambda: f()))
            out.append(attempt(lambda: f(x=arg)))
            out.append(attempt(lambda: f(arg, arg)))
            out.append(f.__name__)
        out.append(attempt(lambda: tl.d3_functor()))
        out.append(callable(tl.d3_functor))
        out.append(tl.d3_functor.__name__)
        return out
    return thunk


def cases(mods, rng):
    for i in range(1500):
        yield ("functor-%d" % i, functor_case(mods, rng))
    for i in range(2000):
        kind = "svg" if i % 2 == 0 else "tex"
        yield ("export-%s-%d" % (kind, i), export_case(mods, rng, kind))


if __name__ == "__main__":
    main(cases)
