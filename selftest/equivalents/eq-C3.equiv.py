#!/usr/bin/env python
# -*- coding: utf-8 -*-
"""
Differential test for a refactoring of labella/vpsc.py.

FOCUS: Block.compute_lm, populateSplitBlock, traverse, findMinLMBetween, findPath (closures use self directly instead of the `_self = self` alias, generic `f` closures renamed, no-op callback turned into a lambda); exercised directly in sc_queries/sc_mutate with recording and raising callbacks, and through satisfy/solve.

Usage: python equiv.py <original-checkout> <refactored-checkout>

Both trees' labella/vpsc.py are loaded under different module names (the
module only depends on sys.maxsize) and driven through the same list of
deterministic scenarios.  After every step the complete observable state is
recorded (return values, exception type + message, variable offsets/blocks,
block statistics, constraint flags/multipliers, order of the inactive list).
Floats are compared through repr(), i.e. bit-exactly.
"""

import importlib.util
import os
import random
import signal
import sys


CASE_TIMEOUT = 3  # seconds; ordinary cases take ~1 ms
MAX_TIMEOUTS = 5


class CaseTimeout(Exception):
    pass


def _alarm(signum, frame):
    raise CaseTimeout("timeout")


def load(root, name):
    path = os.path.join(root, "labella", "vpsc.py")
    spec = importlib.util.spec_from_file_location(name, path)
    mod = importlib.util.module_from_spec(spec)
    spec.loader.exec_module(mod)
    return mod


# --------------------------------------------------------------------------
# problem specifications (pure data, shared by both trees)
# --------------------------------------------------------------------------


def gen_spec(seed):
    rnd = random.Random(seed)
    n = rnd.choice([0, 1, 1, 2, 2, 3, 3, 4, 5, 6, 7, 8, 10, 12])
    mode = rnd.randrange(7)
    if mode == 0:
        des = [rnd.uniform(-100, 100) for _ in range(n)]
    elif mode == 1:
        des = [rnd.randint(-3, 3) for _ in range(n)]
    elif mode == 2:
        des = [5] * n
    elif mode == 3:
        des = sorted(rnd.uniform(-50, 50) for _ in range(n))
    elif mode == 4:
        des = sorted((rnd.uniform(-50, 50) for _ in range(n)), reverse=True)
    elif mode == 5:
        des = [rnd.choice([-1e6, -0.5, 0, 0.0, 1e-12, 3, 1e6]) for _ in range(n)]
    else:
        des = [float(rnd.randint(-20, 20)) / 4 for _ in range(n)]
    wmode = rnd.randrange(4)
    variables = []
    for i in range(n):
        if wmode == 0:
            w = None
        elif wmode == 1:
            w = rnd.uniform(0.1, 5)
        elif wmode == 2:
            w = rnd.choice([1, 2, 1e10, 0.5])
        else:
            w = rnd.randint(1, 4)
        if rnd.random() < 0.8:
            s = None
        else:
            s = rnd.choice([1, 2, 0.5, rnd.uniform(0.5, 3)])
        variables.append((des[i], w, s))
    cons = []
    cmode = rnd.randrange(6)
    if n >= 2:
        if cmode in (0, 1, 2, 3):
            for i in range(n - 1):
                if rnd.random() < 0.9:
                    gap = rnd.choice(
                        [0, 1, 3, 3, 10, rnd.uniform(0, 10), -2, 0.25]
                    )
                    eq = None
                    if cmode == 2 and rnd.random() < 0.3:
                        eq = True
                    cons.append((i, i + 1, gap, eq))
        if cmode in (1, 3, 4):
            for _ in range(rnd.randint(0, n)):
                i = rnd.randrange(n)
                j = rnd.randrange(n)
                if i == j:
                    continue
                if i > j and cmode != 3:
                    i, j = j, i
                cons.append((i, j, rnd.choice([0, 1, 2.5, 4, -1]), None))
        if cmode == 5:
            # explicit cycles / contradictory pairs
            for i in range(n - 1):
                cons.append((i, i + 1, rnd.choice([1, 2, 3]), None))
            cons.append((n - 1, 0, rnd.choice([1, 2, 0, -50]), None))
            if rnd.random() < 0.5:
                cons.append((0, 1, 1, True))
    return {"vars": variables, "cons": cons, "seed": seed}


def hand_specs():
    specs = []
    specs.append({"vars": [], "cons": []})
    specs.append({"vars": [(0, None, None)], "cons": []})
    specs.append({"vars": [(-3.5, 2, 2)], "cons": []})
    specs.append({"vars": [(0, None, None), (0, None, None)], "cons": [(0, 1, 5, None)]})
    specs.append({"vars": [(0, None, None), (0, None, None)], "cons": [(0, 1, 5, True)]})
    specs.append({"vars": [(0, None, None), (100, None, None)], "cons": [(0, 1, 5, True)]})
    specs.append({"vars": [(0, None, None), (100, None, None)], "cons": [(0, 1, 5, None)]})
    specs.append(
        {"vars": [(0, None, None), (1, None, None)], "cons": [(0, 1, 5, None), (1, 0, 5, None)]}
    )
    specs.append(
        {"vars": [(0, None, None), (1, None, None)], "cons": [(0, 1, 5, True), (1, 0, 5, True)]}
    )
    specs.append(
        {
            "vars": [(2, None, None), (2, None, None), (2, None, None)],
            "cons": [(0, 1, 1, None), (1, 2, 1, None), (0, 2, 5, None)],
        }
    )
    specs.append(
        {
            "vars": [(float("nan"), None, None), (1, None, None)],
            "cons": [(0, 1, 1, None)],
        }
    )
    specs.append(
        {
            "vars": [(float("inf"), None, None), (1, None, None), (3, None, None)],
            "cons": [(0, 1, 1, None), (1, 2, 1, None)],
        }
    )
    specs.append(
        {
            "vars": [(float("inf"), None, None), (float("-inf"), None, None)],
            "cons": [(0, 1, 1, None)],
        }
    )
    specs.append(
        {"vars": [(1, 0, None), (1, None, None)], "cons": [(0, 1, 1, None)]}
    )  # zero weight -> ZeroDivisionError
    specs.append(
        {"vars": [(1, None, 0), (1, None, None)], "cons": [(0, 1, 1, None)]}
    )  # zero scale
    specs.append(
        {"vars": [(1, None, -1), (4, None, None), (2, None, 2)], "cons": [(0, 1, 1, None), (1, 2, 2, None)]}
    )
    specs.append(
        {"vars": [("a", None, None), (4, None, None)], "cons": [(0, 1, 1, None)]}
    )  # TypeError
    specs.append(
        {"vars": [(1, None, None), (4, None, None)], "cons": [(0, 1, None, None)]}
    )  # gap None -> TypeError
    specs.append(
        {"vars": [(0, None, None)], "cons": [(0, 0, 1, None)]}
    )  # self loop
    specs.append(
        {"vars": [(0, None, None), (0, None, None)], "cons": [(0, 0, 1, None), (0, 1, 1, None)]}
    )
    # labella-like: walls with heavy weights
    specs.append(
        {
            "vars": [(1, None, None), (2, None, None), (3, None, None), (3, None, None), (0, 1e10, None), (10, 1e10, None)],
            "cons": [(0, 1, 4, None), (1, 2, 4, None), (2, 3, 4, None), (4, 0, 2, None), (4, 1, 2, None), (4, 2, 2, None), (4, 3, 2, None), (3, 5, 2, None)],
        }
    )
    return specs


def build(mod, spec):
    vs = []
    for (d, w, s) in spec["vars"]:
        vs.append(mod.Variable(d, w, s))
    cs = []
    for (i, j, gap, eq) in spec["cons"]:
        cs.append(mod.Constraint(vs[i], vs[j], gap, eq))
    return vs, cs


# --------------------------------------------------------------------------
# canonicalisation of state
# --------------------------------------------------------------------------


class Ctx(object):
    def __init__(self, mod, vs, cs):
        self.mod = mod
        self.vs = vs
        self.cs = cs
        self.vidx = {id(v): i for i, v in enumerate(vs)}
        self.cidx = {id(c): i for i, c in enumerate(cs)}

    def add_var(self, v):
        self.vidx[id(v)] = len(self.vs)
        self.vs.append(v)

    def canon(self, x, depth=0):
        mod = self.mod
        if isinstance(x, float):
            return "f:" + repr(x)
        if isinstance(x, (int, str, bool)) or x is None:
            return repr(x)
        if isinstance(x, mod.Variable):
            return ("V", self.vidx.get(id(x), "?"))
        if isinstance(x, mod.Constraint):
            return ("C", self.cidx.get(id(x), "?"))
        if isinstance(x, mod.Block):
            return self.block(x)
        if isinstance(x, dict):
            return sorted((k, self.canon(v, depth + 1)) for k, v in x.items())
        if isinstance(x, (list, tuple)):
            return [self.canon(v, depth + 1) for v in x]
        return ("obj", type(x).__name__)

    def block(self, b):
        ps = getattr(b, "ps", None)
        return (
            "B",
            self.canon(getattr(b, "blockInd", "NA")),
            [self.vidx.get(id(v), "?") for v in getattr(b, "vars", [])],
            self.canon(getattr(b, "posn", "NA")),
            None
            if ps is None
            else (
                self.canon(ps.scale),
                self.canon(ps.AB),
                self.canon(ps.AD),
                self.canon(ps.A2),
            ),
        )

    def outcome(self, fn, *args):
        try:
            return ("ok", self.canon(fn(*args)))
        except CaseTimeout:
            raise
        except RecursionError as e:
            return ("exc", "RecursionError")
        except Exception as e:
            msg = str(e)
            if "0x" in msg:
                msg = "<addr>"
            return ("exc", type(e).__name__, msg)

    def snap(self, solver=None, bs=None, inactive=None):
        out = []
        for v in self.vs:
            blk = getattr(v, "block", None)
            out.append(
                (
                    self.canon(v.desiredPosition),
                    self.canon(v.weight),
                    self.canon(v.scale),
                    self.canon(v.offset),
                    None if blk is None else self.block(blk),
                    self.outcome(v.position),
                    [self.cidx.get(id(c), "?") for c in getattr(v, "cIn", [])],
                    [self.cidx.get(id(c), "?") for c in getattr(v, "cOut", [])],
                )
            )
        for c in self.cs:
            out.append(
                (
                    c.active,
                    c.unsatisfiable,
                    self.canon(getattr(c, "lm", "nolm")),
                    self.canon(c.gap),
                    c.equality,
                    self.outcome(c.slack),
                )
            )
        if solver is not None:
            bs = solver.bs
            inactive = solver.inactive
        if bs is not None:
            out.append(("blocks", [self.block(b) for b in bs._list]))
            out.append(("bs.vs", [self.vidx.get(id(v), "?") for v in bs.vs]))
        if inactive is not None:
            out.append(("inactive", [self.cidx.get(id(c), "?") for c in inactive]))
        return out


# --------------------------------------------------------------------------
# scenarios
# --------------------------------------------------------------------------


def sc_solve(mod, spec, rec):
    """Solver.solve / cost / setDesiredPositions / re-solve."""
    vs, cs = build(mod, spec)
    ctx = Ctx(mod, vs, cs)
    S = mod.Solver(vs, cs)
    rec("init", ctx.snap(S) if S.bs is not None else ctx.snap(inactive=S.inactive))
    rec("solve", ctx.outcome(S.solve))
    rec("after-solve", ctx.snap(S) if S.bs is not None else None)
    rec("cost", ctx.outcome(S.cost))
    rnd = random.Random(spec.get("seed", 0) + 7)
    newpos = [rnd.choice([0, 1, -4, rnd.uniform(-30, 30)]) for _ in vs]
    rec("setDesired", ctx.outcome(S.setDesiredPositions, newpos))
    rec("solve2", ctx.outcome(S.solve))
    rec("after-solve2", ctx.snap(S) if S.bs is not None else None)
    rec("setStarting", ctx.outcome(S.setStartingPositions, newpos))


def sc_steps(mod, spec, rec):
    """satisfy / mostViolated step by step."""
    vs, cs = build(mod, spec)
    ctx = Ctx(mod, vs, cs)
    S = mod.Solver(vs, cs)
    for k in range(3):
        rec("mv-pre%d" % k, ctx.outcome(S.mostViolated))
        rec("mv-pre%d-inactive" % k, ctx.snap(inactive=S.inactive))
    rec("satisfy1", ctx.outcome(S.satisfy))
    rec("after-satisfy1", ctx.snap(S) if S.bs is not None else None)
    for k in range(3):
        rec("mv%d" % k, ctx.outcome(S.mostViolated))
        rec("mv%d-inactive" % k, ctx.snap(inactive=S.inactive))
    # flag manipulation: every branch of mostViolated
    for i, c in enumerate(cs):
        if i % 3 == 0:
            c.unsatisfiable = True
    rec("mv-unsat", ctx.outcome(S.mostViolated))
    rec("mv-unsat-inactive", ctx.snap(inactive=S.inactive))
    for c in cs:
        c.unsatisfiable = True
    rec("mv-allunsat", ctx.outcome(S.mostViolated))
    for i, c in enumerate(cs):
        c.unsatisfiable = False
        c.active = i % 2 == 0
    rec("mv-active", ctx.outcome(S.mostViolated))
    rec("mv-active-inactive", ctx.snap(inactive=S.inactive))
    for i, c in enumerate(cs):
        c.equality = i % 2 == 1
    rec("mv-eq", ctx.outcome(S.mostViolated))
    rec("mv-eq-inactive", ctx.snap(inactive=S.inactive))
    S.inactive = []
    rec("mv-empty", ctx.outcome(S.mostViolated))
    S.inactive = cs[:1]
    rec("mv-single", ctx.outcome(S.mostViolated))
    rec("mv-single-inactive", ctx.snap(inactive=S.inactive))
    for c in cs:
        c.equality = False
        c.active = False
    S.inactive = cs[:]
    rec("satisfy2", ctx.outcome(S.satisfy))
    rec("after-satisfy2", ctx.snap(S) if S.bs is not None else None)
    rec("satisfy3", ctx.outcome(S.satisfy))
    rec("after-satisfy3", ctx.snap(S) if S.bs is not None else None)


class Acc(object):
    def __init__(self):
        self.items = []

    def push(self, x):
        self.items.append(x)


def sc_queries(mod, spec, rec):
    """Block-level queries on a satisfied system."""
    vs, cs = build(mod, spec)
    ctx = Ctx(mod, vs, cs)
    S = mod.Solver(vs, cs)
    rec("satisfy", ctx.outcome(S.satisfy))
    if S.bs is None:
        return
    rec("S.cost", ctx.outcome(S.cost))
    rec("bs.cost", ctx.outcome(S.bs.cost))
    blocks = list(S.bs._list)
    for bi, b in enumerate(blocks):
        rec("b%d.cost" % bi, ctx.outcome(b.cost))
        rec("b%d.findMinLM" % bi, ctx.outcome(b.findMinLM))
        visited = []

        def post(c):
            visited.append((ctx.canon(c), ctx.canon(getattr(c, "lm", "nolm"))))

        rec("b%d.compute_lm" % bi, ctx.outcome(b.compute_lm, b.vars[0], None, post))
        rec("b%d.compute_lm.visited" % bi, list(visited))
        if len(b.vars) > 1:
            del visited[:]
            rec(
                "b%d.compute_lm.u" % bi,
                ctx.outcome(b.compute_lm, b.vars[-1], b.vars[0], post),
            )
            rec("b%d.compute_lm.u.visited" % bi, list(visited))

        def raising(c):
            raise KeyError("boom")

        rec("b%d.compute_lm.raise" % bi, ctx.outcome(b.compute_lm, b.vars[0], None, raising))
        acc = Acc()
        rec(
            "b%d.traverse" % bi,
            ctx.outcome(b.traverse, lambda c: ctx.canon(c), acc, None, None),
        )
        rec("b%d.traverse.acc" % bi, list(acc.items))
        acc2 = Acc()
        rec(
            "b%d.traverse.v" % bi,
            ctx.outcome(b.traverse, lambda c: ctx.canon(c), acc2, b.vars[-1], None),
        )
        rec("b%d.traverse.v.acc" % bi, list(acc2.items))
        rec("b%d.traverse.list" % bi, ctx.outcome(b.traverse, lambda c: 1, [], None, None))
        for u in b.vars[:5]:
            for w in b.vars[:5]:
                tag = "b%d.%s-%s" % (bi, ctx.vidx[id(u)], ctx.vidx[id(w)])
                rec(tag + ".path?", ctx.outcome(b.isActiveDirectedPathBetween, u, w))
                path = []

                def visit(c, nxt):
                    path.append((ctx.canon(c), ctx.canon(nxt)))

                rec(tag + ".findPath", ctx.outcome(b.findPath, u, None, w, visit))
                rec(tag + ".findPath.path", list(path))
                rec(tag + ".minLMBetween", ctx.outcome(b.findMinLMBetween, u, w))
        rec("b%d.update" % bi, ctx.outcome(b.updateWeightedPosition))
        rec("b%d.after-update" % bi, ctx.block(b))
    rec("bs.update", ctx.outcome(S.bs.updateBlockPositions))
    seen = []
    rec("bs.forEach", ctx.outcome(S.bs.forEach, lambda b: seen.append(ctx.block(b))))
    rec("bs.forEach.seen", seen)
    rec("final", ctx.snap(S))


def sc_mutate(mod, spec, rec):
    """Blocks.merge/split/insert/remove, Block.split/splitBetween/mergeAcross."""
    rnd = random.Random(spec.get("seed", 0) + 13)
    vs, cs = build(mod, spec)
    ctx = Ctx(mod, vs, cs)
    S = mod.Solver(vs, cs)
    rec("satisfy", ctx.outcome(S.satisfy))
    if S.bs is None:
        return
    bs = S.bs
    # splitBetween on every pair in the biggest block
    big = None
    for b in bs._list:
        if big is None or len(b.vars) > len(big.vars):
            big = b
    if big is not None and len(big.vars) >= 2:
        u = big.vars[0]
        w = big.vars[-1]
        if rnd.random() < 0.5:
            u, w = w, u
        rec("splitBetween", ctx.outcome(big.splitBetween, u, w))
        rec("after-splitBetween", ctx.snap(S))
        rec("splitBetween-same", ctx.outcome(big.splitBetween, u, u))
    # Block.split on active constraints
    act = [c for c in cs if c.active]
    if act:
        c = act[rnd.randrange(len(act))]
        old = c.left.block
        res = ctx.outcome(mod.Block.split, c)
        rec("Block.split", res)
        rec("after-Block.split", ctx.snap(S))
        try:
            nbs = [c.left.block, c.right.block]
            for nb in nbs:
                rec("insert", ctx.outcome(bs.insert, nb))
            rec("remove-old", ctx.outcome(bs.remove, old))
            rec("after-insert-remove", ctx.snap(S))
        except CaseTimeout:
            raise
        except Exception as e:
            rec("insert-exc", type(e).__name__)
    # merge across distinct blocks, both size orders, and inside one block
    for k, c in enumerate(cs):
        if k > 6:
            break
        rec("merge%d" % k, ctx.outcome(bs.merge, c))
        rec("after-merge%d" % k, ctx.snap(S))
    # removal: last / first / foreign
    if bs._list:
        rec("remove-last", ctx.outcome(bs.remove, bs._list[-1]))
        rec("after-remove-last", ctx.snap(S))
    if bs._list:
        rec("remove-first", ctx.outcome(bs.remove, bs._list[0]))
        rec("after-remove-first", ctx.snap(S))
    extra = mod.Variable(rnd.uniform(-5, 5), 2)
    extra.cIn = []
    extra.cOut = []
    ctx.add_var(extra)
    nb = mod.Block(extra)
    rec("insert-new", ctx.outcome(bs.insert, nb))
    rec("after-insert-new", ctx.snap(S))
    # mergeAcross with an empty donor block
    donor_v = mod.Variable(1.5)
    donor_v.cIn = []
    donor_v.cOut = []
    ctx.add_var(donor_v)
    donor = mod.Block(donor_v)
    donor.vars = []
    if cs:
        nb.posn = 123.25
        rec("mergeAcross-empty", ctx.outcome(nb.mergeAcross, donor, cs[0], 2.5))
        rec("after-mergeAcross-empty", ctx.snap(S))
    # Blocks.split
    inactive = []
    for c in cs:
        c.active = rnd.random() < 0.7 and c.left.block is c.right.block
    rec("bs.split", ctx.outcome(bs.split, inactive))
    rec("after-bs.split", ctx.snap(S, ))
    rec("bs.split.inactive", ctx.canon(inactive))
    while bs._list:
        bs.remove(bs._list[0])
    rec("remove-empty", ctx.outcome(bs.remove, nb))
    rec("cost-empty", ctx.outcome(bs.cost))
    rec("split-empty", ctx.outcome(bs.split, []))


def sc_stats(mod, seed, rec):
    """PositionStats / Block construction / cost on raw values."""
    rnd = random.Random(seed)
    vals = [0, 0.0, 1, -1, 2, 0.5, -0.25, 1e10, 1e-10, 3.3, -7.7, float("inf"), float("nan")]
    scale = rnd.choice([1, 2, 0.5, -1, 0, 3.7, rnd.uniform(-3, 3)])
    ps = mod.PositionStats(scale)
    ctx = Ctx(mod, [], [])
    for k in range(rnd.randint(0, 6)):
        if rnd.random() < 0.7:
            d, w, s, o = (
                rnd.uniform(-50, 50),
                rnd.uniform(0.1, 4),
                rnd.choice([1, 2, rnd.uniform(0.2, 3)]),
                rnd.uniform(-10, 10),
            )
        else:
            d, w, s, o = (rnd.choice(vals), rnd.choice(vals), rnd.choice(vals), rnd.choice(vals))
        if rnd.random() < 0.05:
            w = "x"
        if rnd.random() < 0.05:
            d = None
        v = mod.Variable(d, w, s)
        v.offset = o
        rec("add%d" % k, ctx.outcome(ps.addVariable, v))
        rec("ps%d" % k, (ctx.canon(ps.AB), ctx.canon(ps.AD), ctx.canon(ps.A2)))
        rec("posn%d" % k, ctx.outcome(ps.getPosn))
    rec("posn-final", ctx.outcome(ps.getPosn))

    class NoWeight(object):
        scale = 1
        offset = 2

    rec("add-bad", ctx.outcome(ps.addVariable, NoWeight()))
    rec("ps-bad", (ctx.canon(ps.AB), ctx.canon(ps.AD), ctx.canon(ps.A2)))

    class NoDesired(object):
        scale = 2
        offset = 3
        weight = 1.5

    rec("add-bad2", ctx.outcome(ps.addVariable, NoDesired()))
    rec("ps-bad2", (ctx.canon(ps.AB), ctx.canon(ps.AD), ctx.canon(ps.A2)))
    # Block / Blocks cost with many variables (summation order matters)
    n = rnd.randint(0, 9)
    vs = [
        mod.Variable(rnd.uniform(-1e3, 1e3) * rnd.choice([1, 1e-6, 1e6]), rnd.uniform(0.1, 3))
        for _ in range(n)
    ]
    ctx = Ctx(mod, vs, [])
    bs = mod.Blocks(vs)
    for b in bs._list:
        b.posn = rnd.uniform(-1e3, 1e3)
    rec("blocks-cost", ctx.outcome(bs.cost))
    if n >= 2:
        b0 = bs._list[0]
        c = mod.Constraint(vs[0], vs[1], 1)
        for other in list(bs._list[1:]):
            rec("mergeAcross", ctx.outcome(b0.mergeAcross, other, c, rnd.uniform(-5, 5)))
            bs.remove(other)
        b0.posn = rnd.uniform(-10, 10)
        rec("block-cost", ctx.outcome(b0.cost))
        rec("blocks-cost2", ctx.outcome(bs.cost))
        rec("snap", ctx.snap(bs=bs))
        del vs[1].block
        rec("block-cost-exc", ctx.outcome(b0.cost))
        rec("blocks-cost-exc", ctx.outcome(bs.cost))


def run_all(mod):
    records = []
    specs = hand_specs() + [gen_spec(s) for s in range(260)]
    scenarios = [sc_solve, sc_steps, sc_queries, sc_mutate]
    ncases = 0
    ntimeouts = 0
    for si, spec in enumerate(specs):
        for sc in scenarios:
            label = "%s[%d]" % (sc.__name__, si)

            def rec(tag, value, label=label):
                records.append((label + ":" + tag, repr(value)))

            if ntimeouts >= MAX_TIMEOUTS:
                records.append((label, "SKIPPED (too many timeouts)"))
                continue
            signal.setitimer(signal.ITIMER_REAL, CASE_TIMEOUT)
            try:
                sc(mod, spec, rec)
            except CaseTimeout:
                records.append((label, "TIMEOUT"))
                ntimeouts += 1
            except RecursionError:
                records.append((label, "RecursionError(outer)"))
            except Exception as e:  # harness-level failure must also match
                records.append((label, "HARNESS-EXC %s %s" % (type(e).__name__, e)))
            finally:
                signal.setitimer(signal.ITIMER_REAL, 0)
            ncases += 1
    for seed in range(300):
        label = "sc_stats[%d]" % seed

        def rec(tag, value, label=label):
            records.append((label + ":" + tag, repr(value)))

        try:
            sc_stats(mod, seed, rec)
        except Exception as e:
            records.append((label, "HARNESS-EXC %s %s" % (type(e).__name__, e)))
        ncases += 1
    return records, ncases


def main():
    if len(sys.argv) != 3:
        print("usage: equiv.py <original-checkout> <refactored-checkout>")
        return 2
    signal.signal(signal.SIGALRM, _alarm)
    old = load(sys.argv[1], "vpsc_original")
    new = load(sys.argv[2], "vpsc_refactored")
    rec_old, n_old = run_all(old)
    rec_new, n_new = run_all(new)
    diffs = []
    if len(rec_old) != len(rec_new):
        diffs.append("record count differs: %d vs %d" % (len(rec_old), len(rec_new)))
    for (la, va), (lb, vb) in zip(rec_old, rec_new):
        if la != lb or va != vb:
            diffs.append("%s\n    original:   %s\n    refactored: %s" % (la, va[:600], vb[:600]))
            if len(diffs) > 10:
                break
    harness = [l for l, v in rec_old if v.startswith("'HARNESS-EXC") or v.startswith("HARNESS-EXC")]
    timeouts = [l for l, v in rec_old if v == "TIMEOUT"]
    if diffs:
        print("DIFFERENT")
        for d in diffs:
            print(d)
        return 1
    print(
        "EQUIVALENT (%d cases, %d compared records, %d timeouts, %d harness-level exceptions)"
        % (n_old, len(rec_old), len(timeouts), len(harness))
    )
    return 0


if __name__ == "__main__":
    sys.exit(main())
