#!/usr/bin/env python
"""Differential equivalence test.

Usage: python equiv.py <original-checkout> <refactored-checkout>

Both trees are imported in-process (one after the other, purging
``sys.modules`` in between), the same deterministic battery of calls is run
against each, and the canonicalised outcomes (return value, exception type,
mutated arguments / receiver state) are compared one by one.
"""

import importlib
import os
import random
import sys
import types
from datetime import datetime, timedelta


def _purge():
    for key in [
        k for k in sys.modules if k == "labella" or k.startswith("labella.")
    ]:
        del sys.modules[key]


def load(root):
    root = os.path.abspath(root)
    _purge()
    sys.path.insert(0, root)
    try:
        scale = importlib.import_module("labella.scale")
        d3t = importlib.import_module("labella.d3_time")
    finally:
        sys.path.pop(0)
    for mod in (scale, d3t):
        assert os.path.abspath(mod.__file__).startswith(root + os.sep), (
            mod.__file__,
            root,
        )
    _purge()
    return types.SimpleNamespace(scale=scale, d3t=d3t, root=root)


class Canon(object):
    """Turn results into comparable, tree-independent plain data."""

    def __init__(self, ns):
        self.ns = ns
        self.names = {}
        for name, obj in ns.d3t.d3_time.items():
            if isinstance(obj, ns.d3t.d3_time_interval):
                self.names[id(obj)] = "interval:" + name
        self.names[id(ns.scale.d3_time_scaleMilliseconds)] = "interval:ms"

    def __call__(self, obj):
        ns = self.ns
        if id(obj) in self.names:
            return self.names[id(obj)]
        if obj is None or isinstance(obj, (bool, str)):
            return repr(obj)
        if isinstance(obj, (int, float)):
            return type(obj).__name__ + ":" + repr(obj)
        if isinstance(obj, (datetime, timedelta)):
            return type(obj).__name__ + ":" + repr(obj)
        if isinstance(obj, (list, tuple)):
            return [type(obj).__name__] + [self(x) for x in obj]
        if isinstance(obj, dict):
            return ["dict"] + [
                [self(k), self(v)] for k, v in sorted(obj.items(), key=repr)
            ]
        if isinstance(obj, types.GeneratorType):
            return ["generator"] + [self(x) for x in obj]
        if isinstance(obj, ns.scale.TimeScale):
            return [
                "TimeScale",
                self(obj._linear),
                "methods-default"
                if obj._methods is ns.scale.d3_time_scaleLocalMethods
                else self(obj._methods),
            ]
        if isinstance(obj, ns.scale.LinearScale):
            return [
                "LinearScale",
                self(obj._domain),
                self(obj._range),
                self(obj._clamp),
            ]
        if isinstance(obj, ns.d3t.d3_time_interval):
            return "interval:<anonymous>"
        if isinstance(obj, ns.scale.d3TimeScaleMilliseconds):
            return "interval:<anonymous ms>"
        if callable(obj):
            return "callable:" + getattr(obj, "__name__", type(obj).__name__)
        return "object:" + type(obj).__name__


def run_case(canon, thunk):
    try:
        return ["ok", canon(thunk())]
    except RecursionError:
        return ["exc", "RecursionError"]
    except Exception as err:  # noqa: BLE001 - we compare the type
        return ["exc", type(err).__name__]


def rand_dt(rng, lo_year=1900, hi_year=2100):
    lo = datetime(lo_year, 1, 1)
    hi = datetime(hi_year, 12, 31, 23, 59, 59)
    span = int((hi - lo).total_seconds())
    dt = lo + timedelta(seconds=rng.randrange(span))
    kind = rng.randrange(5)
    if kind == 0:
        return dt.replace(hour=0, minute=0, second=0)
    if kind == 1:
        return dt.replace(day=1, hour=0, minute=0, second=0)
    if kind == 2:
        return dt + timedelta(microseconds=rng.randrange(1000000))
    if kind == 3:
        return dt + timedelta(milliseconds=rng.randrange(1000))
    return dt


EDGE_DATES = [
    datetime(1970, 1, 1),
    datetime(1969, 12, 31, 23, 59, 59, 999000),
    datetime(2000, 2, 29),
    datetime(2016, 2, 29, 12),
    datetime(2011, 12, 31, 23, 59, 59),
    datetime(2012, 1, 1),
    datetime(2012, 1, 1, 0, 0, 0, 1),
    datetime(2012, 1, 1, 0, 0, 0, 1000),
    datetime(2015, 1, 31),
    datetime(2015, 3, 29, 2, 30),
    datetime(2017, 1, 1),  # a Sunday
    datetime(2017, 1, 7, 23, 59, 59, 999999),
    datetime(2018, 12, 30),
    datetime(1, 1, 1),
    datetime(1, 1, 2, 3, 4, 5),
    datetime(9999, 12, 31, 23, 59, 59),
    datetime(9999, 6, 15),
    datetime(1900, 1, 1),
]

INTERVAL_NAMES = ["second", "minute", "hour", "day", "week", "month", "year"]


def build_cases(ns):
    scale, d3t = ns.scale, ns.d3t
    d3_time = d3t.d3_time
    cases = []
    rng = random.Random(9001)

    # ------------------------------------------------------------------
    # time_nice_floor / time_nice_ceil
    # ------------------------------------------------------------------
    def make_skipped(interval, skip, log):
        # the predicate TimeScale.nice builds
        def skipped(date):
            log.append(date)
            return (date is not None) and (
                not len(
                    interval.range(
                        date, scale.milli2dt(scale.dt2milli(date) + 1), skip
                    )
                )
            )

        return skipped

    def nice_case(which, date, name, skip):
        def thunk():
            interval = d3_time[name]
            log = []
            fn = getattr(scale, which)
            pred = make_skipped(interval, skip, log)
            try:
                res = fn(date, pred, interval)
            except Exception as err:  # noqa: BLE001
                return {"raised": type(err).__name__, "log": log}
            return {"ret": res, "log": log}

        return thunk

    skips = {
        "second": [1, 2, 5, 15, 30, 7],
        "minute": [1, 5, 15, 30, 7],
        "hour": [1, 3, 6, 12, 5],
        "day": [1, 2, 3, 7, 10],
        "week": [1, 2, 4, 13],
        "month": [1, 3, 6, 5],
        "year": [1, 2, 5, 10, 100],
    }
    dates = list(EDGE_DATES) + [rand_dt(rng) for _ in range(24)]
    n = 0
    for di, date in enumerate(dates):
        for j in range(3):
            name = INTERVAL_NAMES[(di + 3 * j) % len(INTERVAL_NAMES)]
            skip = skips[name][(di + j) % len(skips[name])]
            for which in ("time_nice_floor", "time_nice_ceil"):
                cases.append(
                    ("%s#%d %r %s/%r" % (which, n, date, name, skip),
                     nice_case(which, date, name, skip))
                )
                n += 1

    # hand written predicates: never skip, skip a fixed number of times,
    # skip by weekday, predicate that raises, non-bool truthy results
    def counted(k):
        state = {"n": 0}

        def pred(date):
            state["n"] += 1
            return state["n"] <= k

        return pred

    def raising(date):
        raise KeyError("boom")

    preds = [
        ("never", lambda: (lambda d: False)),
        ("none", lambda: (lambda d: None)),
        ("once", lambda: counted(1)),
        ("thrice", lambda: counted(3)),
        ("ten", lambda: counted(10)),
        ("weekday", lambda: (lambda d: d.isoweekday() not in (3,))),
        ("evenmin", lambda: (lambda d: [1] if d.minute % 2 else [])),
        ("raises", lambda: raising),
    ]
    for di, date in enumerate(dates[:30]):
        for pi, (pname, pf) in enumerate(preds):
            name = INTERVAL_NAMES[(di + pi) % len(INTERVAL_NAMES)]
            if pname == "weekday" and name not in ("day", "hour"):
                name = "day"
            if pname == "evenmin" and name not in ("second", "minute"):
                name = "minute"
            for which in ("time_nice_floor", "time_nice_ceil"):
                cases.append(
                    ("%s-pred %r %s %s" % (which, date, name, pname),
                     lambda which=which, date=date, name=name, pf=pf:
                     getattr(scale, which)(date, pf(), d3_time[name]))
                )

    # the millisecond pseudo-interval and bad interval objects
    for which in ("time_nice_floor", "time_nice_ceil"):
        for date in dates[:6]:
            cases.append(
                ("%s-ms %r" % (which, date),
                 lambda which=which, date=date: getattr(scale, which)(
                     date, counted(2), scale.d3_time_scaleMilliseconds))
            )
        cases.append(
            ("%s-badinterval" % which,
             lambda which=which: getattr(scale, which)(
                 dates[0], counted(1), object()))
        )
        cases.append(
            ("%s-baddate" % which,
             lambda which=which: getattr(scale, which)(
                 None, counted(1), d3_time["day"]))
        )

    # ------------------------------------------------------------------
    # d3TimeScaleMilliseconds.range
    # ------------------------------------------------------------------
    def ms_case(start, stop, step):
        def thunk():
            ms = scale.d3TimeScaleMilliseconds()
            res = ms.range(start, stop, step)
            return {"ret": res, "islist": type(res) is list}

        return thunk

    steps = [1, 2, 5, 10, 20, 50, 100, 200, 500, 3, 7, 1.0, 2.5, 0.5, 0,
             -1, -5, 1e3, "4", "x", None, True, float("nan"), float("inf")]
    n = 0
    for di, start in enumerate(dates):
        for j in range(4):
            step = steps[(di * 4 + j) % len(steps)]
            span = [0, 1, 9, 37, 250, 999, 1000, 1001, 4321, -50][
                (di + j) % 10
            ]
            try:
                stop = start + timedelta(milliseconds=span,
                                         microseconds=(di * 137) % 1000)
            except OverflowError:
                stop = start
            try:
                start2 = start + timedelta(microseconds=(j * 411) % 1000)
            except OverflowError:
                start2 = start
            cases.append(
                ("msrange#%d %r +%dms step=%r" % (n, start2, span, step),
                 ms_case(start2, stop, step))
            )
            n += 1
    cases.append(("msrange-none-start", ms_case(None, dates[0], 1)))
    cases.append(("msrange-none-stop", ms_case(dates[0], None, 1)))
    cases.append(("msrange-none-both", ms_case(None, None, None)))
    cases.append(("msrange-zero-step-bad-stop", ms_case(dates[0], None, 0)))
    cases.append(("msrange-big",
                  ms_case(datetime(2000, 1, 1), datetime(2000, 1, 1, 0, 0, 3),
                          1)))
    return cases


def main(argv):
    if len(argv) != 3:
        print("usage: equiv.py <original-checkout> <refactored-checkout>")
        return 2
    outcomes = []
    for root in argv[1:3]:
        ns = load(root)
        canon = Canon(ns)
        results = []
        for label, thunk in build_cases(ns):
            results.append((label, run_case(canon, thunk)))
        outcomes.append(results)
    old, new = outcomes
    diffs = []
    if [l for l, _ in old] != [l for l, _ in new]:
        diffs.append("case lists differ (%d vs %d)" % (len(old), len(new)))
    else:
        for (label, a), (_, b) in zip(old, new):
            if a != b:
                diffs.append("%s\n    original:   %r\n    refactored: %r"
                             % (label, a, b))
    n_ok = sum(1 for _, r in old if r[0] == "ok")
    n_exc = len(old) - n_ok
    if len(old) < 200:
        diffs.append("too few cases: %d" % len(old))
    if diffs:
        print("DIFFERENT (%d of %d cases)" % (len(diffs), len(old)))
        for d in diffs[:40]:
            print("  " + d)
        return 1
    print("EQUIVALENT (%d cases: %d returned, %d raised)"
          % (len(old), n_ok, n_exc))
    return 0


if __name__ == "__main__":
    sys.exit(main(sys.argv))
