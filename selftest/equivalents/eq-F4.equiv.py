#!/usr/bin/env python
"""Differential test for the TimelineTex.add_header_colors refactoring.

usage: equiv.py <original-checkout> <refactored-checkout>
"""
import itertools
import os
import random
import subprocess
import sys


def outcome(fn):
    try:
        return ("OK", fn())
    except Exception as exc:  # noqa
        return ("EXC", type(exc).__name__)


def make_items(rng, n, kind):
    """deterministic item dicts; kind selects the time type"""
    import datetime

    items = []
    for j in range(n):
        if kind == "date":
            t = datetime.date(1990 + rng.randint(0, 30), rng.randint(1, 12),
                              rng.randint(1, 28))
        elif kind == "datetime":
            t = datetime.datetime(2001, 1 + rng.randint(0, 11),
                                  rng.randint(1, 28), rng.randint(0, 23))
        elif kind == "ties":
            t = datetime.date(2000 + (j % 2), 1, 1)
        else:
            t = rng.choice([0.0, -5.0, 3.25, rng.uniform(-100, 100), float(j)])
        d = {"time": t}
        r = rng.random()
        if r < 0.5:
            d["text"] = rng.choice(["a", "Label %d" % j, "\u00e9t\u00e9", "x y z"])
            if rng.random() < 0.7:
                d["width"] = rng.choice([10, 35, 60.5, 120])
        elif r < 0.8:
            d["width"] = rng.choice([5, 50, 80])
        items.append(d)
    return items


def make_options(rng, T, kind, direction):
    from labella.scale import LinearScale

    o = {
        "direction": direction,
        "initialWidth": rng.choice([400, 150, 804]),
        "initialHeight": rng.choice([400, 120, 250]),
        "showBorder": rng.random() < 0.5,
        "showTicks": rng.random() < 0.8,
        "layerGap": rng.choice([60, 20, 33.5]),
        "dotRadius": rng.choice([3, 1.5, 0]),
        "margin": {"left": rng.choice([20, 40.5, 0]), "right": 20,
                   "top": rng.choice([20, 3]), "bottom": 20},
        "linkColor": rng.choice(["#222", "#abcdef", ["#f00", "#0f0", "#00f"],
                                 lambda d: "#123456"]),
        "dotColor": rng.choice(["#222", ["#1f77b4", "#aec7e8"], "fff"]),
        "labelBgColor": rng.choice(["#222", ["#ff7f0e", "#ffbb78", "#2ca02c"]]),
        "labelTextColor": rng.choice(["#fff", "#000"]),
        "borderColor": rng.choice(["#000", ["#111", "#eee"]]),
        "labella": rng.choice([{}, {"maxPos": 150}, {"maxPos": 60, "nodeSpacing": 1},
                               {"algorithm": "none"}]),
        "latex": {"linkThickness": rng.choice(["very thick", "thin", ""]),
                  "tickCross": rng.random() < 0.5,
                  "reproducible": rng.random() < 0.5},
    }
    if kind in ("float",):
        o["scale"] = LinearScale()
    if rng.random() < 0.2:
        o["textFn"] = None
    return o


class Doc(list):
    """list subclass, to check that only append/extend on the caller's
    object are used"""


def worker(tree):
    sys.path.insert(0, tree)
    import labella.timeline as T
    from labella.scale import LinearScale

    assert os.path.realpath(T.__file__).startswith(os.path.realpath(tree))
    # no LaTeX available/needed: deterministic stand-in for the text measurer
    T.text_dimensions = lambda text, **kw: (6.5 * len(text) + 0.25, 9.0)

    rng = random.Random(4242)
    directions = ["up", "down", "left", "right"]
    kinds = ["date", "datetime", "float", "ties"]
    count = 0

    # 1. real pipelines: add_header_colors, add_header and full export
    for idx in range(120):
        d = directions[idx % 4]
        kind = kinds[(idx // 4) % 4]
        n = [1, 2, 3, 7, 30][idx % 5]
        items = make_items(rng, n, kind)
        opts = make_options(rng, T, kind, d)

        def run():
            tl = T.TimelineTex(items, opts)
            tl.nodes, tl.renderer = tl.compute()
            doc = Doc(["sentinel"])
            r = tl.add_header_colors(doc)
            doc2 = Doc()
            r2 = tl.add_header(doc2)
            return (r, list(doc), r2, list(doc2))

        print("R", idx, d, kind, n, opts["showBorder"], outcome(run))
        print("X", idx, outcome(lambda: T.TimelineTex(items, opts).export()))
        count += 2

    # 2. synthetic nodes and colour specifications
    class Data(object):
        def __init__(self, data):
            self.data = data

    class Tag(object):
        def __init__(self, payload):
            self.data = Data(payload)

    calls = []

    def rec(name, val):
        def fn(d):
            calls.append((name, repr(d)))
            return val(d) if callable(val) else val
        return fn

    colours = ["#222", "#abc", "abcdef", "#A1b2C3", "fff", "#12", "", "#",
               None, 17, ["#f00", "#0f0", "#00f"], ["#123"], [],
               ("#111", "#222"), lambda d: d["c"], lambda d: "#0a0b0c",
               lambda d: None]
    tl = T.TimelineTex([{"time": 1.0, "width": 10}],
                       {"scale": LinearScale(), "direction": "up"})
    names = ["dotColor", "labelBgColor", "labelTextColor", "linkColor",
             "borderColor"]
    for idx in range(420):
        nn = rng.choice([0, 0, 1, 2, 3, 5, 27, 60])
        if idx % 7 == 0:
            nn = 0
        payloads = [rng.choice([{"c": "#%06x" % rng.randrange(1 << 24)},
                                {"c": "#fed"}, {}, None]) for _ in range(nn)]
        nodes = [Tag(p) for p in payloads]
        r = rng.random()
        if r < 0.05:
            nodes = tuple(nodes)
        elif r < 0.10:
            nodes = iter(nodes)
        elif r < 0.13:
            nodes = None
        elif r < 0.16 and nodes:
            nodes[rng.randrange(len(nodes))] = object()
        tl.nodes = nodes
        del calls[:]
        weird = rng.random() < 0.35
        for nm in names:
            c = rng.choice(colours) if weird else rng.choice(colours[:5] + colours[10:12])
            if callable(c) or rng.random() < 0.3:
                c = rec(nm, c)
            tl.options[nm] = c
        tl.options["showBorder"] = rng.choice([True, False, 0, 1, "", "yes", None])
        if rng.random() < 0.04:
            del tl.options["showBorder"]
        if rng.random() < 0.04:
            del tl.options[rng.choice(names)]
        doc = Doc(rng.choice([[], ["pre"]]))
        res = outcome(lambda: tl.add_header_colors(doc))
        print("S", idx, res, list(doc), list(calls))
        count += 1

    # 3. unusual documents
    tl.nodes = [Tag({"c": "#123456"})]
    for nm in names:
        tl.options[nm] = "#222"
    for idx, doc in enumerate([None, (), Doc(), "str"]):
        for sb in (True, False):
            tl.options["showBorder"] = sb
            print("U", idx, sb, outcome(lambda: tl.add_header_colors(doc)), repr(doc))
            count += 1
    print("COUNT", count)


def main():
    if len(sys.argv) == 3 and sys.argv[1] == "--worker":
        worker(sys.argv[2])
        return 0
    orig, new = sys.argv[1], sys.argv[2]
    outs = []
    for tree in (orig, new):
        env = dict(os.environ, PYTHONPATH=tree, PYTHONHASHSEED="0")
        p = subprocess.run(
            [sys.executable, os.path.abspath(__file__), "--worker", tree],
            env=env, stdout=subprocess.PIPE, stderr=subprocess.PIPE,
            universal_newlines=True, cwd="/tmp",
        )
        if p.returncode != 0:
            print("DIFFERENT (worker crashed for %s)\n%s" % (tree, p.stderr))
            return 1
        outs.append(p.stdout.splitlines())
    a, b = outs
    diffs = [(x, y) for x, y in zip(a, b) if x != y]
    if len(a) != len(b) or diffs or len(a) < 200:
        print("DIFFERENT")
        print("lines: %d vs %d" % (len(a), len(b)))
        for x, y in diffs[:10]:
            print("- " + x)
            print("+ " + y)
        return 1
    print("EQUIVALENT (%d cases compared)" % (len(a) - 1))
    return 0


if __name__ == "__main__":
    sys.exit(main())
