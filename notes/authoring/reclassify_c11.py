"""Authoring-time, throw-away: clean ground truth for C11 among the survey mutants.

export_oracle.py wrapped export *and* its own SVG/TeX parsers in one try block, so a mutant that merely changes
the output's shape (a missing comment line the parser keys on) was recorded as "C11:<exception of the parser>".
This script re-runs every survey mutant with a recorded C11 verdict through a driver that only constructs and
exports (documented inputs of C11: numbers or dates, explicit widths, any direction/algorithm/bounds, options
omitted/empty/partial) and records whether *the library* raises.  Result: c11_reclassified.jsonl, used by the
thorough tier's survey statistics for C11.  No check imports or runs this file.
"""
import json, os, re, shutil, subprocess, sys, tempfile
from concurrent.futures import ThreadPoolExecutor

sys.path.insert(0, "/verif")
from sa.selftest.mutants import file_mutants  # noqa

DRIVER = r'''
import random, sys, datetime as D, copy, traceback
from labella.timeline import TimelineSVG, TimelineTex
from labella.scale import LinearScale, TimeScale
random.seed(7)
def datasets():
    base = D.datetime(2019, 12, 31, 23, 59, 59)
    yield [{'time': 5, 'width': 30, 'text': 'a'}]
    yield [{'time': 5.5, 'width': 30}, {'time': 5.5, 'width': 40, 'text': 'Zoë'}]
    yield [{'time': D.date(2020, 2, 29), 'width': 30, 'text': 'leap'}, {'time': D.date(2020, 1, 31), 'width': 30}]
    yield [{'time': D.time(12, 30), 'width': 30, 'text': 't'}, {'time': D.time(1, 0), 'width': 20}]
    yield [{'time': base, 'width': 30, 'text': 'x'}]
    for spread in (0.005, 2, 90, 4000, 86400 * 3, 86400 * 70, 86400 * 900, 86400 * 365 * 150):
        n = random.randrange(2, 12)
        yield [{'time': base + D.timedelta(seconds=random.uniform(0, spread)), 'width': random.choice([20, 45.5, 60]), 'text': random.choice(['abc', 'é́', '日本', ''])} for _ in range(n)]
    for n in (3, 25, 60):
        yield [{'time': random.choice([random.uniform(0, 100), random.randrange(0, 30)]), 'width': random.choice([20, 30, 60]), 'text': 'L%d' % i} for i in range(n)]
pal = ['#1f77b4', '#F70', '#2ca02c', 'd62728']
def options():
    yield None
    yield {}
    for d in ('up', 'down', 'left', 'right'):
        for alg in ('overlap', 'simple', 'none'):
            yield {'direction': d, 'labella': {'algorithm': alg, 'maxPos': random.choice([None, 150, 360, 800]), 'minPos': random.choice([0, None, 20])},
                   'showTicks': random.random() < .7, 'showBorder': random.random() < .5, 'dotColor': random.choice(['#222', pal, lambda d: '#333']),
                   'labelBgColor': random.choice(['#222', pal]), 'linkColor': random.choice(['#333', pal]), 'borderColor': pal, 'layerGap': random.choice([1, 40]),
                   'latex': {'tickCross': random.random() < .5}}
bad = {}
for data in datasets():
    for o in options():
        for cls in (TimelineSVG, TimelineTex):
            try:
                oo = None if o is None else copy.deepcopy({k: v for k, v in o.items() if not callable(v)})
                if o is not None:
                    for k, v in o.items():
                        if callable(v): oo[k] = v
                numeric = isinstance(data[0]['time'], (int, float))
                if oo is not None and numeric: oo['scale'] = LinearScale()
                if oo is None and numeric: oo = {'scale': LinearScale()}
                t = cls(copy.deepcopy(data), options=oo)
                if cls is TimelineTex:
                    t.export(None)
                else:
                    t.export()
            except BaseException as e:
                k = type(e).__name__
                bad[k] = bad.get(k, 0) + 1
print('RESULT', bad)
'''


def cases():
    out = []
    for fn in ("survey_tested_modules.jsonl", "survey_untested_modules.jsonl"):
        for line in open(os.path.join("/verif/notes/authoring", fn)):
            r = json.loads(line)
            if fn.startswith("survey_tested") and not r.get("survived"):
                continue
            verd = " ".join(str(r.get(k, "")) for k in ("engine", "vpsc", "scale", "export"))
            if "C11" in verd:
                out.append((r["file"], r["line"], r["desc"], verd[:100]))
    return out


def run(job):
    f, ln, desc, verd, src = job
    d = tempfile.mkdtemp(prefix="rc11_", dir="/tmp")
    try:
        shutil.copytree("/repo/labella", os.path.join(d, "labella"))
        open(os.path.join(d, "labella", f), "w").write(src)
        open(os.path.join(d, "drv.py"), "w").write(DRIVER)
        try:
            p = subprocess.run(["/venv/bin/python", "drv.py"], cwd=d, capture_output=True, text=True, timeout=300, env=dict(os.environ, PYTHONPATH=d, PYTHONDONTWRITEBYTECODE="1"))
            m = re.search(r"RESULT (\{.*\})", p.stdout)
            res = m.group(1) if m else "CRASH " + (p.stderr.strip().splitlines() or ["?"])[-1][:120]
        except subprocess.TimeoutExpired:
            res = "TIMEOUT"
    finally:
        shutil.rmtree(d, ignore_errors=True)
    return {"file": f, "line": ln, "desc": desc, "recorded": verd, "library_raises": res != "{}", "result": res}


def main():
    srcs = {}
    jobs = []
    for f, ln, desc, verd in cases():
        if f not in srcs:
            srcs[f] = file_mutants(f, open("/repo/labella/" + f).read())
        ms = srcs[f].get((ln, desc))
        if ms is not None:
            jobs.append((f, ln, desc, verd, ms))
    # the unchanged tree must be clean under the same driver
    base = run(("__init__.py", 0, "baseline", "", open("/repo/labella/__init__.py").read()))
    print("baseline:", base["result"])
    assert base["result"] == "{}", base
    with ThreadPoolExecutor(16) as ex:
        res = list(ex.map(run, jobs))
    with open("/verif/notes/authoring/c11_reclassified.jsonl", "w") as fh:
        for r in res:
            fh.write(json.dumps(r) + "\n")
    print(len(res), "mutants;", sum(r["library_raises"] for r in res), "raise from the library")


if __name__ == "__main__":
    main()
