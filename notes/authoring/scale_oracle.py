"""Authoring-time oracle for C12..C17 (scales, calendar). Prints OK or violated ids."""
import random, sys, collections, math, calendar, datetime as D
from labella.scale import LinearScale, TimeScale
from labella.d3_time import d3_time

def mant125(step):
    e=math.floor(math.log10(step)+1e-9); m=step/10**e
    return any(abs(m-k)<1e-6*k for k in (1,2,5,10))

def floor_unit(t,u):
    if u=='second': return t.replace(microsecond=0)
    if u=='minute': return t.replace(second=0,microsecond=0)
    if u=='hour': return t.replace(minute=0,second=0,microsecond=0)
    d=D.datetime(t.year,t.month,t.day)
    if u=='day': return d
    if u=='week': return d-D.timedelta(days=(d.isoweekday()%7))
    if u=='month': return d.replace(day=1)
    if u=='year': return d.replace(month=1,day=1)
def step_unit(t,u,k):
    if u in('second','minute','hour','day','week'):
        return t+{'second':D.timedelta(seconds=k),'minute':D.timedelta(minutes=k),'hour':D.timedelta(hours=k),'day':D.timedelta(days=k),'week':D.timedelta(weeks=k)}[u]
    if u=='month':
        m=t.month-1+k; return t.replace(year=t.year+m//12,month=m%12+1)
    return t.replace(year=t.year+k)
UNITS=['second','minute','hour','day','week','month','year']

def run(seed,n):
    random.seed(seed); bad=collections.Counter()
    def B(k): bad[k]+=1
    lo=D.datetime(1900,1,1); hi=D.datetime(2199,1,1)
    def rdt(ms=True):
        t=lo+D.timedelta(milliseconds=random.randrange(int((hi-lo).total_seconds()*1000)))
        r=random.random()
        if r<.25:
            y=random.randrange(1900,2199); m=random.randrange(1,13)
            t=D.datetime(y,m,calendar.monthrange(y,m)[1],random.randrange(24),random.randrange(60),random.randrange(60))
        elif r<.35: t=t.replace(hour=0,minute=0,second=0,microsecond=0)
        return t
    for it in range(n):
        # ---- linear
        mag=10**random.uniform(-6,9); a=random.uniform(-1,1)*mag
        span=max(abs(a)*1e-6*random.uniform(1,1e6), 10**random.uniform(-9,12)) if random.random()<.5 else mag*random.uniform(.01,2)
        b=a+span if random.random()<.5 else a-span
        if a==b: continue
        r0,r1=random.choice([(0,1),(0,360),(500,20),(-3.5,7.25),(0.1,0.7)])
        try:
            s=LinearScale().domain([a,b]).range([r0,r1])
            if s(a)!=r0 or s(b)!=r1: B('C12')
            x=a+(b-a)*random.random()
            y=s(x)
            if not (min(r0,r1)-1e-9*abs(r1-r0)<=y<=max(r0,r1)+1e-9*abs(r1-r0)): B('C12')
            if abs(s.invert(y)-x)>1e-6*abs(b-a): B('C12')
            x1,x2=sorted([a+(b-a)*random.uniform(-1,2) for _ in range(2)])
            if x2-x1>1e-9*abs(b-a):
                inc=(r1-r0)/(b-a)>0
                if (s(x2)>s(x1))!=inc: B('C12')
            if abs(s((a+b)/2)-(r0+r1)/2)>1e-9*abs(r1-r0): B('C12')
            c=s.copy().clamp(True)
            for q in (a-(b-a),b+(b-a),x):
                v=c(q)
                if not (min(r0,r1)<=v<=max(r0,r1)): B('C12')
            if c(x)!=s(x): B('C12')
            # histories
            scales=[s]
            for _ in range(6):
                t=random.choice(scales); op=random.choice(['copy','nice','domain','range','clamp'])
                if op=='copy': scales.append(t.copy())
                elif op=='nice': t.nice(random.choice([None,3,10]))
                elif op=='domain':
                    u=random.uniform(-5,5); t.domain([u,u+random.choice([-1,1])*random.uniform(.1,9)])
                elif op=='range': t.range([random.uniform(-5,5),random.uniform(6,50)])
                else: t.clamp(random.random()<.5)
                snaps=[(list(z.domain()),list(z.range())) for z in scales]
                for z in scales:
                    d=z.domain(); r=z.range()
                    if d[0]!=d[1] and (z(d[0])!=r[0] or z(d[-1])!=r[-1]): B('C12'); break
                # independence: mutate t only -> others unchanged is checked implicitly by end-point agreement
        except Exception as e: B('C12:EXC:'+type(e).__name__)
        # ---- ticks / nice linear
        m=random.choice([None,1,2,3,5,7,10,20,50,100])
        try:
            s=LinearScale().domain([a,b])
            t=list(s.ticks(m)); mm=10 if m is None else m
            l,h=min(a,b),max(a,b); sp=h-l
            if not (math.floor(0.57*mm)<=len(t)<=1.43*mm+1): B('C13')
            if len(t)>=2:
                st=t[1]-t[0]
                if not mant125(st): B('C13')
                if any(abs((t[i+1]-t[i])-st)>1e-6*st for i in range(len(t)-1)) or any(t[i+1]<=t[i] for i in range(len(t)-1)): B('C13')
                if t[0]<l-1e-6*st or t[-1]>h+1e-6*st: B('C13')
                if t[0]-st>=l+1e-6*st or t[-1]+st<=h-1e-6*st: B('C13')
                f=s.tickFormat(m); txt=[f(v) for v in t]
                if len(set(txt))!=len(txt): B('C13')
                if any(abs(float(x)-v)>1e-3*st for x,v in zip(txt,t)): B('C13')
            s2=LinearScale().domain([a,b]).nice(m); d=s2.domain()
            if (d[0]<d[1])!=(a<b): B('C14')
            if min(d)>l+1e-12*abs(l) or max(d)<h-1e-12*abs(h): B('C14')
            t2=list(LinearScale().domain(d).ticks(m))
            if len(t2)>=2:
                st2=t2[1]-t2[0]
                if l-min(d)>=2*st2 or max(d)-h>=2*st2: B('C14')
        except Exception as e: B('C13:EXC:'+type(e).__name__)
        # ---- time scale
        t0=rdt(); spn=random.choice([10,50,999,1000,5e3,6e4,36e5,864e5,7*864e5,30*864e5,365*864e5,20*365*864e5,200*365*864e5])*random.uniform(.5,2)
        t1=t0+D.timedelta(milliseconds=int(spn))
        if t1>=hi: continue
        dom=[t0,t1] if random.random()<.8 else [t1,t0]
        cnt=random.choice([None,2,3,5,10,20,50])
        try:
            s=TimeScale().domain(dom).range([r0,r1])
            if s(dom[0])!=r0 or s(dom[1])!=r1: B('C15')
            q=t0+(t1-t0)*random.random()
            fr=(q-dom[0]).total_seconds()/(dom[1]-dom[0]).total_seconds()
            if abs(s(q)-(r0+(r1-r0)*fr))>max(1e-6,2e-3/max(1.0,(t1-t0).total_seconds()*1000))*abs(r1-r0): B('C15')
            back=s.invert(s(q))
            if abs((back-q).total_seconds())>0.001: B('C15')
            if s.domain()!=dom and max(abs((x-y).total_seconds()) for x,y in zip(s.domain(),dom))>0.001: B('C15')
        except Exception as e: B('C15:EXC:'+type(e).__name__)
        try:
            s=TimeScale().domain(dom)
            tk=s.ticks(cnt) if cnt else s.ticks()
            c=cnt or 10
            if any(tk[i]>=tk[i+1] for i in range(len(tk)-1)): B('C16')
            ms=D.timedelta(milliseconds=1)
            if tk and (tk[0]<t0-ms or tk[-1]>t1+ms): B('C16')
            spanms=(t1-t0).total_seconds()*1000
            if spanms>=c and not (c/2.4-1<=len(tk)<=2.4*c+1): B('C16')
            if len(tk)>=2:
                g=min((tk[i+1]-tk[i]).total_seconds() for i in range(len(tk)-1))
                G=max((tk[i+1]-tk[i]).total_seconds() for i in range(len(tk)-1))
                if G>2*g+1e-9: B('C16')
                for x in tk:
                    if g>=1 and x.microsecond: B('C16'); break
                    if g>=60 and x.second: B('C16'); break
                    if g>=3600 and x.minute: B('C16'); break
                    if g>=86400 and x.hour: B('C16'); break
                    if g>=28*86400 and x.day!=1: B('C16'); break
                    if g>=365*86400 and x.month!=1: B('C16'); break
        except Exception as e: B('C16:EXC:'+type(e).__name__)
        try:
            s=TimeScale().domain(dom); s.nice(cnt) if cnt else s.nice()
            d=s.domain()
            if (d[0]<d[1])!=(dom[0]<dom[1]): B('C14')
            if min(d)>t0+D.timedelta(milliseconds=1) or max(d)<t1-D.timedelta(milliseconds=1): B('C14')
            tk=TimeScale().domain(dom).ticks(cnt) if cnt else TimeScale().domain(dom).ticks()
            if len(tk)>=2:
                G=max((tk[i+1]-tk[i]) for i in range(len(tk)-1))
                if t0-min(d)>=2*G or max(d)-t1>=2*G: B('C14')
        except Exception as e: B('C14:EXC:'+type(e).__name__)
        # ---- calendar
        t=rdt()
        for u in UNITS:
            iv=d3_time[u]
            try:
                f=floor_unit(t,u)
                if iv.floor(t)!=f: B('C17')
                c=f if f==t else step_unit(f,u,1)
                if iv.ceil(t)!=c: B('C17')
                nx=step_unit(f,u,1)
                rr=f if (t-f)<(nx-t) else nx
                if iv.round(t)!=rr: B('C17')
                k=random.randrange(0,40)
                if iv.offset(f,k)!=step_unit(f,u,k): B('C17')
                stop=step_unit(f,u,random.randrange(1,12))+D.timedelta(milliseconds=random.choice([0,0,1,500]))
                exp=[]; x=c
                while x<stop: exp.append(x); x=step_unit(x,u,1)
                if iv.range(t,stop,1)!=exp: B('C17')
            except Exception as e: B('C17:EXC:'+type(e).__name__)
    return bad
if __name__=='__main__':
    b=run(int(sys.argv[1]) if len(sys.argv)>1 else 1, int(sys.argv[2]) if len(sys.argv)>2 else 300)
    print(' '.join(f"{k}={v}" for k,v in sorted(b.items())) or 'OK')
