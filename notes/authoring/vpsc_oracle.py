"""Authoring-time oracle for C05 (run under python3-vt: needs scipy). Prints OK or C05=<n>."""
import random, sys, collections, signal
import numpy as np
from scipy.optimize import minimize
from labella import vpsc

class TO(Exception): pass
def handler(sig,frm): raise TO()
signal.signal(signal.SIGALRM, handler)

def ref(ds, ws, ss, cons):
    n=len(ds)
    x0=np.array(ds,dtype=float)
    # feasible start: topological push
    cons_f=[{'type':'ineq','fun':(lambda x,l=l,r=r,g=g: ss[r]*x[r]-g-ss[l]*x[l]),
             'jac':(lambda x,l=l,r=r: np.eye(1,len(x),r)[0]*ss[r]-np.eye(1,len(x),l)[0]*ss[l])} for l,r,g in cons]
    f=lambda x: float(np.sum(ws*(x-ds)**2)); j=lambda x: 2*ws*(x-ds)
    best=None
    r=minimize(f,x0,jac=j,constraints=cons_f,method='SLSQP',options={'maxiter':500,'ftol':1e-12})
    return r.fun if r.success else None

def run(seed, ncases):
    random.seed(seed); bad=collections.Counter()
    for it in range(ncases):
        n=random.randrange(1,14)
        ds=[random.choice([random.uniform(0,50), random.randrange(0,20), 5]) for _ in range(n)]
        ws=[random.choice([1,1,1,0.01,100,1e4]) for _ in range(n)]
        scaled = random.random()<0.25
        ss=[random.choice([0.5,1,2,4]) if scaled else 1 for _ in range(n)]
        order=list(range(n)); random.shuffle(order)
        cons=[]
        for _ in range(random.randrange(0,2*n+1)):
            if n<2: break
            i,j=sorted(random.sample(range(n),2))
            cons.append((order[i],order[j],random.choice([0,1,3,3,2.5])))
        if cons and random.random()<.3: cons.append(random.choice(cons))
        cyc = random.random()<0.15 and len(cons)>0
        if cyc:
            l,r,g=random.choice(cons); cons.append((r,l,1))
        vs=[vpsc.Variable(d,w,s) for d,w,s in zip(ds,ws,ss)]
        cs=[vpsc.Constraint(vs[l],vs[r],g) for l,r,g in cons]
        try:
            signal.alarm(5)
            cost=vpsc.Solver(vs,cs).solve()
            signal.alarm(0)
        except TO:
            bad['C05:hang']+=1; continue
        except RecursionError: signal.alarm(0); bad['C05:recursion']+=1; continue
        except Exception as e:
            signal.alarm(0); bad['C05:EXC:'+type(e).__name__]+=1; continue
        xs=[v.position() for v in vs]
        viol=[ (c.right.scale*c.right.position()-c.gap-c.left.scale*c.left.position()) for c in cs if not c.unsatisfiable]
        if any(s< -1e-6 for s in viol): bad['C05:infeasible']+=1; continue
        rc=sum(w*(x-d)**2 for w,x,d in zip(ws,xs,ds))
        if abs(rc-cost)>1e-6*(1+abs(rc)): bad['C05:costreport']+=1
        if not cyc:
            if any(c.unsatisfiable for c in cs): bad['C05:false-unsat']+=1; continue
            rf=ref(np.array(ds,float),np.array(ws,float),ss,cons)
            if rf is not None and rc>rf*(1+1e-5)+1e-5: bad['C05:suboptimal']+=1
    return bad
if __name__=='__main__':
    b=run(int(sys.argv[1]) if len(sys.argv)>1 else 1, int(sys.argv[2]) if len(sys.argv)>2 else 300)
    print(' '.join(f"{k}={v}" for k,v in sorted(b.items())) or 'OK')
