"""Authoring-time oracle for C07,C08,C09,C10,C11 (+C19,C20 unit oracles). Prints OK or violated ids."""
import random, sys, re, copy, collections, datetime as D, unicodedata, math
from xml.etree import ElementTree as ET

def fl(x): return float(x)
def parse_svg(svg):
    root=ET.fromstring(svg)
    main=[g for g in root.iter('g') if g.get('class')=='main-layer'][0]
    out={}
    out['main']=tuple(map(float,re.findall(r'-?[\d.]+',main.get('transform'))))
    line=[l for l in main.iter('line') if l.get('class')=='timeline'][0]
    out['axis']=(float(line.get('x2',0)),float(line.get('y2',0)))
    out['ticks']=[]
    for g in main.iter('g'):
        if g.get('class')=='tick':
            tr=tuple(map(float,re.findall(r'-?[\d.]+(?:e-?\d+)?',g.get('transform'))))
            out['ticks'].append((tr,g.find('text').text))
    out['links']=[]
    for p in main.iter('path'):
        d=p.get('d'); toks=d.split()
        pts=[];i=0;segs=[]
        while i<len(toks):
            c=toks[i]
            k={'M':2,'L':2,'C':6}[c]
            segs.append((c,tuple(float(t) for t in toks[i+1:i+1+k]))); i+=1+k
        out['links'].append((segs,re.search(r'stroke: (rgb\([^)]*\))',p.get('style')).group(1)))
    out['labels']=[]
    for g in main.iter('g'):
        if g.get('class')=='label-g':
            tr=tuple(map(float,re.findall(r'-?[\d.]+',g.get('transform'))))
            r=g.find('rect'); t=g.find('text')
            st=r.get('style')
            out['labels'].append(dict(origin=tr,size=(float(r.get('width')),float(r.get('height'))),fill=re.search(r'fill:(rgb\([^)]*\))',st).group(1),
                 border=(re.search(r'stroke:(rgb\([^)]*\))',st).group(1) if 'stroke:' in st else None),
                 text=(t.text if t is not None else None), textfill=(re.search(r'fill: (rgb\([^)]*\))',t.get('style')).group(1) if t is not None else None)))
    out['dots']=[]
    for c in main.iter('circle'):
        out['dots'].append(dict(cx=float(c.get('cx',0)),cy=float(c.get('cy',0)),r=float(c.get('r')),fill=re.search(r'fill: (rgb\([^)]*\))',c.get('style')).group(1)))
    return out

NUM=r'(-?\d+(?:\.\d+)?(?:e-?\d+)?)'
def parse_tex(tex):
    out={}
    colors=dict(re.findall(r'\\definecolor\{(\w+)\}\{HTML\}\{(\w+)\}',tex))
    texts=dict(re.findall(r'\\def\\text(\w+)\{(.*)\}',tex))
    def rgb(h): return 'rgb(%d, %d, %d)'%(int(h[0:2],16),int(h[2:4],16),int(h[4:6],16))
    sec=lambda name,nxt: tex[tex.index(name):tex.index(nxt,tex.index(name))]
    m=re.search(r'%% main layer\n\\begin\{scope\}\[shift=\{\(%s, %s\)\}\]'%(NUM,NUM),tex); out['main']=(float(m.group(1)),float(m.group(2)))
    m=re.search(r'%% axis\n\\begin\{scope\}\n\\draw\[[^\]]*\] \(0, 0\) -- \(%s, %s\);'%(NUM,NUM),tex); out['axis']=(float(m.group(1)),float(m.group(2)))
    out['ticks']=[]
    if '% axis layer' in tex:
        s=sec('% axis layer','% link layer')
        for m in re.finditer(r'\\begin\{scope\}\[shift=\{\(%s, %s\)\}\]\n\\draw[^\n]*\nnode\[anchor=\w+\] \{(.*)\};'%(NUM,NUM),s):
            out['ticks'].append(((float(m.group(1)),float(m.group(2))),m.group(3)))
    s=sec('% link layer','% label layer')
    out['links']=[]
    body=s.split('\\begin{scope}\n',1)[1]
    # one doc entry per node: consecutive \draw lines with same color id
    cur=None
    for m in re.finditer(r'\\draw\[color=linkColor(\w+), [^\]]*\] \(%s, %s\) (?:\.\. controls\n\(%s, %s\) and \(%s, %s\) \.\. \(%s, %s\)|-- \(%s, %s\));'%((NUM,)*10),body):
        g=m.groups(); ID=g[0]
        if cur is None or cur[0]!=ID:
            cur=[ID,[('M',(float(g[1]),float(g[2])))]]; out['links'].append(cur)
        start=(float(g[1]),float(g[2]))
        if g[3] is not None: cur[1].append(('C',tuple(map(float,g[3:9])),start))
        else: cur[1].append(('L',(float(g[9]),float(g[10])),start))
    out['links']=[( [ (s[0],s[1]) for s in segs], rgb(colors['linkColor'+ID]), [s[2] for s in segs[1:]]) for ID,segs in out['links']]
    s=sec('% label layer','% dots')
    out['labels']=[]
    for m in re.finditer(r'\\begin\{scope\}\[shift=\{\(%s, %s\)\}\]\n(\\draw|\\fill)\[([^\]]*)\]\n\(0, 0\) rectangle \(%s, %s\) node\[[^\]]*text=labelTextColor(\w+)\] \{\\strut (.*)\};'%(NUM,NUM,NUM,NUM),s):
        ox,oy,kind,opts,w,h,tid,txt=m.groups()
        fill=re.search(r'(?:fill|color)=labelBgColor(\w+)',opts).group(1)
        b=re.search(r'borderColor(\w+)',opts)
        tm=re.match(r'\\text(\w+)',txt)
        out['labels'].append(dict(origin=(float(ox),float(oy)),size=(float(w),float(h)),fill=rgb(colors['labelBgColor'+fill]),
             border=(rgb(colors['borderColor'+b.group(1)]) if b else None), text=(texts[tm.group(1)] if tm else None), textfill=rgb(colors['labelTextColor'+tid])))
    s=tex[tex.index('% dots'):]
    out['dots']=[]
    for m in re.finditer(r'size=%sbp, \nfill=dotColor(\w+)\] at \(%s, %s\) \{\};'%(NUM,NUM,NUM),s):
        out['dots'].append(dict(cx=float(m.group(3)),cy=float(m.group(4)),r=float(m.group(1))/2,fill=rgb(colors['dotColor'+m.group(2)])))
    return out

def run(seed,n):
    from labella.timeline import TimelineSVG, TimelineTex
    from labella.scale import LinearScale, TimeScale
    from labella.tex import uni2tex
    random.seed(seed); bad=collections.Counter()
    def B(k): bad[k]+=1
    for it in range(n):
        nd=random.randrange(1,14)
        kind=random.choice(['lin','dt','date'])
        data=[]
        base=D.datetime(2000+random.randrange(20),random.randrange(1,13),random.randrange(1,28),random.randrange(24),random.randrange(60))
        spread=10**random.randrange(2,8)
        for i in range(nd):
            if kind=='lin': t=random.choice([random.uniform(0,100),random.randrange(0,30)])
            elif kind=='dt': t=base+D.timedelta(seconds=random.randrange(spread))
            else: t=(base+D.timedelta(days=random.randrange(3000))).date()
            d={'time':t,'width':random.choice([20,30,45.5,60]),'k':i}
            if random.random()<.6: d['text']=random.choice(['abc','Zoë','x<y&z','é́','日本'])
            data.append(d)
        direction=random.choice(['up','down','left','right'])
        pal=['#1f77b4','#F70','#2ca02c','d62728']
        opts={'direction':direction,'initialWidth':random.choice([400,804]),'initialHeight':random.choice([300,400]),
              'layerGap':random.choice([1,10,40,60]),'showTicks':random.random()<.7,'showBorder':random.random()<.4,
              'labelPadding':random.choice([{'left':2,'right':2,'top':3,'bottom':2},{'left':0,'right':1,'top':0,'bottom':4}]),
              'labella':random.choice([{}, {'maxPos':random.choice([150,260,360]),'algorithm':random.choice(['overlap','simple','none'])},{'nodeSpacing':5}]),
              'dotColor':random.choice(['#222','#a1b2c3',pal,lambda d: pal[d['k']%4]]),
              'labelBgColor':random.choice(['#222',pal]),'linkColor':random.choice(['#333',pal]),'labelTextColor':random.choice(['#fff','#ABCDEF']),
              'borderColor':random.choice(['#000',pal]),'dotRadius':random.choice([3,5])}
        if kind=='lin':
            opts['scale']=LinearScale()
            if random.random()<.3: opts['domain']=[-5,120]
        def mk(cls,o=None):
            oo=dict(opts) if o is None else o
            if 'scale' in oo: oo['scale']=oo['scale'].copy()
            oo['labella']=dict(oo['labella']); oo['labelPadding']=dict(oo['labelPadding'])
            return cls(copy.deepcopy(data),options=oo)
        try:
            ts=mk(TimelineSVG); svg=ts.export(); S=parse_svg(svg)
            tt=mk(TimelineTex); tex=tt.export(); T=parse_tex(tex)
        except Exception as e:
            import traceback
            if '--tb' in sys.argv: traceback.print_exc(); sys.exit()
            B('C11:'+type(e).__name__); continue
        try:
            sc=ts.options['scale']; items=ts.items
            horiz = direction in ('up','down')
            G=opts['layerGap']; pad=opts['labelPadding']
            # ---- C07
            if not (len(S['dots'])==len(S['links'])==len(S['labels'])==nd): B('C07'); continue
            iw=opts['initialWidth']-40; ih=opts['initialHeight']-40
            if S['axis']!=((iw,0.0) if horiz else (0.0,ih)): B('C07')
            rng=sc.range()
            if list(rng)!=[0,iw if horiz else ih]: B('C07')
            nodes=ts.nodes
            if sorted(n_.data.data['k'] for n_ in nodes)!=list(range(nd)): B('C07')
            for i in range(nd):
                d=nodes[i].data.data
                t=d['time']
                if isinstance(t,D.date) and not isinstance(t,D.datetime): t=D.datetime(t.year,t.month,t.day)
                pos=sc(t)
                dot=S['dots'][i]
                dc=(dot['cx'],dot['cy']) if horiz else (dot['cy'],dot['cx'])
                if abs(dc[0]-pos)>1e-6 or dc[1]!=0: B('C07'); break
                segs=S['links'][i][0]
                st=segs[0][1]
                if segs[0][0]!='M' or abs((st[0] if horiz else st[1])-pos)>1e-6 or (st[1] if horiz else st[0])!=0: B('C07'); break
                L=nodes[i].layerIndex
                if [s[0] for s in segs[1:]]!=['C','L']*L+['C']: B('C07'); break
                lab=S['labels'][i]
                w,h=lab['size']
                # expected size
                iw_,ih_=d['width'],13.0
                plr=pad['left']+pad['right']; ptb=pad['top']+pad['bottom']
                if sorted((w,h)) not in (sorted((iw_+plr,ih_+ptb)),sorted((iw_+ptb,ih_+plr))): B('C07'); break
                if lab['text']!=d.get('text'): B('C07'); break
                end=segs[-1][1][-2:]
                ox,oy=lab['origin']
                if direction=='right': edge=(ox,oy+h/2)
                elif direction=='left': edge=(ox+w,oy+h/2)
                elif direction=='down': edge=(ox+w/2,oy)
                else: edge=(ox+w/2,oy+h)
                if abs(end[0]-edge[0])>1.0+1e-6 or abs(end[1]-edge[1])>1.0+1e-6: B('C07'); break
            if opts['showTicks']:
                tk=list(sc.ticks()); fm=sc.tickFormat()
                if len(S['ticks'])!=len(tk): B('C07')
                for (tr,txt),tv in zip(S['ticks'],tk):
                    p=tr[0] if horiz else tr[1]
                    if abs(p-sc(tv))>1e-6 or txt!=fm(tv): B('C07'); break
            # ---- C08
            boxes=[]
            for i,lab in enumerate(S['labels']):
                ox,oy=lab['origin']; w,h=lab['size']
                boxes.append((ox,oy,ox+w,oy+h,nodes[i].layerIndex))
            ns=opts['labella'].get('nodeSpacing',3)
            for i in range(nd):
                x0,y0,x1,y1,L=boxes[i]
                if direction=='right' and x0<G-1: B('C08')
                if direction=='left' and x1>-(G-1): B('C08')
                if direction=='down' and y0<G-1: B('C08')
                if direction=='up' and y1>-(G-1): B('C08')
                for j in range(i+1,nd):
                    a0,b0,a1,b1,M=boxes[j]
                    if x0<a1 and a0<x1 and y0<b1 and b0<y1: B('C08'); break
                    if L!=M:
                        near,far=(boxes[i],boxes[j]) if L<M else (boxes[j],boxes[i])
                        ok={'right':far[0]>=near[2],'left':far[2]<=near[0],'down':far[1]>=near[3],'up':far[3]<=near[1]}[direction]
                        if not ok: B('C08'); break
            # ---- C09
            if S['main']!=T['main'] or S['axis']!=T['axis']: B('C09')
            if len(T['dots'])!=nd or len(T['labels'])!=nd or len(T['links'])!=nd: B('C09')
            else:
                for a,b in zip(S['dots'],T['dots']):
                    if abs(a['cx']-b['cx'])>1e-5 or abs(a['cy']-b['cy'])>1e-5 or a['r']!=b['r'] or a['fill']!=b['fill']: B('C09'); break
                for a,b in zip(S['labels'],T['labels']):
                    if a['origin']!=b['origin'] or a['size']!=b['size'] or a['fill']!=b['fill'] or a['textfill']!=(b['textfill'] if a['text'] else a['textfill']) or (opts['showBorder'] and a['border']!=b['border']): B('C09'); break
                    if (a['text'] or None)!=(None if b['text'] is None else b['text']) and not (a['text'] and b['text']==uni2tex(a['text'])): B('C09'); break
                for a,b in zip(S['links'],T['links']):
                    if a[1]!=b[1] or [s for s in a[0]]!=[s for s in b[0]]: B('C09'); break
                    # continuity of tex segments
                    prev=b[0][0][1]
                    for (c,pts),stp in zip(b[0][1:],b[2]):
                        if stp!=prev: B('C09'); break
                        prev=pts[-2:]
                if opts['showTicks']:
                    if len(S['ticks'])!=len(T['ticks']): B('C09')
                    for (a,at),(b,bt) in zip(S['ticks'],T['ticks']):
                        if abs(a[0]-b[0])>=1 or abs(a[1]-b[1])>=1 or at!=bt: B('C09'); break
            # ---- C10
            o2=dict(opts); 
            if kind!='lin': o2.pop('scale',None)
            A=mk(TimelineSVG); other=[{'time':(5 if kind=='lin' else D.datetime(1990,1,1)),'width':10},{'time':(900 if kind=='lin' else D.datetime(1995,6,1)),'width':10}]
            oo={'direction':random.choice(['up','left'])}
            if kind=='lin': oo['scale']=LinearScale()
            Bt=TimelineSVG(other,options=oo); Bt.export()
            if A.export()!=svg or A.export()!=svg: B('C10')
        except Exception as e:
            B('ORACLE:'+type(e).__name__+':'+str(e)[:40])
    # unit oracles C19/C20
    from labella.utils import int2name, hex2rgb, hex2rgbstr, hex2html
    try:
        names=[int2name(i) for i in range(20000)]
        if len(set(names))!=len(names) or any(not re.fullmatch('[A-Z]+',x) for x in names): B('C20')
        if names!=sorted(names,key=lambda s:(len(s),s)): B('C20')
        for _ in range(400):
            k=random.choice([3,6]); h=''.join(random.choice('0123456789abcdefABCDEF') for _ in range(k))
            full=h if k==6 else ''.join(c*2 for c in h)
            exp=tuple(int(full[i:i+2],16) for i in (0,2,4))
            for code in (h,'#'+h):
                if tuple(hex2rgb(code))!=exp or hex2rgbstr(code)!='rgb(%d, %d, %d)'%exp or hex2html(code)!=full.upper(): B('C20'); break
    except Exception as e: B('C20:'+type(e).__name__)
    try:
        import string
        if uni2tex(string.printable)!=string.printable: B('C19')
        INV={"`":0x300,"'":0x301,"^":0x302,'"':0x308,"H":0x30B,"~":0x303,"c":0x327,"k":0x328,"=":0x304,"b":0x331,".":0x307,"d":0x323,"r":0x30A,"u":0x306,"v":0x30C}
        def back(s):
            def p(i,stop):
                r=""
                while i<len(s) and not(stop and s[i]=="}"):
                    if s[i]=="\\" and i+2<len(s) and s[i+1] in INV and s[i+2]=="{":
                        inner,j=p(i+3,True); r+=inner+chr(INV[s[i+1]]); i=j+1
                    else: r+=s[i]; i+=1
                return r,i
            return p(0,False)[0]
        pool=[chr(c) for c in list(range(0xA0,0x250))+list(range(0x300,0x340))+[0x2026,0xFB01,0x1E9B,0x212B,0x65E5]]+list('abcxyz AEO')
        for _ in range(600):
            t=''.join(random.choice(pool) for _ in range(random.randrange(1,8)))
            o=uni2tex(t)
            if unicodedata.normalize('NFD',back(o))!=unicodedata.normalize('NFD',t): B('C19'); break
    except Exception as e: B('C19:'+type(e).__name__)
    return bad
if __name__=='__main__':
    b=run(int(sys.argv[1]) if len(sys.argv)>1 else 1, int(sys.argv[2]) if len(sys.argv)>2 else 100)
    print(' '.join(f"{k}={v}" for k,v in sorted(b.items())) or 'OK')
