"""Authoring-time dynamic oracle for C01,C02,C03,C04,C06 (engine). Prints violated property ids."""
import random, sys, collections
from fractions import Fraction as Fr
from labella.force import Force
from labella.node import Node

def pava(y, w):
    # weighted isotonic regression (nondecreasing)
    blocks=[]
    for yi,wi in zip(y,w):
        blocks.append([yi*wi, wi, 1])
        while len(blocks)>1 and blocks[-2][0]/blocks[-2][1] > blocks[-1][0]/blocks[-1][1]:
            s,ww,c=blocks.pop(); blocks[-1][0]+=s; blocks[-1][1]+=ww; blocks[-1][2]+=c
    out=[]
    for s,ww,c in blocks: out+=[s/ww]*c
    return out

def tgt(x): return x.parent.currentPos if x.parent else x.idealPos

def run(seed, ncases):
    random.seed(seed)
    bad=collections.Counter()
    for it in range(ncases):
        n=random.randrange(1,30)
        mode=random.choice(['cluster','spread','ties','half','neg'])
        nodes=[]
        for i in range(n):
            if mode=='cluster': p=random.uniform(100,130)
            elif mode=='spread': p=random.uniform(0,1000)
            elif mode=='ties': p=random.choice([10,10,50,200,200.5])
            elif mode=='neg': p=random.uniform(-300,300)
            else: p=random.randrange(0,400)/2
            w=random.choice([10,20,30.5,50,7]) if mode!='ties' else 20
            nodes.append(Node(p,w))
        opts={}
        if random.random()<.7: opts['maxPos']=random.choice([100,300,500,1000])
        r=random.random()
        if r<.3: opts['minPos']=random.choice([None,-50,20.5])
        opts['nodeSpacing']=random.choice([0,3,3,5.5])
        opts['algorithm']=random.choice(['overlap','overlap','simple','none'])
        opts['density']=random.choice([0.85,0.5,1.0])
        opts['stubWidth']=random.choice([1,0,4])
        try:
            f=Force(dict(opts)); f.nodes(nodes); f.compute()
            layers=f.getLayers()
            assert layers is not None
        except RecursionError: raise
        except Exception as e:
            bad['EXC:'+type(e).__name__]+=1; continue
        mn=opts.get('minPos',0); mx=opts.get('maxPos')
        # C04
        labels=[x for l in layers for x in l if not x.isStub()]
        if sorted(map(id,labels))!=sorted(map(id,nodes)) : bad['C04']+=1
        ok4=True
        for k,l in enumerate(layers):
            if not l: ok4=False
            for x in l:
                if x.layerIndex!=k: ok4=False
        for x in nodes:
            ch=[]; c=x
            while c.parent: c=c.parent; ch.append(c)
            if len(ch)!=x.layerIndex: ok4=False
            for j,s in enumerate(ch):
                if s.layerIndex!=x.layerIndex-1-j or s.idealPos!=x.idealPos or s.width!=opts['stubWidth'] or s.data is not x.data or not any(s is y for y in layers[s.layerIndex]): ok4=False
        if sum(len(l) for l in layers)!=sum(1+x.layerIndex for x in nodes): ok4=False
        if mx is None and len(layers)!=1: ok4=False
        if mx is not None and mn is not None:
            budget=opts['density']*(mx-mn)
            req=sum(x.width for x in nodes)+opts['nodeSpacing']*(len(nodes)-1)
            if opts['algorithm'] in('overlap','simple') and req<=budget and len(layers)!=1: ok4=False
            if opts['algorithm']=='overlap' and len(layers)>1:
                for l in layers:
                    nl=[x for x in l if not x.isStub()]
                    wsum=sum(x.width for x in l)+opts['nodeSpacing']*(len(l)-1)
                    if len(nl)>2 and wsum>budget+1e-9: ok4=False
        if opts['algorithm']=='none' and len(layers)!=1: ok4=False
        if not ok4: bad['C04']+=1
        # C01 / C02 / C03 per layer
        for l in layers:
            s=sorted(l,key=tgt)
            gaps=[]
            for a,b in zip(s,s[1:]):
                sp=2 if a.isStub() and b.isStub() else opts['nodeSpacing']
                g=(a.width+b.width)/2+sp; gaps.append(g)
                if b.currentPos-a.currentPos<g-1-1e-9: bad['C01']+=1; break
            # order of targets
            # optimum
            cum=[0]
            for g in gaps: cum.append(cum[-1]+g)
            y=[tgt(x)-c for x,c in zip(s,cum)]
            iso=pava(y,[1]*len(y))
            lo=-1e18 if mn is None else mn+s[0].width/2
            hi=1e18 if mx is None else mx-s[-1].width/2-cum[-1]
            fits = lo<=hi
            if fits:
                opt=[min(max(v,lo),hi)+c for v,c in zip(iso,cum)]
                for x,o in zip(s,opt):
                    if abs(x.currentPos-o)>0.5+1e-4: bad['C02']+=1; break
                for x in s:
                    if (mn is not None and x.currentLeft()<mn-0.5-1e-4) or (mx is not None and x.currentRight()>mx+0.5+1e-4): bad['C03']+=1; break
        # C06
        snap={id(x):(x.layerIndex,x.currentPos) for x in nodes}
        try:
            f.compute()
            if any(snap[id(x)]!=(x.layerIndex,x.currentPos) for x in nodes): bad['C06']+=1
            bypos=collections.defaultdict(set)
            for x in nodes: bypos[x.idealPos].add(x.width)
            if all(len(v)==1 for v in bypos.values()):
                perm=nodes[:]; random.shuffle(perm)
                n2=[Node(x.idealPos,x.width) for x in perm]
                f2=Force(dict(opts)); f2.nodes(n2); f2.compute()
                a=sorted((x.idealPos,x.width,x.layerIndex,x.currentPos) for x in nodes)
                b=sorted((x.idealPos,x.width,x.layerIndex,x.currentPos) for x in n2)
                if a!=b: bad['C06']+=1
            # engine reuse with a second set
            n3=[Node(x.idealPos+7,x.width) for x in nodes[:max(1,len(nodes)//2)]]
            n4=[Node(x.idealPos,x.width) for x in n3]
            f.nodes(n3); f.compute()
            f4=Force(dict(opts)); f4.nodes(n4); f4.compute()
            if [(x.layerIndex,x.currentPos) for x in n3]!=[(x.layerIndex,x.currentPos) for x in n4]: bad['C06']+=1
        except Exception as e:
            bad['EXC2:'+type(e).__name__]+=1
    return bad

if __name__=='__main__':
    b=run(int(sys.argv[1]) if len(sys.argv)>1 else 1, int(sys.argv[2]) if len(sys.argv)>2 else 300)
    print(' '.join(f"{k}={v}" for k,v in sorted(b.items())) or 'OK')
