#!/usr/bin/env python3
"""Authoring-time robustness probe: copy /repo/labella to <dest>/labella with every positional parameter (except the
receiver) of every function renamed (suffix `_p`), unless some call in the package, the tests or the examples passes an
argument of that name by keyword (then every function keeps that parameter name).  Behaviour-preserving by construction."""
import ast, glob, os, shutil, sys


def kw_names(root="/repo"):
    names = set()
    if not os.path.isdir(os.path.join(root, "tests")):
        root = "/repo"
    for pat in (root + "/labella/*.py", root + "/tests/*.py", root + "/examples/*.py", root + "/docs/*.py"):
        for p in glob.glob(pat):
            try:
                t = ast.parse(open(p).read())
            except SyntaxError:
                continue
            for n in ast.walk(t):
                if isinstance(n, ast.Call):
                    for k in n.keywords:
                        if k.arg:
                            names.add(k.arg)
                if isinstance(n, ast.Constant) and isinstance(n.value, str) and n.value.isidentifier() and "/labella/" not in p:
                    names.add(n.value)  # may be a key of a dict passed as **kwargs
    return names


def rename_module(src, keep):
    tree = ast.parse(src)

    def funcs(node, in_class):
        for ch in ast.iter_child_nodes(node):
            if isinstance(ch, (ast.FunctionDef, ast.AsyncFunctionDef)):
                yield ch, in_class
                yield from funcs(ch, False)
            elif isinstance(ch, ast.ClassDef):
                yield from funcs(ch, True)
            else:
                yield from funcs(ch, in_class)

    for f, is_method in list(funcs(tree, False)):
        a = f.args
        static = any(isinstance(d, ast.Name) and d.id == "staticmethod" for d in f.decorator_list)
        ps = a.posonlyargs + a.args
        if is_method and not static and ps:
            ps = ps[1:]
        ren = {x.arg for x in ps if x.arg not in keep}
        # names rebound as globals / used by nested functions as their own parameters are left alone
        for n in ast.walk(f):
            if isinstance(n, (ast.Global, ast.Nonlocal)):
                ren -= set(n.names)
            if isinstance(n, (ast.FunctionDef, ast.AsyncFunctionDef, ast.Lambda)) and n is not f:
                b = n.args
                ren -= {x.arg for x in b.posonlyargs + b.args + b.kwonlyargs}
        for x in ps:
            if x.arg in ren:
                x.arg = x.arg + "_p"
        for n in ast.walk(f):
            if isinstance(n, ast.Name) and n.id in ren:
                n.id = n.id + "_p"
    return ast.unparse(tree) + "\n"


def main(dest):
    keep = kw_names()
    os.makedirs(dest, exist_ok=True)
    shutil.copytree("/repo/labella", os.path.join(dest, "labella"))
    for p in glob.glob(os.path.join(dest, "labella", "*.py")):
        src = open(p).read()
        open(p, "w").write(rename_module(src, keep))


if __name__ == "__main__":
    main(sys.argv[1])
