#!/usr/bin/env python3
"""Authoring-time robustness probe: copy /repo/labella to <dest>/labella with (1) every `if c: A else: B` (B not an elif
chain) turned into `if not c: B else: A`, (2) every comparison between side-effect-free operands (names, attributes,
constants, subscripts of those) mirrored (`a < b` -> `b > a`), (3) `not x is None` spelled `x is not None`.
Behaviour-preserving by construction."""
import ast, glob, os, shutil, sys

MIRROR = {ast.Lt: ast.Gt, ast.Gt: ast.Lt, ast.LtE: ast.GtE, ast.GtE: ast.LtE, ast.Eq: ast.Eq, ast.NotEq: ast.NotEq}


def pure(e):
    if isinstance(e, (ast.Name, ast.Constant)):
        return True
    if isinstance(e, ast.Attribute):
        return pure(e.value)
    if isinstance(e, ast.Subscript):
        return pure(e.value) and pure(e.slice)
    if isinstance(e, ast.UnaryOp):
        return pure(e.operand)
    if isinstance(e, ast.BinOp):
        return pure(e.left) and pure(e.right)
    return False


class T(ast.NodeTransformer):
    def visit_If(self, node):
        self.generic_visit(node)
        if node.orelse and not (len(node.orelse) == 1 and isinstance(node.orelse[0], ast.If)):
            t = node.test
            if isinstance(t, ast.UnaryOp) and isinstance(t.op, ast.Not):
                nt = t.operand
            else:
                nt = ast.UnaryOp(op=ast.Not(), operand=t)
            return ast.copy_location(ast.If(test=nt, body=node.orelse, orelse=node.body), node)
        return node

    def visit_Compare(self, node):
        self.generic_visit(node)
        if len(node.ops) == 1 and type(node.ops[0]) in MIRROR and pure(node.left) and pure(node.comparators[0]) and not isinstance(node.comparators[0], ast.Constant):
            return ast.copy_location(ast.Compare(left=node.comparators[0], ops=[MIRROR[type(node.ops[0])]()], comparators=[node.left]), node)
        return node

    def visit_UnaryOp(self, node):
        self.generic_visit(node)
        if isinstance(node.op, ast.Not) and isinstance(node.operand, ast.Compare) and len(node.operand.ops) == 1 and isinstance(node.operand.ops[0], ast.Is):
            c = node.operand
            return ast.copy_location(ast.Compare(left=c.left, ops=[ast.IsNot()], comparators=c.comparators), node)
        return node


def main(dest):
    os.makedirs(dest, exist_ok=True)
    shutil.copytree("/repo/labella", os.path.join(dest, "labella"))
    for p in glob.glob(os.path.join(dest, "labella", "*.py")):
        src = open(p).read()
        tree = T().visit(ast.parse(src))
        ast.fix_missing_locations(tree)
        open(p, "w").write(ast.unparse(tree) + "\n")


if __name__ == "__main__":
    main(sys.argv[1])
