#!/usr/bin/env python3
"""Authoring-time robustness probe: copy /repo/labella to <dest>/labella with, depending on REWRITE_MODE (comma list):
  methods  - the methods of every class in reverse order (properties and class-level statements keep their places);
  rotate   - `while c: B` written `while True: if not c: break; B` (loops without else);
  nest     - `if a and b: X` (no else) written `if a: if b: X`;
  demorgan - in if/while tests `not (a and b)` written `(not a) or (not b)` and `not (a or b)` written `(not a) and (not b)`;
  annassign- `name = expr` (plain local name, inside functions) written `name: object = expr`.
Behaviour-preserving by construction."""
import ast, glob, os, shutil, sys

MODE = set((os.environ.get("REWRITE_MODE") or "methods,rotate,nest,demorgan,annassign").split(","))


class T(ast.NodeTransformer):
    def __init__(self):
        self.depth = 0

    def visit_ClassDef(self, node):
        self.generic_visit(node)
        if "methods" in MODE:
            idx = [i for i, s in enumerate(node.body) if isinstance(s, ast.FunctionDef) and not s.decorator_list]
            # methods referenced by class-level statements must stay defined before those statements
            used = {n.id for s in node.body if not isinstance(s, (ast.FunctionDef, ast.AsyncFunctionDef)) for n in ast.walk(s) if isinstance(n, ast.Name)}
            idx = [i for i in idx if node.body[i].name not in used]
            fs = [node.body[i] for i in idx][::-1]
            for i, f in zip(idx, fs):
                node.body[i] = f
        return node

    def visit_FunctionDef(self, node):
        self.depth += 1
        saved = getattr(self, "skip", set())
        self.skip = saved | {x for n in ast.walk(node) if isinstance(n, (ast.Global, ast.Nonlocal)) for x in n.names}
        self.generic_visit(node)
        self.skip = saved
        self.depth -= 1
        return node

    def visit_While(self, node):
        self.generic_visit(node)
        if "rotate" in MODE and not node.orelse and not (isinstance(node.test, ast.Constant)):
            brk = ast.If(test=ast.UnaryOp(op=ast.Not(), operand=node.test), body=[ast.Break()], orelse=[])
            return ast.copy_location(ast.While(test=ast.Constant(value=True), body=[brk] + node.body, orelse=[]), node)
        return node

    def visit_If(self, node):
        self.generic_visit(node)
        if "demorgan" in MODE:
            node.test = self.dm(node.test)
        if "nest" in MODE and not node.orelse and isinstance(node.test, ast.BoolOp) and isinstance(node.test.op, ast.And) and len(node.test.values) == 2:
            a, b = node.test.values
            inner = ast.If(test=b, body=node.body, orelse=[])
            return ast.copy_location(ast.If(test=a, body=[inner], orelse=[]), node)
        return node

    def dm(self, t):
        if isinstance(t, ast.UnaryOp) and isinstance(t.op, ast.Not) and isinstance(t.operand, ast.BoolOp):
            b = t.operand
            op = ast.Or() if isinstance(b.op, ast.And) else ast.And()
            return ast.BoolOp(op=op, values=[ast.UnaryOp(op=ast.Not(), operand=v) for v in b.values])
        return t

    def visit_Assign(self, node):
        if "annassign" in MODE and self.depth > 0 and len(node.targets) == 1 and isinstance(node.targets[0], ast.Name) and node.targets[0].id not in getattr(self, "skip", set()):
            return ast.copy_location(ast.AnnAssign(target=node.targets[0], annotation=ast.Name(id="object", ctx=ast.Load()), value=node.value, simple=1), node)
        return node


def main(dest):
    os.makedirs(dest, exist_ok=True)
    shutil.copytree("/repo/labella", os.path.join(dest, "labella"))
    for p in glob.glob(os.path.join(dest, "labella", "*.py")):
        src = open(p).read()
        tree = T().visit(ast.parse(src))
        ast.fix_missing_locations(tree)
        out = ast.unparse(tree) + "\n"
        compile(out, p, "exec")
        open(p, "w").write(out)


if __name__ == "__main__":
    main(sys.argv[1])
