#!/usr/bin/env python3
"""Authoring-time: refresh the generated parts of DESIGN.md (between <!-- BUILD-TABLE --> and <!-- MATRIX --> markers)
from evidence/*.json (run `./check all --tier thorough` first) and selftest/matrix.json (run tools/seed_matrix.py first)."""
import json, os, re, sys
sys.path.insert(0, "/verif")
from sa.rules import registry

V = "/verif"
PROPS = ["C%02d" % i for i in range(1, 21)]


def build_table():
    reg = registry()
    L = ["| id | rules run by the check (own and shared) | obligations decided today (quick) | wall time of the last run (thorough tier, 16 workers) | thorough: seeded / repair inverses / refactorings silent / mechanical transformations silent / survey mutants reported |", "|----|----|----|----|----|"]
    for p in PROPS:
        ev = json.load(open(os.path.join(V, "evidence", p + ".json")))
        cov = ev["coverage"]
        rules = sorted({r.split(".inventory")[0] for r in cov["per_rule_instances"]})
        own = [r for r in rules if r.startswith(p + ".")]
        shared = [r for r in rules if not r.startswith(p + ".")]
        st = cov.get("selftest", {})
        known = len(cov.get("known_findings_printed", []))
        thor = "%s / %s / %s / %s / %s of %s" % (st.get("seeded_changes_reported", "?"), st.get("repair_inverses_reported", "?"), st.get("equivalents_silent", "?"), st.get("mechanical_transformations_silent", "?"), st.get("survey_reported", "?"), st.get("survey_mutants_with_recorded_violation", "?")) if st else "(run the thorough tier)"
        n = cov["obligations"]
        if "deep_pass" in cov:
            n = "%d (+%d in the deep pass)" % (cov["obligations"] - cov["deep_pass"]["additional_obligations"], cov["deep_pass"]["additional_obligations"])
        L.append("| %s | %s%s | %s%s | %.1f s | %s |" % (p, " ".join(r.split(".", 1)[1] for r in own), (" + " + ", ".join(shared)) if shared else "", n, " (%d known)" % known if known else "", ev["wall_s"], thor))
    return "\n".join(L)


def matrix_section():
    m = json.load(open(os.path.join(V, "selftest", "matrix.json")))
    L = []
    L.append("| change | what it does (from its meta.json) | reported by (own check) | also reported by |")
    L.append("|---|---|---|---|")
    missed = []
    for s_, res in sorted(m["seeded"].items(), key=lambda kv: (kv[0].split("-")[0], int(kv[0].split("-")[1]))):
        prop = s_.split("-")[0]
        try:
            meta = json.load(open(os.path.join(V, "seeded", s_, "meta.json")))
        except Exception:
            meta = {}
        what = " ".join(str(meta.get("summary") or meta.get("what") or meta.get("description") or meta.get("change") or "").split()).replace("|", "/")
        if len(what) > 150:
            what = what[:147] + "…"
        own = res.get(prop, {})
        if own.get("exit") != 1:
            missed.append(s_)
        rules = ", ".join(own.get("rules", [])) or "exit %s" % own.get("exit")
        others = ", ".join(p for p in PROPS if p != prop and res.get(p, {}).get("exit") == 1)
        L.append("| %s | %s | %s | %s |" % (s_, what, rules, others or "—"))
    L.append("")
    L.append("Seeded changes not reported by their own check: %s." % (", ".join(missed) or "none"))
    L.append("")
    L.append("**Repair inverses.**")
    L.append("")
    L.append("| defect re-introduced | reported by |")
    L.append("|---|---|")
    for s_, res in sorted(m["defect"].items(), key=lambda kv: int(kv[0].split("-")[0][1:])):
        L.append("| %s | %s |" % (s_, "; ".join("%s: %s" % (p, ", ".join(r["rules"])) for p, r in sorted(res.items()) if r.get("exit") == 1)))
    L.append("")
    al = [(s_, p, r) for s_, res in m["equivalent"].items() for p, r in res.items() if r.get("exit") != 0]
    L.append("**Refactorings.**  %d refactorings x 20 checks = %d runs, %d alarms%s." % (len(m["equivalent"]), len(m["equivalent"]) * 20, len(al), (": " + "; ".join("%s on %s (exit %s)" % (a, b, c["exit"]) for a, b, c in al[:10])) if al else ""))
    L.append("")
    L.append("(generated from selftest/matrix.json, /repo %s, %d seeded changes)" % (m.get("_repo_head"), len(m["seeded"])))
    return "\n".join(L)


def main():
    p = os.path.join(V, "DESIGN.md")
    s = open(p).read()
    for tag, fn in (("BUILD-TABLE", build_table), ("MATRIX", matrix_section)):
        a, b = "<!-- %s -->" % tag, "<!-- /%s -->" % tag
        if a in s and b in s:
            i, j = s.index(a) + len(a), s.index(b)
            s = s[:i] + "\n" + fn() + "\n" + s[j:]
        else:
            print("marker %s missing" % tag)
    open(p, "w").write(s)
    print("DESIGN.md refreshed")


if __name__ == "__main__":
    main()
