#!/usr/bin/env python3
"""Regenerate MANIFEST.json from the rule registry (claimed properties = those with a rules module)."""
import json, os, sys
sys.path.insert(0, os.path.dirname(os.path.dirname(os.path.abspath(__file__))))
from sa.rules import registry, PROPS

TECH = {
 "C01": "gated symbolic value numbering of removeOverlap (rational normal forms over opaque atoms) + CFG dominance/must-pass + who-may-write + effect summaries",
 "C02": "value numbering of the QP handed to the solver; polynomial identities (derivative/stationarity) on vpsc.py; CFG path rules",
 "C03": "value numbering of wall construction per bound configuration; CFG early-exit rule; option dataflow through Force.set_options",
 "C04": "linear-resource (move) and iteration-space analysis of the layering loops; value numbering of stub creation; ordering implications on loop guards",
 "C05": "CFG path rules (re-fetch on back edges, must-follow re-queue), algebraic normal forms (tightness, stationarity, cost), who-may-write",
 "C06": "attribute def-use over the call graph in program order, dominance of sorts, effect/hidden-state analysis",
 "C07": "per-direction symbolic geometry (polynomial identities), emission templates, input-class dataflow with issubclass oracle",
 "C08": "per-direction symbolic geometry: band containment by sign certificates on polynomials",
 "C09": "sibling cross-check of the two emitters' slot templates per configuration",
 "C10": "flow-sensitive heap identity tracking through symbolic evaluation of construction/export + module-level mutation summaries",
 "C11": "null/kind dataflow, division/log discharge table with dominance, call-graph SCC stack bound, definite assignment",
 "C12": "symbolic instantiation of LinearScale, rational-function equality, float-exact rewriting, CFG must-pass to rescale(), heap identity for copies",
 "C13": "decision-tree normal form of the tick range + interval arithmetic on source constants",
 "C14": "value numbering of nice() for both orientations; loop-shape rules on the skip search",
 "C15": "unit typing of the time scale via value numbering; inverse-pair algebra of dt2milli/milli2dt; TZ-API scan",
 "C16": "table agreement rules, numeric-kind domain for range() arguments, calendar-field validity domain, loop-shape rules",
 "C17": "sibling consistency over the interval registry via value numbering of floor/step/number; calendar-field validity",
 "C18": "resolved-name scan of all call sites/attribute references against the closed list of TZ-sensitive stdlib entry points (0-CFA typed receivers)",
 "C19": "string conservation (linear flow) through uni2tex, index-bound dominance, table oracle via unicodedata",
 "C20": "congruence analysis of int2name (residues mod 26 x symbolic quotient), digit-provenance domain for hex conversions, template agreement",
}

def main():
    reg = registry()
    props = [json.loads(l) for l in open('/verif/properties.jsonl')]
    na_reasons = json.load(open('/verif/tools/not_applicable.json')) if os.path.exists('/verif/tools/not_applicable.json') else {}
    checks = []
    na = []
    for p in props:
        pid = p['id']
        if pid in reg:
            checks.append({
                "property_id": pid,
                "quick_cmd": "./check %s --tier quick" % pid,
                "thorough_cmd": "./check %s --tier thorough" % pid,
                "evidence_file": "/verif/evidence/%s.json" % pid,
                "replay_cmd_template": "./check --replay {path}",
                "engine": "sa",
                "level_claimed": {
                    "category": "other",
                    "text": "Static analysis of /repo/labella/*.py (never imported or executed): decides necessary structural clauses of the property on every path, not the behaviour itself. " + reg[pid]["explanation"],
                    "design_ref": "DESIGN.md section 4 (%s) and section 5" % pid,
                },
                "level_note": "Trusted base: CPython ast parser; the rule tables in /verif/sa/rules (expected normal forms, writer tables, oracle tables); stated Python/stdlib semantics. " + " ".join(reg[pid]["assumptions"]),
                "technique": "static analysis: " + TECH.get(pid, "ast-based rules"),
            })
        else:
            na.append({"property_id": pid, "reason": na_reasons.get(pid, "check not built yet (build in progress; see DESIGN.md section 8)")})
    m = {
        "version": 1,
        "setup_cmd": "/venv/bin/python -c \"import ast, sys; [ast.parse(open(f).read(), f) for f in __import__('glob').glob('/verif/sa/**/*.py', recursive=True)]; print('sa ok', sys.version.split()[0])\"",
        "hooks": {
            "guard": "GJJVDBURG_LABELLA_PY_VERIF",
            "enable": "none needed: the checks are static and read /repo/labella/*.py as text; no hook or instrumentation exists in /repo",
            "baseline_off_cmd": "cd /repo && /venv/bin/python -m pytest -ra -q -p no:cacheprovider --timeout=900 --continue-on-collection-errors",
            "source_commits": [],
            "add_only": True,
        },
        "engines": [{"name": "sa", "path": "/verif/sa", "serves_properties": sorted(reg), "kind_free_text": "pure-stdlib ast analyses: program model, CFG+dominators, 0-CFA type flow and call graph, effect summaries, gated symbolic value numbering with rational normal forms, float-exact rewriting"}],
        "checks": checks,
        "notes": "Exit codes: 0 all obligations discharged (KNOWN-FINDING lines printed for listed findings); 1 VIOLATION; 2 ANALYSIS-ERROR (anchor vanished / construct not understood / checker crash) - never a silent pass. /repo carries 12 unguarded 'fix:' commits (see known_findings.json); no hooks.",
        "not_applicable": na,
    }
    json.dump(m, open('/verif/MANIFEST.json', 'w'), indent=1)
    print("claimed", len(checks), "not_applicable", len(na))

main()
