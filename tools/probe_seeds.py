#!/usr/bin/env python3
"""Authoring-time: every seeded change of round k (arguments: the k of seeded/Cxx-k, default 16) combined with each of the twelve
mechanical behaviour-preserving transformations (sa/selftest/probes.py) must still be reported by its own check
(analysis only, in memory).  Last full run: 360 changes x 12 transformations, all reported."""
import sys, os, glob, subprocess, tempfile, shutil, json
sys.path.insert(0,'/verif')
from concurrent.futures import ProcessPoolExecutor
from sa.core import Program
from sa.selftest.probes import variants
from sa.selftest.runner import _analyse_sources

def job(args):
    prop, seed = args
    d=tempfile.mkdtemp(prefix='ps_'); shutil.copytree('/repo/labella', d+'/labella')
    p=subprocess.run(['patch','-p1','-s','-i','/verif/seeded/%s/patch.diff'%seed],cwd=d,capture_output=True)
    if p.returncode: shutil.rmtree(d); return (seed,'noapply')
    P=Program.load(d); src=dict(P.sources); shutil.rmtree(d)
    out=[]
    for name, s, err in variants(src, '/repo'):
        if s is None: out.append((name,'skip')); continue
        r=_analyse_sources((prop, s))
        out.append((name, r[0]))
    return (seed, out)

if __name__=='__main__':
    ks=sys.argv[1:] or ['16']
    jobs=[("C%02d"%i, "C%02d-%s"%(i,k)) for i in range(1,21) for k in ks]
    with ProcessPoolExecutor(16) as ex:
        for seed, out in ex.map(job, jobs):
            if out=='noapply': print(seed,'noapply'); continue
            bad=[(n,c) for n,c in out if c!=1 and c!='skip']
            print(seed, 'all reported' if not bad else 'NOT REPORTED under: %s'%bad, [n for n,c in out if c=='skip'])
