#!/usr/bin/env python3
"""Authoring-time robustness probe: copy /repo/labella to <dest>/labella with every local variable of every function
renamed (suffix `_r`; parameters, attributes, globals and names used as keyword arguments keep their names).  The result is
behaviour-preserving by construction; all checks must stay silent on it."""
import ast, glob, os, shutil, sys


def rename_module(src):
    tree = ast.parse(src)
    mod_globals = set()
    for n in tree.body:
        for x in ast.walk(n) if not isinstance(n, (ast.FunctionDef, ast.ClassDef)) else []:
            if isinstance(x, ast.Name) and isinstance(x.ctx, ast.Store):
                mod_globals.add(x.id)
        if isinstance(n, (ast.FunctionDef, ast.ClassDef)):
            mod_globals.add(n.name)

    def top_functions(node):
        for ch in ast.iter_child_nodes(node):
            if isinstance(ch, (ast.FunctionDef, ast.AsyncFunctionDef)):
                yield ch
            elif isinstance(ch, ast.ClassDef):
                yield from top_functions(ch)

    for f in top_functions(tree):
        params, stores, keep = set(), set(), set()
        for n in ast.walk(f):
            if isinstance(n, (ast.FunctionDef, ast.AsyncFunctionDef, ast.Lambda)):
                a = n.args
                for x in a.posonlyargs + a.args + a.kwonlyargs + ([a.vararg] if a.vararg else []) + ([a.kwarg] if a.kwarg else []):
                    params.add(x.arg)
                if not isinstance(n, ast.Lambda) and n is not f:
                    stores.add(n.name)
            elif isinstance(n, (ast.Global, ast.Nonlocal)):
                keep |= set(n.names)
            elif isinstance(n, ast.Name) and isinstance(n.ctx, (ast.Store, ast.Del)):
                stores.add(n.id)
            elif isinstance(n, ast.ExceptHandler) and n.name:
                keep.add(n.name)
        ren = {s for s in stores if s not in params and s not in keep and not s.startswith("__")}
        for n in ast.walk(f):
            if isinstance(n, ast.Name) and n.id in ren:
                n.id = n.id + "_r"
            elif isinstance(n, (ast.FunctionDef, ast.AsyncFunctionDef)) and n is not f and n.name in ren:
                n.name = n.name + "_r"
    return ast.unparse(tree) + "\n"


def main(dest):
    os.makedirs(dest, exist_ok=True)
    shutil.copytree("/repo/labella", os.path.join(dest, "labella"))
    for p in glob.glob(os.path.join(dest, "labella", "*.py")):
        s = open(p).read()
        open(p, "w").write(rename_module(s))


if __name__ == "__main__":
    main(sys.argv[1])
