#!/usr/bin/env python3
"""Authoring-time robustness probe: copy /repo/labella to <dest>/labella with (1) `return <expr>` (expr not a name or
constant) written `_ret_k = <expr>; return _ret_k`, (2) `x = A if c else B` written as an if/else statement, and
`if c: x = A else: x = B` (same plain name, single assignments) written as a conditional expression, (3) an assignment
`name = [elt for v in it (if cond)]` with a single generator written as an explicit loop appending to a fresh list (fresh
loop variable names, so nothing leaks).  Behaviour-preserving by construction."""
import ast, copy, glob, os, shutil, sys

MODE = set((os.environ.get("REWRITE_MODE") or "ret,ifexp,comp").split(","))


class Ren(ast.NodeTransformer):
    def __init__(self, m):
        self.m = m

    def visit_Name(self, n):
        if n.id in self.m:
            return ast.copy_location(ast.Name(id=self.m[n.id], ctx=n.ctx), n)
        return n


class T(ast.NodeTransformer):
    def __init__(self):
        self.k = 0

    def fresh(self, base):
        self.k += 1
        return "_%s_%d" % (base, self.k)

    def body(self, stmts):
        out = []
        for s in stmts:
            r = self.visit(s)
            out.extend(r if isinstance(r, list) else [r])
        return out

    def generic_visit(self, node):
        for fld in ("body", "orelse", "finalbody"):
            v = getattr(node, fld, None)
            if isinstance(v, list) and v and isinstance(v[0], ast.stmt):
                setattr(node, fld, self.body(v))
        if isinstance(node, ast.Try):
            for h in node.handlers:
                h.body = self.body(h.body)
        return node

    def visit_Lambda(self, node):
        return node

    def visit_Return(self, node):
        if "ret" in MODE and node.value is not None and not isinstance(node.value, (ast.Name, ast.Constant)) and not any(isinstance(x, (ast.Yield, ast.YieldFrom)) for x in ast.walk(node.value)):
            nm = self.fresh("ret")
            a = ast.Assign(targets=[ast.Name(id=nm, ctx=ast.Store())], value=node.value)
            r = ast.Return(value=ast.Name(id=nm, ctx=ast.Load()))
            return [ast.copy_location(a, node), ast.copy_location(r, node)]
        return node

    def visit_Assign(self, node):
        if len(node.targets) == 1 and isinstance(node.targets[0], ast.Name):
            v = node.value
            if "ifexp" in MODE and isinstance(v, ast.IfExp):
                t = node.targets[0]
                mk = lambda val: ast.Assign(targets=[ast.Name(id=t.id, ctx=ast.Store())], value=val)
                return ast.copy_location(ast.If(test=v.test, body=[mk(v.body)], orelse=[mk(v.orelse)]), node)
            if "comp" in MODE and isinstance(v, ast.ListComp) and len(v.generators) == 1 and not v.generators[0].is_async:
                g = v.generators[0]
                names = {n.id for n in ast.walk(g.target) if isinstance(n, ast.Name)}
                m = {n: self.fresh("c" + n) for n in names}
                acc = self.fresh("acc")
                ren = Ren(m)
                elt = ren.visit(copy.deepcopy(v.elt))
                tgt = ren.visit(copy.deepcopy(g.target))
                conds = [ren.visit(copy.deepcopy(c)) for c in g.ifs]
                app = ast.Expr(value=ast.Call(func=ast.Attribute(value=ast.Name(id=acc, ctx=ast.Load()), attr="append", ctx=ast.Load()), args=[elt], keywords=[]))
                inner = [app]
                if conds:
                    inner = [ast.If(test=conds[0] if len(conds) == 1 else ast.BoolOp(op=ast.And(), values=conds), body=[app], orelse=[])]
                # nested lambdas/comprehensions referring to the loop variable are renamed as well (Ren visits them)
                loop = ast.For(target=tgt, iter=g.iter, body=inner, orelse=[])
                init = ast.Assign(targets=[ast.Name(id=acc, ctx=ast.Store())], value=ast.List(elts=[], ctx=ast.Load()))
                fin = ast.Assign(targets=[ast.Name(id=node.targets[0].id, ctx=ast.Store())], value=ast.Name(id=acc, ctx=ast.Load()))
                return [ast.copy_location(x, node) for x in (init, loop, fin)]
        return node

    def visit_If(self, node):
        self.generic_visit(node)
        if "ifexp" in MODE and len(node.body) == 1 and len(node.orelse) == 1 and all(isinstance(x, ast.Assign) and len(x.targets) == 1 and isinstance(x.targets[0], ast.Name) for x in (node.body[0], node.orelse[0])) \
                and node.body[0].targets[0].id == node.orelse[0].targets[0].id and not isinstance(node.orelse[0].value, ast.IfExp):
            nm = node.body[0].targets[0].id
            return ast.copy_location(ast.Assign(targets=[ast.Name(id=nm, ctx=ast.Store())], value=ast.IfExp(test=node.test, body=node.body[0].value, orelse=node.orelse[0].value)), node)
        return node


def main(dest):
    os.makedirs(dest, exist_ok=True)
    shutil.copytree("/repo/labella", os.path.join(dest, "labella"))
    for p in glob.glob(os.path.join(dest, "labella", "*.py")):
        src = open(p).read()
        tree = ast.parse(src)
        tr = T()
        tree.body = tr.body(tree.body)
        # classes: their bodies hold functions
        ast.fix_missing_locations(tree)
        open(p, "w").write(ast.unparse(tree) + "\n")


if __name__ == "__main__":
    main(sys.argv[1])
