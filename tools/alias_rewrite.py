#!/usr/bin/env python3
"""Authoring-time robustness probe: copy /repo/labella to <dest>/labella where, in every method (except __init__), an
attribute `self.X` that is read at least twice in the method and is never stored anywhere in the package outside of
`__init__` methods is read once into a local `X_` at the top of the method and the local is used instead.
Behaviour-preserving by construction (the attribute cannot be re-bound while the method runs)."""
import ast, glob, os, shutil, sys


def stored_outside_init(trees):
    out = set()
    for t in trees:
        for cls in [n for n in ast.walk(t) if isinstance(n, ast.ClassDef)]:
            pass
        for f in [n for n in ast.walk(t) if isinstance(n, (ast.FunctionDef, ast.AsyncFunctionDef))]:
            for n in ast.walk(f):
                if isinstance(n, ast.Attribute) and isinstance(n.ctx, (ast.Store, ast.Del)) and f.name != "__init__":
                    out.add(n.attr)
                if isinstance(n, ast.Call) and isinstance(n.func, ast.Name) and n.func.id in ("setattr", "delattr"):
                    out.add("*")
    return out


def transform_sources(sources):
    """sources: {"labella/x.py": text} -> same mapping with the rewrite applied (in memory)."""
    trees = {p: ast.parse(s) for p, s in sources.items() if p.startswith("labella/") and p.endswith(".py")}
    out = dict(sources)
    out.update(_rewrite(trees))
    return out


def main(dest):
    os.makedirs(dest, exist_ok=True)
    shutil.copytree("/repo/labella", os.path.join(dest, "labella"))
    files = glob.glob(os.path.join(dest, "labella", "*.py"))
    trees = {p: ast.parse(open(p).read()) for p in files}
    for p, text in _rewrite(trees).items():
        open(p, "w").write(text)


def _rewrite(trees):
    res = {}
    bad = stored_outside_init(trees.values())
    for p, t in trees.items():
        for cls in [n for n in ast.walk(t) if isinstance(n, ast.ClassDef)]:
            for f in [s for s in cls.body if isinstance(s, ast.FunctionDef)]:
                if f.name == "__init__" or not f.args.args or any(isinstance(d, ast.Name) and d.id in ("staticmethod", "classmethod", "property") for d in f.decorator_list):
                    continue
                if any(isinstance(n, (ast.Yield, ast.YieldFrom)) for n in ast.walk(f)):
                    continue
                selfn = f.args.args[0].arg
                counts = {}
                for n in ast.walk(f):
                    if isinstance(n, ast.Attribute) and isinstance(n.value, ast.Name) and n.value.id == selfn and isinstance(n.ctx, ast.Load):
                        par_call = False
                        counts[n.attr] = counts.get(n.attr, 0) + 1
                methods = {s.name for c in ast.walk(t) if isinstance(c, ast.ClassDef) for s in c.body if isinstance(s, ast.FunctionDef)}
                names = {n.id for n in ast.walk(f) if isinstance(n, ast.Name)} | {a.arg for a in f.args.args}
                todo = [a for a, k in counts.items() if k >= 2 and a not in bad and "*" not in bad and a not in methods and (a.strip("_") + "_") not in names]
                # nested functions / lambdas may run later: leave attributes they read alone
                inner = {n.attr for g in ast.walk(f) if isinstance(g, (ast.Lambda, ast.FunctionDef)) and g is not f for n in ast.walk(g) if isinstance(n, ast.Attribute)}
                todo = [a for a in todo if a not in inner]
                if not todo:
                    continue

                class R(ast.NodeTransformer):
                    def visit_Attribute(self, n):
                        self.generic_visit(n)
                        if isinstance(n.value, ast.Name) and n.value.id == selfn and isinstance(n.ctx, ast.Load) and n.attr in todo:
                            return ast.copy_location(ast.Name(id=n.attr.strip("_") + "_", ctx=ast.Load()), n)
                        return n

                doc = []
                body = f.body
                if body and isinstance(body[0], ast.Expr) and isinstance(body[0].value, ast.Constant) and isinstance(body[0].value.value, str):
                    doc, body = body[:1], body[1:]
                body = [R().visit(s) for s in body]
                pre = [ast.Assign(targets=[ast.Name(id=a.strip("_") + "_", ctx=ast.Store())], value=ast.Attribute(value=ast.Name(id=selfn, ctx=ast.Load()), attr=a, ctx=ast.Load())) for a in sorted(todo)]
                f.body = doc + pre + body
        ast.fix_missing_locations(t)
        out = ast.unparse(t) + "\n"
        compile(out, p, "exec")
        res[p] = out
    return res


if __name__ == "__main__":
    main(sys.argv[1])
