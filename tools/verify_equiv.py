#!/usr/bin/env python3
"""Confirm a behaviour-preserving refactoring: tests pass with it and its differential test says EQUIVALENT.
Usage: verify_equiv.py <srcdir> <name>"""
import json, os, shutil, subprocess, sys, tempfile
def run(cmd, cwd, env=None, timeout=900):
    e = dict(os.environ); e.update(env or {})
    p = subprocess.run(cmd, cwd=cwd, env=e, shell=True, capture_output=True, text=True, timeout=timeout)
    return p.returncode, (p.stdout + p.stderr)
def main(src, name):
    wt = tempfile.mkdtemp(prefix="ev_", dir="/tmp"); os.rmdir(wt)
    subprocess.check_call(["git", "-C", "/repo", "worktree", "add", "-q", "--detach", wt, "HEAD"])
    res = {}
    try:
        rc, out = run("git apply %s" % os.path.join(src, "patch.diff"), wt); res["apply"] = rc
        env = {"PYTHONPATH": wt, "PYTHONDONTWRITEBYTECODE": "1"}
        rc, out = run("/venv/bin/python -m pytest -q -p no:cacheprovider -x 2>&1 | tail -1", wt, env); res["tests"] = out.strip()
        rc, out = run("/venv/bin/python %s /repo %s" % (os.path.join(src, "equiv.py"), wt), "/tmp", {"PYTHONDONTWRITEBYTECODE": "1"}); res["equiv"] = (rc, out.strip().splitlines()[-1:] )
    finally:
        subprocess.call(["git", "-C", "/repo", "worktree", "remove", "--force", wt])
    ok = res.get("apply") == 0 and "109 passed" in res.get("tests", "") and res["equiv"][0] == 0
    if ok:
        os.makedirs("/verif/selftest/equivalents", exist_ok=True)
        shutil.copy(os.path.join(src, "patch.diff"), "/verif/selftest/equivalents/%s.diff" % name)
        shutil.copy(os.path.join(src, "equiv.py"), "/verif/selftest/equivalents/%s.equiv.py" % name)
        meta = json.load(open(os.path.join(src, "meta.json")))
        meta["what_i_ran"] = res
        json.dump(meta, open("/verif/selftest/equivalents/%s.json" % name, "w"), indent=1)
    print(name, "CONFIRMED" if ok else "REJECTED", str(res)[:200])
main(sys.argv[1], sys.argv[2])
