#!/usr/bin/env python3
"""Authoring-time: list the survey mutants of a property that its check does not report."""
import sys, collections
sys.path.insert(0, "/verif")
from concurrent.futures import ProcessPoolExecutor
from sa.core import Program
from sa.selftest import runner
from sa.selftest.mutants import file_mutants

def main(prop):
    P = Program.load("/repo")
    cases = runner.survey_cases(prop)
    by_file = {}
    for f, ln, desc, verd in cases:
        by_file.setdefault(f, []).append((ln, desc, verd))
    jobs, meta = [], []
    for f, lst in by_file.items():
        rel = "labella/" + f
        muts = file_mutants(f, P.sources[rel])
        for ln, desc, verd in lst:
            ms = muts.get((ln, desc))
            if ms is None:
                continue
            src = dict(P.sources); src[rel] = ms
            jobs.append((prop, src)); meta.append((f, ln, desc, verd))
    with ProcessPoolExecutor(16) as ex:
        res = list(ex.map(runner._analyse_sources, jobs, chunksize=4))
    for m, r in zip(meta, res):
        if r[0] != 1:
            print("%s:%s\t%s\t%s\texit=%s" % (m[0], m[1], m[2], m[3], r[0]))

if __name__ == "__main__":
    main(sys.argv[1])
