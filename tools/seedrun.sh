#!/bin/bash
# usage: seedrun.sh <property> <seed names...> : apply each seeded patch to a scratch copy and run the check
prop=$1; shift
for s in "$@"; do
  d=$(mktemp -d /tmp/mt.XXXXXX); cp -r /repo/labella $d/
  (cd $d && patch -p1 -s < /verif/seeded/$s/patch.diff) || echo "PATCH FAILED $s"
  out=$(cd /verif && ./check $prop --root $d 2>&1); rc=$?
  echo "== $s -> $prop exit=$rc $(echo "$out" | grep -E 'rule=' | sed 's/ at .*//' | sort | uniq -c | tr '\n' ';' | cut -c1-300)"
  echo "$out" | grep -E "ANALYSIS-ERROR" | cut -c1-250 | head -3
  rm -rf $d
done
