#!/usr/bin/env python3
"""Confirm a seeded change independently: in a fresh scratch worktree of /repo HEAD,
demo passes without the patch, the 109 tests pass with it, demo fails with it.
Usage: verify_seed.py <srcdir with patch.diff demo.py meta.json> <dest name under /verif/seeded>"""
import json, os, shutil, subprocess, sys, tempfile

def run(cmd, cwd, env=None, timeout=600):
    e = dict(os.environ); e.update(env or {})
    p = subprocess.run(cmd, cwd=cwd, env=e, shell=True, capture_output=True, text=True, timeout=timeout)
    return p.returncode, (p.stdout + p.stderr)

def main(src, name):
    wt = tempfile.mkdtemp(prefix="sv_", dir="/tmp")
    os.rmdir(wt)
    subprocess.check_call(["git", "-C", "/repo", "worktree", "add", "-q", "--detach", wt, "HEAD"])
    res = {}
    try:
        env = {"PYTHONPATH": wt, "PYTHONDONTWRITEBYTECODE": "1"}
        shutil.copy(os.path.join(src, "demo.py"), os.path.join(wt, "_demo.py"))
        rc, out = run("/venv/bin/python _demo.py", wt, env)
        res["demo_without_patch"] = {"exit": rc, "tail": out.strip().splitlines()[-1:] }
        rc, out = run("git apply %s" % os.path.join(src, "patch.diff"), wt)
        res["apply"] = rc
        if rc != 0:
            res["apply_err"] = out[-500:]
        rc, out = run("/venv/bin/python -m pytest -q -p no:cacheprovider -x 2>&1 | tail -1", wt, env)
        res["tests_with_patch"] = out.strip()
        rc, out = run("/venv/bin/python _demo.py", wt, env)
        res["demo_with_patch"] = {"exit": rc, "tail": out.strip().splitlines()[-2:]}
        head = subprocess.run(["git", "-C", "/repo", "rev-parse", "--short", "HEAD"], capture_output=True, text=True).stdout.strip()
        res["repo_head"] = head
    finally:
        subprocess.call(["git", "-C", "/repo", "worktree", "remove", "--force", wt])
    ok = res["demo_without_patch"]["exit"] == 0 and res.get("apply") == 0 and "109 passed" in res["tests_with_patch"] and res["demo_with_patch"]["exit"] == 1
    res["confirmed"] = ok
    if ok:
        dest = os.path.join("/verif/seeded", name)
        os.makedirs(dest, exist_ok=True)
        for f in ("patch.diff", "demo.py"):
            shutil.copy(os.path.join(src, f), os.path.join(dest, f))
        meta = json.load(open(os.path.join(src, "meta.json")))
        meta["what_i_ran"] = {
            "scratch": "git worktree of /repo at %s under /tmp, removed afterwards" % res["repo_head"],
            "demo_without_patch": res["demo_without_patch"],
            "tests_with_patch": res["tests_with_patch"],
            "demo_with_patch": res["demo_with_patch"],
            "commands": ["PYTHONPATH=<wt> /venv/bin/python demo.py", "git apply patch.diff", "PYTHONPATH=<wt> /venv/bin/python -m pytest -q -p no:cacheprovider", "PYTHONPATH=<wt> /venv/bin/python demo.py"],
        }
        json.dump(meta, open(os.path.join(dest, "meta.json"), "w"), indent=1)
    print(name, "CONFIRMED" if ok else "REJECTED", json.dumps(res)[:400])

if __name__ == "__main__":
    main(sys.argv[1], sys.argv[2])
