#!/bin/bash
# run every mechanical probe; prints only deviations (failed tests, alarms)
run() { # mode tool
  out=$(REWRITE_MODE=$1 /verif/tools/probe.sh $2 200 2>&1)
  t=$(echo "$out" | grep -E "passed|failed" | head -1)
  bad=$(echo "$out" | grep -E "VIOLATION|ANALYSIS" | wc -l)
  echo "$2 ${1:-default}: tests [$t] alarms $bad"
  [ "$bad" != "0" ] && echo "$out" | grep -E "  rule=|ANALYSIS" | sort | uniq -c | head -20
  d=$(echo "$out" | grep "^tree:" | cut -d' ' -f2); rm -rf "$d"
}
run "" alpha_rename
run "" param_rename
run "" logic_rewrite
for m in ret ifexp comp; do run $m stmt_rewrite; done
for m in methods rotate nest demorgan annassign; do run $m shape_rewrite; done
run "" alias_rewrite
