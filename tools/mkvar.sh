#!/bin/bash
# usage: mkvar.sh <eq-name> -> prints a scratch dir with the refactoring applied (remove it yourself)
d=$(mktemp -d /tmp/mv.XXXXXX); cp -r /repo/labella $d/
(cd $d && patch -p1 -s < /verif/selftest/equivalents/$1.diff) || echo "PATCH FAILED"
echo $d
