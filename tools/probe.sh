#!/bin/bash
# usage: probe.sh <alpha_rename|param_rename> : build the transformed tree, run the 109 tests on it, run all 20 checks
t=$1
d=$(mktemp -d /tmp/mv.XXXXXX); rmdir $d
python3 /verif/tools/$t.py $d || exit 2
cp -r /repo/tests $d/tests
(cd $d && PYTHONPATH=$d /venv/bin/python -m pytest -q -p no:cacheprovider tests 2>&1 | tail -1)
(cd $d && PYTHONPATH=$d /venv/bin/python -c "import labella, os; print('imported from', os.path.dirname(labella.__file__))")
cd /verif && ./check all --root $d 2>&1 | grep -E "tier=|ANALYSIS|  rule=" -A2 | grep -v "0 violated, 0 known, 0 undecided" | cut -c1-300 | head -${2:-60}
echo "tree: $d"
