#!/bin/bash
# usage: eqrun1.sh <pattern> [props...] : like eqrun.sh for the equivalents matching a glob pattern; prints details
pat=$1; shift
props=${@:-C01 C02 C03 C04 C05 C06 C07 C08 C09 C10 C11 C12 C13 C14 C15 C16 C17 C18 C19 C20}
run_one() {
  f=$1; shift
  n=$(basename $f .diff)
  d=$(mktemp -d /tmp/mt.XXXXXX); cp -r /repo/labella $d/
  (cd $d && patch -p1 -s < $f) || { echo "PATCH FAILED $n"; rm -rf $d; return; }
  for p in "$@"; do
    out=$(cd /verif && ./check $p --root $d 2>&1); rc=$?
    if [ $rc -ne 0 ]; then echo "ALARM $n -> $p exit=$rc"; echo "$out" | grep -E "rule=|construct|ANALYSIS" -A1 | cut -c1-330 | head -24; fi
  done
  rm -rf $d
}
export -f run_one
ls /verif/selftest/equivalents/$pat.diff | xargs -P 16 -I{} bash -c "run_one {} $props"
