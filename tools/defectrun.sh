#!/bin/bash
# apply the inverse of each fix commit (re-introducing the defect) to a scratch copy and run the property's check
for f in /verif/selftest/defects/*.diff; do
  b=$(basename $f .diff); prop=${b#*-}
  [ -n "$1" ] && [ "$1" != "$prop" ] && [ "$1" != "${b%%-*}" ] && continue
  d=$(mktemp -d /tmp/mt.XXXXXX); cp -r /repo/labella $d/
  (cd $d && patch -p1 -s < $f) || echo "PATCH FAILED $b"
  out=$(cd /verif && ./check $prop --root $d 2>&1); rc=$?
  echo "== $b exit=$rc $(echo "$out" | grep -E 'rule=' | sed 's/ at .*//' | sort | uniq -c | tr '\n' ';' | cut -c1-260)"
  echo "$out" | grep -E "ANALYSIS-ERROR" | cut -c1-200 | head -2
  rm -rf $d
done
